// C19 — canonical full SNAPSHOT of a Db / DbGrid taken through PUBLIC getters only, and a structured diff.
//
// What a snapshot holds (everything a user can observe about the table):
//   * kind (point / grid), space dimension, sample count, column count, getUIDMaxNumber()
//   * per column, in column order: name, locator (type, rank), UID, every cell bit-for-bit
//   * per locator type: the number of items (Db::getLocatorNumber) and the UID behind every rank
//     (Db::getUIDByLocator) — the "role table", so that a hole or a dangling UID in it is seen too
//   * DbGrid: nx, x0, dx, rotation angles
//
// diff(a, b) matches the columns of `a` (before) and `b` (after) BY UID: a UID is the persistent identity of a
// column (column indices shift when a column is deleted, names may be edited). It returns one entry per CATEGORY
// of difference, each with the first witness:
//   nech, grid, missing-columns, extra-columns, column-order, names, locators, values, role-table
// Dead UID slots (Db::getUIDMaxNumber() grows by design whenever a column is added, and never shrinks: UIDs are
// not re-used) are NOT a difference: they are reported separately by uidSlotsGrew() as a diagnostic.
#pragma once
#include <cstdint>
#include <cstring>
#include <map>
#include <set>
#include <string>
#include <vector>

#include "Db/Db.hpp"
#include "Db/DbGrid.hpp"
#include "Enum/ELoc.hpp"

namespace c19
{
struct ColSnap
{
  std::string name;
  int locType = -1; // ELoc value, -1 = UNKNOWN
  int locIdx  = -1;
  int uid     = -1;
  std::vector<double> v;
};

struct DbSnap
{
  bool valid  = false;
  bool isGrid = false;
  int ndim = 0, nech = 0, ncol = 0, uidMax = 0;
  std::vector<ColSnap> cols;
  std::vector<std::vector<int>> roles; // [locator type][rank] -> uid
  std::vector<int> nx;
  std::vector<double> x0, dx, angles;

  int colOfUid(int uid) const
  {
    for (int i = 0; i < (int)cols.size(); i++)
      if (cols[i].uid == uid) return i;
    return -1;
  }
  std::set<int> uids() const
  {
    std::set<int> s;
    for (auto& c : cols) s.insert(c.uid);
    return s;
  }
};

inline std::string locName(int type, int idx)
{
  if (type < 0) return "NA";
  return std::string(ELoc::fromValue(type).getKey()) + std::to_string(idx + 1);
}
inline std::string locTypeName(int type)
{
  if (type < 0) return "NA";
  return std::string(ELoc::fromValue(type).getKey());
}

inline bool sameBits(double a, double b) { return std::memcmp(&a, &b, sizeof(double)) == 0; }

inline DbSnap snapshot(const Db* db)
{
  DbSnap s;
  if (db == nullptr) return s;
  s.valid  = true;
  s.isGrid = db->isGrid();
  s.ndim   = db->getNDim();
  s.nech   = db->getSampleNumber(false);
  s.ncol   = db->getColumnNumber();
  s.uidMax = db->getUIDMaxNumber();
  s.cols.resize(s.ncol);
  for (int icol = 0; icol < s.ncol; icol++)
  {
    ColSnap& c = s.cols[icol];
    c.name     = db->getNameByColIdx(icol);
    ELoc lt;
    int li = -1;
    if (db->getLocatorByColIdx(icol, &lt, &li))
    {
      c.locType = lt.getValue();
      c.locIdx  = li;
    }
    c.uid = db->getUIDByColIdx(icol);
    c.v.resize(s.nech);
    for (int iech = 0; iech < s.nech; iech++) c.v[iech] = db->getValueByColIdx(iech, icol);
  }
  int nloc = Db::getNEloc();
  s.roles.resize(nloc);
  for (int il = 0; il < nloc; il++)
  {
    ELoc lt = ELoc::fromValue(il);
    int n   = db->getLocatorNumber(lt);
    for (int k = 0; k < n; k++) s.roles[il].push_back(db->getUIDByLocator(lt, k));
  }
  const DbGrid* g = dynamic_cast<const DbGrid*>(db);
  if (g != nullptr)
  {
    for (int d = 0; d < s.ndim; d++)
    {
      s.nx.push_back(g->getNX(d));
      s.x0.push_back(g->getX0(d));
      s.dx.push_back(g->getDX(d));
    }
    VectorDouble a = g->getAngles();
    for (int d = 0; d < (int)a.size(); d++) s.angles.push_back(a[d]);
  }
  return s;
}

struct DiffItem
{
  std::string what;   // category (stable: goes into violation keys)
  std::string loc;    // for category "locators": the locator TYPE concerned (stable, goes into keys), else ""
  std::string detail; // first witness (free text)
};
using Diff = std::vector<DiffItem>;

inline bool sameVecBits(const std::vector<double>& a, const std::vector<double>& b)
{
  if (a.size() != b.size()) return false;
  for (size_t i = 0; i < a.size(); i++)
    if (!sameBits(a[i], b[i])) return false;
  return true;
}

// a = before, b = after
inline Diff diff(const DbSnap& a, const DbSnap& b)
{
  Diff d;
  char buf[512];
  if (a.valid != b.valid)
  {
    d.push_back({"db-presence", "", "one of the two snapshots is of a null Db"});
    return d;
  }
  if (!a.valid) return d;
  if (a.nech != b.nech)
  {
    snprintf(buf, sizeof buf, "sample count %d -> %d", a.nech, b.nech);
    d.push_back({"nech", "", buf});
  }
  if (a.isGrid != b.isGrid || a.ndim != b.ndim || a.nx != b.nx || !sameVecBits(a.x0, b.x0) ||
      !sameVecBits(a.dx, b.dx) || !sameVecBits(a.angles, b.angles))
  {
    snprintf(buf, sizeof buf, "grid geometry / dimension changed (ndim %d -> %d)", a.ndim, b.ndim);
    d.push_back({"grid", "", buf});
  }
  // columns matched by UID
  std::vector<int> match(a.cols.size(), -1);
  std::string missing, extra;
  int nmissing = 0, nextra = 0;
  for (size_t i = 0; i < a.cols.size(); i++)
  {
    match[i] = b.colOfUid(a.cols[i].uid);
    if (match[i] < 0)
    {
      if (nmissing++ < 4) missing += (missing.empty() ? "" : ",") + a.cols[i].name;
    }
  }
  std::set<int> ua = a.uids();
  for (auto& c : b.cols)
    if (!ua.count(c.uid))
    {
      if (nextra++ < 6) extra += (extra.empty() ? "" : ",") + c.name + "[" + locName(c.locType, c.locIdx) + "]";
    }
  if (nmissing)
  {
    snprintf(buf, sizeof buf, "%d pre-existing column(s) disappeared: %s", nmissing, missing.c_str());
    d.push_back({"missing-columns", "", buf});
  }
  if (nextra)
  {
    snprintf(buf, sizeof buf, "%d column(s) that did not exist before: %s", nextra, extra.c_str());
    d.push_back({"extra-columns", "", buf});
  }
  // relative order of surviving columns
  {
    int last = -1;
    for (size_t i = 0; i < a.cols.size(); i++)
    {
      if (match[i] < 0) continue;
      if (match[i] < last)
      {
        snprintf(buf, sizeof buf, "column '%s' moved before a column it used to follow", a.cols[i].name.c_str());
        d.push_back({"column-order", "", buf});
        break;
      }
      last = match[i];
    }
  }
  bool dn = false, dv = false;
  std::set<std::string> dl;
  for (size_t i = 0; i < a.cols.size(); i++)
  {
    if (match[i] < 0) continue;
    const ColSnap& ca = a.cols[i];
    const ColSnap& cb = b.cols[match[i]];
    if (!dn && ca.name != cb.name)
    {
      dn = true;
      snprintf(buf, sizeof buf, "column uid=%d name '%s' -> '%s'", ca.uid, ca.name.c_str(), cb.name.c_str());
      d.push_back({"names", "", buf});
    }
    if (ca.locType != cb.locType || ca.locIdx != cb.locIdx)
    {
      // keyed by the locator type the column HAD (or, when it had none, the one it received)
      std::string t = ca.locType >= 0 ? locTypeName(ca.locType) : "none-to-" + locTypeName(cb.locType);
      if (!dl.count(t))
      {
        dl.insert(t);
        snprintf(buf, sizeof buf, "column '%s' locator %s -> %s", ca.name.c_str(),
                 locName(ca.locType, ca.locIdx).c_str(), locName(cb.locType, cb.locIdx).c_str());
        d.push_back({"locators", t, buf});
      }
    }
    if (!dv && ca.v.size() == cb.v.size())
    {
      for (size_t k = 0; k < ca.v.size(); k++)
        if (!sameBits(ca.v[k], cb.v[k]))
        {
          dv = true;
          snprintf(buf, sizeof buf, "column '%s' sample %zu: %.17g -> %.17g", ca.name.c_str(), k, ca.v[k], cb.v[k]);
          d.push_back({"values", "", buf});
          break;
        }
    }
  }
  // role table: only reported when nothing above explains it (a dangling uid, a hole…)
  if (d.empty() && a.roles != b.roles)
  {
    for (size_t il = 0; il < a.roles.size() && il < b.roles.size(); il++)
      if (a.roles[il] != b.roles[il])
      {
        snprintf(buf, sizeof buf, "role table of locator %s changed (%zu -> %zu items)", locTypeName((int)il).c_str(),
                 a.roles[il].size(), b.roles[il].size());
        d.push_back({"role-table", locTypeName((int)il), buf});
        break;
      }
  }
  return d;
}


// ------------------------------------------------------------------------------------------------
// Full structured difference (every extra column, every locator change): what the harness classifies into
// root-cause classes. Same matching by UID as diff().
// ------------------------------------------------------------------------------------------------
struct LocChange
{
  std::string name;
  int fromType, fromIdx, toType, toIdx;
};
struct DiffFull
{
  std::string presence, nech, grid, order, names, values, roleTable, roleTableLoc; // first witness, "" = no difference
  bool ndimShrunk = false;
  std::vector<std::string> missing;
  std::vector<const ColSnap*> extra; // columns of `b` whose UID is not in `a`
  std::vector<LocChange> loc;        // pre-existing columns whose (type, rank) changed
  bool empty() const
  {
    return presence.empty() && nech.empty() && grid.empty() && order.empty() && names.empty() && values.empty() &&
           roleTable.empty() && missing.empty() && extra.empty() && loc.empty();
  }
};

inline DiffFull diffFull(const DbSnap& a, const DbSnap& b)
{
  DiffFull f;
  Diff d = diff(a, b);
  for (auto& it : d)
  {
    if (it.what == "db-presence") f.presence = it.detail;
    if (it.what == "nech") f.nech = it.detail;
    if (it.what == "grid") f.grid = it.detail;
    if (it.what == "column-order") f.order = it.detail;
    if (it.what == "names") f.names = it.detail;
    if (it.what == "values") f.values = it.detail;
    if (it.what == "role-table") { f.roleTable = it.detail; f.roleTableLoc = it.loc; }
  }
  if (!a.valid || !b.valid) return f;
  f.ndimShrunk = b.ndim < a.ndim;
  std::set<int> ua = a.uids();
  for (auto& c : b.cols)
    if (!ua.count(c.uid)) f.extra.push_back(&c);
  for (auto& ca : a.cols)
  {
    int j = b.colOfUid(ca.uid);
    if (j < 0) { f.missing.push_back(ca.name); continue; }
    const ColSnap& cb = b.cols[j];
    if (ca.locType != cb.locType || ca.locIdx != cb.locIdx)
      f.loc.push_back({ca.name, ca.locType, ca.locIdx, cb.locType, cb.locIdx});
  }
  return f;
}

inline int uidSlotsGrew(const DbSnap& a, const DbSnap& b) { return b.uidMax - a.uidMax; }

// internal consistency of ONE snapshot (a Db must stay a consistent table whatever happened): every role-table entry
// points to a live column, ranks are contiguous, names are unique. Returns "" when consistent.
inline std::string selfCheck(const DbSnap& s)
{
  if (!s.valid) return "";
  std::set<std::string> names;
  std::set<int> uids;
  for (auto& c : s.cols)
  {
    if (!names.insert(c.name).second) return "duplicate name '" + c.name + "'";
    if (c.uid < 0) return "column '" + c.name + "' has no UID";
    if (!uids.insert(c.uid).second) return "UID shared by two columns";
    if ((int)c.v.size() != s.nech) return "column length != sample count";
  }
  for (size_t il = 0; il < s.roles.size(); il++)
    for (size_t k = 0; k < s.roles[il].size(); k++)
      if (!uids.count(s.roles[il][k]))
        return "locator " + locName((int)il, (int)k) + " points to uid " + std::to_string(s.roles[il][k]) +
               " which is not a live column";
  return "";
}

// 64-bit FNV-1a digest of the OBSERVABLE content of a set of columns (name, locator, values), used to compare the
// result of a call made after a reported failure with the result of the same call in a fresh state. UIDs are left
// out on purpose (dead UID slots shift them).
struct Hasher
{
  uint64_t h = 1469598103934665603ULL;
  void bytes(const void* p, size_t n)
  {
    const unsigned char* c = (const unsigned char*)p;
    for (size_t i = 0; i < n; i++) h = (h ^ c[i]) * 1099511628211ULL;
  }
  void str(const std::string& s)
  {
    bytes(s.data(), s.size());
    unsigned char z = 0;
    bytes(&z, 1);
  }
  void i32(int v) { bytes(&v, sizeof v); }
  void f64(double v) { bytes(&v, sizeof v); }
};

// the columns of `after` that did not exist in `before` (by UID), in column order
inline std::vector<const ColSnap*> newColumns(const DbSnap& before, const DbSnap& after)
{
  std::vector<const ColSnap*> r;
  std::set<int> ua = before.uids();
  for (auto& c : after.cols)
    if (!ua.count(c.uid)) r.push_back(&c);
  return r;
}

inline uint64_t digestColumns(const std::vector<const ColSnap*>& cols)
{
  Hasher h;
  h.i32((int)cols.size());
  for (auto* c : cols)
  {
    h.str(c->name);
    h.i32(c->locType);
    h.i32(c->locIdx);
    h.i32((int)c->v.size());
    for (double v : c->v) h.f64(v);
  }
  return h.h;
}

inline uint64_t digestAll(const DbSnap& s)
{
  Hasher h;
  h.i32(s.nech);
  h.i32(s.ncol);
  for (auto& c : s.cols)
  {
    h.str(c.name);
    h.i32(c.locType);
    h.i32(c.locIdx);
    h.i32(c.uid);
    for (double v : c.v) h.f64(v);
  }
  return h.h;
}
} // namespace c19
