// Common harness runtime: PRNG, event log, case runner.
//
// Protocol (one JSON object per line in <logfile>):
//   {"t":"B","case":i,"sig":"..."}                       before the library is touched for case i
//   {"t":"F","case":i,"o":oracle,"key":key,"err":e,"tol":t,"d":detail}   one failed oracle evaluation
//   {"t":"E","case":i,"sig":..,"or":{oracle:{"n":..,"max":..,"maxr":..}},"skip":{reason:n},"nt":0|1,"sample":{..}}
//   {"t":"P","probes":{id:n}}                            at normal exit (reach probes, library + harness)
// A "B" without "E" means the process died inside that case (sanitizer report, assertion, signal).
#pragma once
#include <cmath>
#include <cstdarg>
#include <cstdint>
#include <cstdio>
#include <cstdlib>
#include <cstring>
#include <functional>
#include <map>
#include <sstream>
#include <string>
#include <vector>
#include <algorithm>
#include <exception>
#include <unistd.h>

#include "Basic/VerifHooks.hpp"

namespace vh
{
// ---------------------------------------------------------------------------------------------
// PRNG: SplitMix64 seeding xoshiro256**. The library's own generator is never used to build cases.
// ---------------------------------------------------------------------------------------------
inline uint64_t splitmix(uint64_t& x)
{
  uint64_t z = (x += 0x9e3779b97f4a7c15ULL);
  z          = (z ^ (z >> 30)) * 0xbf58476d1ce4e5b9ULL;
  z          = (z ^ (z >> 27)) * 0x94d049bb133111ebULL;
  return z ^ (z >> 31);
}
inline uint64_t hashstr(const char* s)
{
  uint64_t h = 1469598103934665603ULL;
  for (; *s; ++s) h = (h ^ (unsigned char)*s) * 1099511628211ULL;
  return h;
}
struct Rng
{
  uint64_t s[4];
  Rng(uint64_t seed = 1) { reseed(seed); }
  Rng(uint64_t seed, const char* stream, uint64_t idx)
  {
    uint64_t x = seed * 0x9e3779b97f4a7c15ULL ^ hashstr(stream);
    uint64_t a = splitmix(x);
    x ^= idx * 0xd1342543de82ef95ULL + 0x632be59bd9b4e019ULL;
    reseed(a ^ splitmix(x));
  }
  void reseed(uint64_t seed)
  {
    uint64_t x = seed;
    for (auto& v : s) v = splitmix(x);
  }
  static uint64_t rotl(uint64_t x, int k) { return (x << k) | (x >> (64 - k)); }
  uint64_t next()
  {
    uint64_t r = rotl(s[1] * 5, 7) * 9, t = s[1] << 17;
    s[2] ^= s[0]; s[3] ^= s[1]; s[1] ^= s[2]; s[0] ^= s[3]; s[2] ^= t; s[3] = rotl(s[3], 45);
    return r;
  }
  double u01() { return (double)(next() >> 11) * (1.0 / 9007199254740992.0); }
  double uni(double a, double b) { return a + (b - a) * u01(); }
  // integer in [a, b]
  int irange(int a, int b) { return a + (int)(next() % (uint64_t)(b - a + 1)); }
  bool coin(double p = 0.5) { return u01() < p; }
  double normal()
  {
    double u = u01(), v = u01();
    if (u < 1e-300) u = 1e-300;
    return std::sqrt(-2.0 * std::log(u)) * std::cos(6.283185307179586 * v);
  }
  double loguni(double a, double b) { return std::exp(uni(std::log(a), std::log(b))); }
  template<typename T> const T& pick(const std::vector<T>& v) { return v[next() % v.size()]; }
  template<typename T> void shuffle(std::vector<T>& v)
  {
    for (size_t i = v.size(); i > 1; --i) std::swap(v[i - 1], v[next() % i]);
  }
  std::vector<int> perm(int n)
  {
    std::vector<int> p(n);
    for (int i = 0; i < n; i++) p[i] = i;
    shuffle(p);
    return p;
  }
};

// ---------------------------------------------------------------------------------------------
// JSON helpers
// ---------------------------------------------------------------------------------------------
inline std::string jstr(const std::string& s)
{
  std::string o = "\"";
  for (unsigned char c : s)
  {
    if (c == '"' || c == '\\') { o += '\\'; o += (char)c; }
    else if (c == '\n') o += "\\n";
    else if (c < 0x20 || c >= 0x7f) { char b[8]; snprintf(b, 8, "\\u%04x", c); o += b; }
    else o += (char)c;
  }
  return o + "\"";
}
inline std::string jnum(double v)
{
  if (std::isnan(v)) return "\"nan\"";
  if (std::isinf(v)) return v > 0 ? "\"inf\"" : "\"-inf\"";
  char b[40];
  snprintf(b, 40, "%.17g", v);
  return b;
}
template<typename T> inline std::string jvec(const std::vector<T>& v, size_t maxn = 64)
{
  std::string o = "[";
  for (size_t i = 0; i < v.size() && i < maxn; i++)
  {
    if (i) o += ",";
    o += jnum((double)v[i]);
  }
  if (v.size() > maxn) o += ",\"...\"";
  return o + "]";
}

struct SkipCase
{
  std::string reason;
};

// ---------------------------------------------------------------------------------------------
// Per-case context: collects oracle evaluations
// ---------------------------------------------------------------------------------------------
struct OracleStat
{
  long n = 0;
  double maxErr = 0, maxRatio = 0;
};

struct Ctx
{
  FILE* log        = nullptr;
  long icase       = 0;
  uint64_t seed    = 0;
  std::string tier = "quick";
  bool verbose     = false;
  std::string sig;
  std::map<std::string, OracleStat> stats;
  std::map<std::string, long> skips;
  std::map<std::string, std::string> sample; // key -> raw JSON value
  bool nontrivial = false;
  long nfail      = 0;
  std::map<std::string, long>* harnessProbes = nullptr;

  bool thorough() const { return tier == "thorough"; }

  void setSig(const std::string& s) { sig = s; }
  void probe(const std::string& id) { (*harnessProbes)[id]++; }
  void put(const std::string& k, const std::string& rawjson) { sample[k] = rawjson; }
  void puts(const std::string& k, const std::string& s) { sample[k] = jstr(s); }
  void putn(const std::string& k, double v) { sample[k] = jnum(v); }

  // generic oracle evaluation: ok decided by caller
  bool check(const std::string& oracle, const std::string& key, bool ok, double err, double tol,
             const std::string& detail = "")
  {
    OracleStat& st = stats[oracle];
    st.n++;
    if (std::isfinite(err))
    {
      st.maxErr = std::max(st.maxErr, err);
      if (tol > 0) st.maxRatio = std::max(st.maxRatio, err / tol);
    }
    nontrivial = true;
    if (!ok)
    {
      nfail++;
      if (nfail <= 20)
      {
        fprintf(log, "{\"t\":\"F\",\"case\":%ld,\"o\":%s,\"key\":%s,\"err\":%s,\"tol\":%s,\"d\":%s}\n", icase,
                jstr(oracle).c_str(), jstr(key).c_str(), jnum(err).c_str(), jnum(tol).c_str(),
                jstr(detail).c_str());
        fflush(log);
      }
      if (verbose)
        fprintf(stderr, "FAIL %s key=%s err=%g tol=%g %s\n", oracle.c_str(), key.c_str(), err, tol, detail.c_str());
    }
    else if (verbose)
      fprintf(stderr, "ok   %s err=%g tol=%g\n", oracle.c_str(), err, tol);
    return ok;
  }
  // |a-b| <= tol, NaN-aware (both NaN => ok)
  bool close(const std::string& oracle, const std::string& key, double a, double b, double tol,
             const std::string& detail = "")
  {
    double err;
    bool ok;
    if (std::isnan(a) || std::isnan(b)) { ok = std::isnan(a) && std::isnan(b); err = ok ? 0 : INFINITY; }
    else if (std::isinf(a) || std::isinf(b)) { ok = (a == b); err = ok ? 0 : INFINITY; }
    else { err = std::fabs(a - b); ok = err <= tol; }
    char buf[160];
    if (!ok) snprintf(buf, sizeof buf, " got=%.17g want=%.17g", a, b);
    return check(oracle, key, ok, err, tol, ok ? detail : detail + buf);
  }
  bool truth(const std::string& oracle, const std::string& key, bool ok, const std::string& detail = "")
  {
    return check(oracle, key, ok, ok ? 0.0 : 1.0, 0.0, detail);
  }
  void skip(const std::string& reason) { skips[reason]++; }
};

using CaseFn = std::function<void(Rng&, Ctx&)>;

inline void flushProbes(FILE* log, std::map<std::string, long>& hp)
{
  std::string o = "{\"t\":\"P\",\"probes\":{";
  bool first    = true;
#ifdef GSTLEARN_VERIF
  {
    auto& reg = ::gstlearn_verif::Registry::get();
    std::lock_guard<std::mutex> lock(reg.mtx);
    for (auto& kv : reg.probes)
    {
      if (!first) o += ",";
      first = false;
      o += jstr(kv.first) + ":" + std::to_string(kv.second.load());
    }
  }
#endif
  for (auto& kv : hp)
  {
    if (!first) o += ",";
    first = false;
    o += jstr("h." + kv.first) + ":" + std::to_string(kv.second);
  }
  o += "}}\n";
  fputs(o.c_str(), log);
  fflush(log);
}

// main: <exe> <seed> <first> <n> <logfile> <tier> [-v]
inline int run_main(int argc, char** argv, const char* stream, const CaseFn& fn)
{
  if (argc < 6)
  {
    fprintf(stderr, "usage: %s <seed> <first-case> <n-cases> <logfile> <quick|thorough> [-v]\n", argv[0]);
    return 2;
  }
  uint64_t seed = strtoull(argv[1], nullptr, 10);
  long first    = atol(argv[2]);
  long n        = atol(argv[3]);
  FILE* log     = fopen(argv[4], "a");
  if (!log) { perror("logfile"); return 2; }
  std::map<std::string, long> hprobes;
  Ctx proto;
  proto.log           = log;
  proto.seed          = seed;
  proto.tier          = argv[5];
  proto.verbose       = argc > 6 && !strcmp(argv[6], "-v");
  proto.harnessProbes = &hprobes;
  for (long i = first; i < first + n; i++)
  {
    Ctx c   = proto;
    c.icase = i;
    Rng rng(seed, stream, (uint64_t)i);
    fprintf(log, "{\"t\":\"B\",\"case\":%ld}\n", i);
    fflush(log);
    try
    {
      fn(rng, c);
    }
    catch (const SkipCase& s)
    {
      c.skip("case:" + s.reason);
    }
    catch (const std::bad_alloc&)
    {
      c.check("no-exception", "exception:bad_alloc", false, 1, 0, "std::bad_alloc escaped a library call");
    }
    catch (const std::exception& e)
    {
      std::string w = e.what();
      c.check("no-exception", "exception:" + w.substr(0, 60), false, 1, 0, w);
    }
    std::string o = "{\"t\":\"E\",\"case\":" + std::to_string(i) + ",\"sig\":" + jstr(c.sig) + ",\"nt\":" +
                    (c.nontrivial ? "1" : "0") + ",\"nfail\":" + std::to_string(c.nfail) + ",\"or\":{";
    bool f1 = true;
    for (auto& kv : c.stats)
    {
      if (!f1) o += ",";
      f1 = false;
      o += jstr(kv.first) + ":{\"n\":" + std::to_string(kv.second.n) + ",\"max\":" + jnum(kv.second.maxErr) +
           ",\"maxr\":" + jnum(kv.second.maxRatio) + "}";
    }
    o += "},\"skip\":{";
    f1 = true;
    for (auto& kv : c.skips)
    {
      if (!f1) o += ",";
      f1 = false;
      o += jstr(kv.first) + ":" + std::to_string(kv.second);
    }
    o += "},\"sample\":{";
    f1 = true;
    for (auto& kv : c.sample)
    {
      if (!f1) o += ",";
      f1 = false;
      o += jstr(kv.first) + ":" + kv.second;
    }
    o += "}}\n";
    fputs(o.c_str(), log);
    fflush(log);
  }
  flushProbes(log, hprobes);
  fclose(log);
  return 0;
}

inline std::string fmt(const char* f, ...) __attribute__((format(printf, 1, 2)));
inline std::string fmt(const char* f, ...)
{
  char buf[1024];
  va_list ap;
  va_start(ap, f);
  vsnprintf(buf, sizeof buf, f, ap);
  va_end(ap);
  return buf;
}
} // namespace vh
