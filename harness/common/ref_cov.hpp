// Reference covariance structures for C03: published closed forms in long double, anisotropic distance by explicit
// rotation matrices. No gstlearn kernel is called from here (only the C++ standard library).
//
// Structures are identified by their ECov key ("EXPONENTIAL", "SPHERICAL", ...), so this header does not depend on
// any gstlearn header.
//
// Conventions (all quoted from the library's documentation, never guessed):
//  * A basic structure is C(x,y) = sill * f(h) with h the *normalised* anisotropic distance
//        h = || diag(1/scale_k) R^T (y - x) ||,   scale_k = range_k / scadef
//    ("Practical range": CovAniso::setRanges divides by getScadef(); include/Covariances/CovAniso.hpp
//    "/// Practical range   void setRangeIsotropic(double range); void setRange(int idim,...)").
//  * Rotation, 2-D: tests/cpp/test_basic.cpp: "ranges = {50, 30}; angles = {30, 0}: The orientation of the long range
//    is in direction 30 degrees counted counter-clockwise from East", i.e. the first anisotropy axis is
//    (cos a, sin a) and carries ranges[0].
//  * Rotation, 3-D: src/Geometry/GeometryHelper.cpp rotation3DMatrixInPlace: "alpha angle (in degrees) / oz,
//    beta angle (in degrees) / oy', gamma angle (in degrees) / ox''": successive rotations about z, then the new y,
//    then the new x, i.e. R = Rz(alpha) Ry(beta) Rx(gamma) with right-handed elementary rotations (which is the sense
//    that reduces to the documented 2-D convention when beta = gamma = 0). The k-th rotated axis is R e_k.
#pragma once
#include <cmath>
#include <string>
#include <vector>
#include <limits>

namespace refcov
{
typedef long double LD;
static const LD PI_L = 3.14159265358979323846264338327950288L;

// ---------------------------------------------------------------------------------------------------
// Rotation / anisotropic distance
// ---------------------------------------------------------------------------------------------------
struct Rot
{
  int nd = 1;
  LD m[3][3]; // m[i][k] = i-th component of the k-th rotated axis (columns = rotated axes)
  Rot()
  {
    for (int i = 0; i < 3; i++)
      for (int j = 0; j < 3; j++) m[i][j] = (i == j);
  }
};
inline void mul3(const LD a[3][3], const LD b[3][3], LD c[3][3])
{
  LD t[3][3];
  for (int i = 0; i < 3; i++)
    for (int j = 0; j < 3; j++)
    {
      t[i][j] = 0;
      for (int k = 0; k < 3; k++) t[i][j] += a[i][k] * b[k][j];
    }
  for (int i = 0; i < 3; i++)
    for (int j = 0; j < 3; j++) c[i][j] = t[i][j];
}
// angles in degrees; 1-D: identity; 2-D: angles[0]; 3-D: angles[0..2]
inline Rot rotation(int ndim, const std::vector<double>& angdeg)
{
  Rot r;
  r.nd = ndim;
  auto rad = [&](int i) -> LD { return i < (int)angdeg.size() ? (LD)angdeg[i] * PI_L / 180.0L : 0.0L; };
  if (ndim == 2)
  {
    LD a = rad(0), c = std::cos(a), s = std::sin(a);
    r.m[0][0] = c; r.m[0][1] = -s;
    r.m[1][0] = s; r.m[1][1] = c;
  }
  else if (ndim == 3)
  {
    LD a = rad(0), b = rad(1), g = rad(2);
    LD Rz[3][3] = {{std::cos(a), -std::sin(a), 0}, {std::sin(a), std::cos(a), 0}, {0, 0, 1}};
    LD Ry[3][3] = {{std::cos(b), 0, std::sin(b)}, {0, 1, 0}, {-std::sin(b), 0, std::cos(b)}};
    LD Rx[3][3] = {{1, 0, 0}, {0, std::cos(g), -std::sin(g)}, {0, std::sin(g), std::cos(g)}};
    LD t[3][3];
    mul3(Rz, Ry, t);
    mul3(t, Rx, r.m);
  }
  return r;
}
// k-th rotated axis (unit vector)
inline std::vector<LD> axis(const Rot& r, int k)
{
  std::vector<LD> v(r.nd);
  for (int i = 0; i < r.nd; i++) v[i] = r.m[i][k];
  return v;
}
// normalised anisotropic distance of the increment d (size ndim) for scales s_k along the rotated axes
inline LD anisoDist(const Rot& r, const LD* d, const std::vector<LD>& scale)
{
  LD s2 = 0;
  for (int k = 0; k < r.nd; k++)
  {
    LD u = 0;
    for (int i = 0; i < r.nd; i++) u += r.m[i][k] * d[i];
    u /= scale[k];
    s2 += u * u;
  }
  return std::sqrt(s2);
}

// ---------------------------------------------------------------------------------------------------
// Published facts per structure
// ---------------------------------------------------------------------------------------------------
enum Family
{
  F_NONE = 0,   // no published closed form known to us: structural checks only
  F_STATIONARY, // f(h) with f(0) = 1
  F_INTRINSIC   // generalised covariance K(h), defined up to an even polynomial of degree <= 2k
};

inline Family family(const std::string& k)
{
  if (k == "NUGGET" || k == "EXPONENTIAL" || k == "SPHERICAL" || k == "GAUSSIAN" || k == "CUBIC" || k == "SINCARD" ||
      k == "BESSELJ" || k == "MATERN" || k == "GAMMA" || k == "CAUCHY" || k == "STABLE" || k == "TRIANGLE" ||
      k == "COSINUS" || k == "WENDLAND0" || k == "WENDLAND1" || k == "WENDLAND2")
    return F_STATIONARY;
  if (k == "LINEAR" || k == "POWER" || k == "ORDER1_GC" || k == "ORDER3_GC" || k == "ORDER5_GC" || k == "SPLINE_GC")
    return F_INTRINSIC;
  return F_NONE; // COSEXP, REG1D, PENTA, SPLINE2_GC, STORKEY, sphere-only structures
}

// Order k of the intrinsic random functions for which the published generalised covariance is authorised
// (Matheron 1973; Chiles & Delfiner 2012, section 4.5): -|h|^a (0<a<2) : k=0 ; |h|^3, |h|^2 log|h| : k=1 ; -|h|^5 : k=2.
inline int publishedOrder(const std::string& k)
{
  if (k == "LINEAR" || k == "POWER" || k == "ORDER1_GC") return 0;
  if (k == "ORDER3_GC" || k == "SPLINE_GC") return 1;
  if (k == "ORDER5_GC") return 2;
  return -1;
}

// Structures published as compactly supported (they vanish beyond their range). For these the library's scale factor
// is 1 (range == support), except REG1D (getScadef() = 2 converts its support [0,2] to the range).
inline bool compactSupport(const std::string& k)
{
  return k == "SPHERICAL" || k == "CUBIC" || k == "TRIANGLE" || k == "WENDLAND0" || k == "WENDLAND1" ||
         k == "WENDLAND2" || k == "STORKEY" || k == "REG1D" || k == "PENTA";
}

// Sphere-only structures (not covariances on R^n)
inline bool sphereOnly(const std::string& k)
{
  return k == "GEOMETRIC" || k == "POISSON" || k == "LINEARSPH" || k == "MARKOV";
}

// Fraction of the sill reached at the practical range, for structures whose practical range is published as the
// distance at which the covariance falls to 5 % of the sill (exponential: 3a [ln 20 a], Gaussian: sqrt(3) a
// [sqrt(ln 20) a], and the library's own factors for Gamma "20^(1/alpha) - 1", Cauchy "sqrt(20^(1/alpha) - 1)")
// or to exp(-3) (stable: "3^(1/alpha)"). Returns NaN where no such statement exists.
inline LD fractionAtRange(const std::string& k, LD param)
{
  if (k == "EXPONENTIAL" || k == "GAUSSIAN" || k == "CAUCHY") return 0.05L;
  if (k == "GAMMA") return param >= 0.05L ? 0.05L : std::numeric_limits<LD>::quiet_NaN(); // doc: factor frozen below 0.05
  if (k == "STABLE") return std::exp(-3.0L);
  if (compactSupport(k)) return 0.0L;
  return std::numeric_limits<LD>::quiet_NaN();
}

// f(h) for stationary structures, h >= 0 normalised distance. 'ok' is cleared when the reference itself cannot be
// evaluated reliably (overflow in the Bessel functions); the caller then skips the comparison.
inline LD corr(const std::string& k, LD h, LD p, bool& ok)
{
  ok = true;
  if (k == "NUGGET") return h == 0 ? 1.0L : 0.0L;
  if (k == "EXPONENTIAL") return std::exp(-h);
  if (k == "SPHERICAL") return h < 1 ? 1 - 1.5L * h + 0.5L * h * h * h : 0.0L;
  if (k == "GAUSSIAN") return std::exp(-h * h);
  if (k == "CUBIC")
  {
    if (h >= 1) return 0;
    LD h2 = h * h, h3 = h2 * h, h5 = h3 * h2, h7 = h5 * h2;
    return 1 - 7 * h2 + 8.75L * h3 - 3.5L * h5 + 0.75L * h7;
  }
  if (k == "SINCARD") return h < 1e-6L ? 1 - h * h / 6 : std::sin(h) / h;
  if (k == "BESSELJ")
  {
    // 2^nu Gamma(nu+1) J_nu(h) / h^nu
    if (h < 1e-4L) return 1 - h * h / (4 * (p + 1));
    LD v = std::exp(p * std::log(2.0L / h) + std::lgamma(p + 1)) * std::cyl_bessel_j(p, h);
    if (!std::isfinite(v)) ok = false;
    return v;
  }
  if (k == "MATERN")
  {
    // 2^(1-nu)/Gamma(nu) h^nu K_nu(h)
    if (h == 0) return 1;
    LD kv = 0;
    try
    {
      kv = std::cyl_bessel_k(p, h);
    }
    catch (...)
    {
      ok = false;
      return 0;
    }
    if (!std::isfinite(kv) || kv == 0) { ok = false; return 0; }
    LD v = std::exp(std::log(2.0L) * (1 - p) - std::lgamma(p) + p * std::log(h) + std::log(kv));
    if (!std::isfinite(v)) ok = false;
    return v;
  }
  if (k == "GAMMA") return std::pow(1 + h, -p);
  if (k == "CAUCHY") return std::pow(1 + h * h, -p);
  if (k == "STABLE") return h == 0 ? 1.0L : std::exp(-std::pow(h, p));
  if (k == "TRIANGLE") return h < 1 ? 1 - h : 0.0L;
  if (k == "COSINUS") return std::cos(2 * PI_L * h);
  // Wendland functions phi_{3,k} (Wendland 1995), normalised to 1 at the origin
  if (k == "WENDLAND0") return h < 1 ? (1 - h) * (1 - h) : 0.0L;
  if (k == "WENDLAND1") return h < 1 ? std::pow(1 - h, 4) * (4 * h + 1) : 0.0L;
  if (k == "WENDLAND2") return h < 1 ? std::pow(1 - h, 6) * (35 * h * h + 18 * h + 3) / 3 : 0.0L;
  ok = false;
  return 0;
}

// K(h) for intrinsic structures (sign convention: K is conditionally positive definite of its order)
inline LD gcov(const std::string& k, LD h, LD p)
{
  if (k == "LINEAR" || k == "ORDER1_GC") return -h;
  if (k == "POWER") return h == 0 ? 0.0L : -std::pow(h, p);
  if (k == "ORDER3_GC") return h * h * h;
  if (k == "ORDER5_GC") return -h * h * h * h * h;
  if (k == "SPLINE_GC") return h == 0 ? 0.0L : h * h * std::log(h);
  return 0;
}
} // namespace refcov
