// C08/C09 — registry of the serialisable classes of gstlearn.
//
// One Entry per class written to / read from a neutral file:
//   make(Rng&, thorough, sig)  -> a generated instance (type-erased shared_ptr<void>), appends its discrete choices to sig
//   save(obj, path)            -> obj->dumpToNF(path)
//   load(path)                 -> T::createFromNF(path, false)       (null on failure)
//   ser(obj, os) / deser(is)   -> public ASerializable::serialize / deserialize on a default-constructed T
//   compare(a, b, Cmp&)        -> differences between two instances seen through PUBLIC getters ("getters" section)
//                                 and behavioural queries ("behaviour" section); each difference carries a stable field id
//   exercise(obj, Cmp&)        -> (C09) basic queries on an object returned by a loader + its consistency rules
//
// equivalent(entry, a, b) -> "" | "<field>: <reason>" is the thin wrapper asked for by the assignment.
//
// Numerical agreement = the 15 significant digits of the format (ASerializable::_recordWrite sets precision(15)):
// |a-b| <= 1e-14 * max(|a|,|b|) (+ one denormal ulp); TEST (1.234e30, written "NA") must stay exactly TEST.
#pragma once
#include "common/vh.hpp"

#include "Basic/ASerializable.hpp"
#include "Basic/VectorNumT.hpp"
#include "Basic/Utilities.hpp"
#include "Space/ASpaceObject.hpp"
#include "Space/SpacePoint.hpp"
#include "Space/SpaceRN.hpp"
#include "Enum/ELoc.hpp"
#include "Enum/ESpaceType.hpp"
#include "Db/Db.hpp"
#include "Db/DbGrid.hpp"

#include <concepts>
#include <fstream>
#include <functional>
#include <memory>
#include <sstream>
#include <string>
#include <vector>

namespace c08
{
using vh::Rng;
using vh::fmt;

// ------------------------------------------------------------------------------------------------------------
// Comparison collector
// ------------------------------------------------------------------------------------------------------------
struct Diff
{
  std::string owner;   // class whose reader/writer owns the field ("" = the class of the registry entry)
  std::string section; // "getters" | "behaviour" | "invariant"
  std::string field;   // stable id, goes into the violation key
  std::string what;    // human detail (first difference of that field)
  double err = 0;      // relative error (numbers) or 1
};

struct Cmp
{
  std::string section = "getters";
  std::vector<Diff> diffs;
  // per (section, field): number of elementary comparisons, max relative error among the *passing* ones
  struct Stat { long n = 0; double maxRel = 0; };
  std::map<std::string, Stat> stats; // key = owner + "|" + section + "|" + field
  // fields read/written by a base class (Db table, ANeigh, AnamDiscrete...) are keyed by that class, so that one defect
  // in a shared reader gives one key whatever the derived class being exercised
  std::string owner;
  struct Owner
  {
    Cmp& c;
    std::string prev;
    Owner(Cmp& cc, const std::string& o) : c(cc), prev(cc.owner) { c.owner = o; }
    ~Owner() { c.owner = prev; }
  };
  static constexpr double RELTOL = 1e-14;

  bool skipBehaviour = false; // set by the caller when both objects are already known to be damaged reloads
  long behaviourSkipped = 0;
  // returns false when the section is not to be evaluated: comparators write  if (!c.setSection("behaviour")) return;
  bool setSection(const std::string& s)
  {
    section = s;
    if (s == "behaviour" && skipBehaviour) { behaviourSkipped++; return false; }
    return true;
  }
  // true when one of the named getter fields (prefix match) was already found different: the dependent behavioural
  // queries are then consequences of a reported difference, not independent evidence
  bool differs(std::initializer_list<const char*> fields) const
  {
    for (auto& d : diffs)
      for (const char* f : fields)
        if (d.field.compare(0, strlen(f), f) == 0) return true;
    return false;
  }
  Stat& st(const std::string& field) { return stats[owner + "|" + section + "|" + field]; }
  void fail(const std::string& field, const std::string& what, double err = 1.)
  {
    for (auto& d : diffs)
      if (d.owner == owner && d.section == section && d.field == field) { d.err = std::max(d.err, err); return; }
    diffs.push_back({owner, section, field, what, err});
  }
  // relative error in units of RELTOL (<= 1 passes)
  static double relErr(double a, double b)
  {
    double m = std::max(std::fabs(a), std::fabs(b));
    double d = std::fabs(a - b);
    if (d <= 4.95e-324) return 0.;
    if (m == 0) return 0.;
    return (d / m) / RELTOL;
  }
  void num(const std::string& field, double a, double b, const std::string& where = "")
  {
    Stat& s = st(field);
    s.n++;
    bool ta = (a == TEST), tb = (b == TEST);
    if (ta || tb)
    {
      if (ta != tb) fail(field, fmt("%s undefined-ness differs: %.17g vs %.17g", where.c_str(), a, b));
      return;
    }
    if (std::isnan(a) || std::isnan(b))
    {
      if (!(std::isnan(a) && std::isnan(b))) fail(field, fmt("%s NaN vs number: %.17g vs %.17g", where.c_str(), a, b));
      return;
    }
    if (std::isinf(a) || std::isinf(b))
    {
      if (a != b) fail(field, fmt("%s inf mismatch: %.17g vs %.17g", where.c_str(), a, b));
      return;
    }
    double r = relErr(a, b);
    if (r <= 1.) s.maxRel = std::max(s.maxRel, r);
    else fail(field, fmt("%s %.17g vs %.17g", where.c_str(), a, b), r);
  }
  // behavioural number: compared relative to a natural scale (sum of sills, extent...), same 15-digit budget times
  // 'amp' (error amplification of the query, documented at the call site)
  void numScaled(const std::string& field, double a, double b, double scale, double amp, const std::string& where = "")
  {
    Stat& s = st(field);
    s.n++;
    bool ta = (a == TEST), tb = (b == TEST);
    if (ta || tb)
    {
      if (ta != tb) fail(field, fmt("%s undefined-ness differs: %.17g vs %.17g", where.c_str(), a, b));
      return;
    }
    if (std::isnan(a) && std::isnan(b)) return;
    if (std::isinf(a) || std::isinf(b)) { if (!(a == b)) fail(field, fmt("%s %.17g vs %.17g", where.c_str(), a, b)); return; }
    double m = std::max(scale, std::max(std::fabs(a), std::fabs(b)));
    double d = std::fabs(a - b);
    double r = (m > 0) ? (d / m) / (RELTOL * amp) : 0.;
    if (std::isnan(r)) r = INFINITY;
    if (r <= 1.) s.maxRel = std::max(s.maxRel, r);
    else fail(field, fmt("%s %.17g vs %.17g (scale %g)", where.c_str(), a, b, m), r);
  }
  void integer(const std::string& field, long a, long b, const std::string& where = "")
  {
    st(field).n++;
    if (a != b) fail(field, fmt("%s %ld vs %ld", where.c_str(), a, b));
  }
  void boolean(const std::string& field, bool a, bool b, const std::string& where = "")
  {
    st(field).n++;
    if (a != b) fail(field, fmt("%s %d vs %d", where.c_str(), (int)a, (int)b));
  }
  void str(const std::string& field, const std::string& a, const std::string& b, const std::string& where = "")
  {
    st(field).n++;
    if (a != b) fail(field, fmt("%s '%s' vs '%s'", where.c_str(), a.substr(0, 60).c_str(), b.substr(0, 60).c_str()));
  }
  void truth(const std::string& field, bool ok, const std::string& what)
  {
    st(field).n++;
    if (!ok) fail(field, what);
  }
  template<typename V> void vec(const std::string& field, const V& a, const V& b)
  {
    integer(field + ".size", (long)a.size(), (long)b.size());
    size_t n = std::min(a.size(), b.size());
    for (size_t i = 0; i < n; i++) num(field, (double)a[i], (double)b[i], fmt("[%zu]", i));
  }
  template<typename V> void ivec(const std::string& field, const V& a, const V& b)
  {
    integer(field + ".size", (long)a.size(), (long)b.size());
    size_t n = std::min(a.size(), b.size());
    for (size_t i = 0; i < n; i++) integer(field, (long)a[i], (long)b[i], fmt("[%zu]", i));
  }
};

// ------------------------------------------------------------------------------------------------------------
// Registry entry
// ------------------------------------------------------------------------------------------------------------
using Obj = std::shared_ptr<void>;

struct Entry
{
  std::string name; // registry name (class, possibly with a variant suffix)
  std::string tag;  // class tag written on the first line of the neutral file
  std::function<Obj(Rng&, bool, std::string&)> make;
  std::function<bool(const void*, const std::string&)> save;
  std::function<Obj(const std::string&)> load;
  std::function<bool(const void*, std::ostream&)> ser;
  std::function<Obj(std::istream&, bool&)> deser;
  std::function<void(const void*, const void*, Cmp&)> compare;
  std::function<void(const void*, Cmp&)> exercise;
  std::function<Obj()> blank; // default-constructed instance (what the API gives before anything is set)
  std::function<const Db*(const void*)> asDb; // non-null for the Db family (C07 consistency rules apply)
  bool loaderIsEmulated = false; // no T::createFromNF: load = tag check + public deserialize(istream)
  std::function<int(const void*)> ndim; // space dimension the default space must have while handling the object
};

template<class T> Obj own(T* p) { return Obj(p, [](void* q) { delete static_cast<T*>(q); }); }

template<class T>
Entry mkEntry(const std::string& name,
              const std::string& tag,
              std::function<T*(Rng&, bool, std::string&)> make,
              std::function<void(const T&, const T&, Cmp&)> compare,
              std::function<void(const T&, Cmp&)> exercise,
              std::function<int(const T&)> ndim = nullptr,
              std::function<T*()> blank = nullptr)
{
  Entry e;
  e.name = name;
  e.tag  = tag;
  e.make = [make](Rng& r, bool th, std::string& sig) -> Obj {
    T* p = make(r, th, sig);
    return p ? own<T>(p) : Obj();
  };
  e.save = [](const void* o, const std::string& path) { return static_cast<const T*>(o)->dumpToNF(path, false); };
  if constexpr (requires { { T::createFromNF(std::string(), false) } -> std::convertible_to<T*>; })
  {
    e.load = [](const std::string& path) -> Obj {
      T* p = T::createFromNF(path, false);
      return p ? own<T>(p) : Obj();
    };
  }
  else
  {
    // the class offers no createFromNF: the only public reader is deserialize(istream); emulate the file opener
    // (class tag on the first line, checked), so that the files written by dumpToNF can be offered back
    e.loaderIsEmulated = true;
    e.load = [tag, blank](const std::string& path) -> Obj {
      std::ifstream is(ASerializable::buildFileName(1, path, false));
      if (!is.is_open()) return Obj();
      std::string line;
      std::getline(is, line);
      while (!line.empty() && (line.back() == '\r' || line.back() == ' ')) line.pop_back();
      if (line != tag) return Obj();
      T* p = nullptr;
      if (blank) p = blank();
      else if constexpr (std::is_default_constructible_v<T>) p = new T();
      if (p == nullptr) return Obj();
      if (!p->deserialize(is, false)) { delete p; return Obj(); }
      return own<T>(p);
    };
  }
  e.ser   = [](const void* o, std::ostream& os) { return static_cast<const T*>(o)->serialize(os, false); };
  e.deser = [blank](std::istream& is, bool& ok) -> Obj {
    T* p = nullptr;
    if (blank) p = blank();
    else if constexpr (std::is_default_constructible_v<T>) p = new T();
    if (p == nullptr) { ok = false; return Obj(); }
    ok = p->deserialize(is, false);
    return own<T>(p);
  };
  e.blank = [blank]() -> Obj {
    T* p = nullptr;
    if (blank) p = blank();
    else if constexpr (std::is_default_constructible_v<T>) p = new T();
    return p ? own<T>(p) : Obj();
  };
  if constexpr (std::is_base_of_v<Db, T>) e.asDb = [](const void* o) -> const Db* { return static_cast<const T*>(o); };
  e.compare  = [compare](const void* a, const void* b, Cmp& c) { compare(*static_cast<const T*>(a), *static_cast<const T*>(b), c); };
  e.exercise = [exercise](const void* a, Cmp& c) { if (exercise) exercise(*static_cast<const T*>(a), c); };
  e.ndim     = [ndim](const void* a) { return ndim ? ndim(*static_cast<const T*>(a)) : 0; };
  return e;
}

inline std::string equivalent(const Entry& e, const void* a, const void* b)
{
  Cmp c;
  e.compare(a, b, c);
  if (c.diffs.empty()) return "";
  return c.diffs[0].section + ":" + c.diffs[0].field + ": " + c.diffs[0].what;
}

inline std::string readFile(const std::string& path)
{
  std::ifstream f(path, std::ios::binary);
  std::stringstream ss;
  ss << f.rdbuf();
  return ss.str();
}
inline bool writeFile(const std::string& path, const std::string& content)
{
  std::ofstream f(path, std::ios::binary | std::ios::trunc);
  f.write(content.data(), (std::streamsize)content.size());
  return f.good();
}

// ------------------------------------------------------------------------------------------------------------
// Value generators shared by the class generators
// ------------------------------------------------------------------------------------------------------------
// A "difficult" double: what the property lists (undefined, extreme magnitudes, denormals, 17-digit numbers)
inline double hardValue(Rng& r, bool allowTest = true)
{
  switch (r.irange(0, 11))
  {
    case 0: return allowTest ? TEST : 0.;
    case 1: return (r.coin() ? 1. : -1.) * r.uni(1, 9.99) * 1e300;
    case 2: return (r.coin() ? 1. : -1.) * r.uni(1, 9.99) * 1e-300;
    case 3: return (r.coin() ? 1. : -1.) * 4.9406564584124654e-324 * (double)r.irange(1, 1000); // denormal
    case 4: return (r.coin() ? 1. : -1.) * 2.2250738585072014e-308 * r.u01();                 // denormal / min normal
    case 5: return 0.1 + 0.2;                                                                 // 0.30000000000000004
    case 6: return r.uni(-1, 1) * 1.2345678901234567;                                         // 17 significant digits
    case 7: return (double)r.irange(-1000000, 1000000);
    case 8: return 0.;
    case 9: return -0.;
    case 10: return r.uni(-1, 1) * std::pow(10., r.irange(-20, 20));
    default: return 1.7976931348623157e308 * (r.coin() ? 1 : -1); // DBL_MAX
  }
}
inline double anyValue(Rng& r, double pHard, bool allowTest = true)
{
  if (r.coin(pHard)) return hardValue(r, allowTest);
  return r.normal() * 10.;
}
inline std::string pickName(Rng& r, int i)
{
  static const char* stems[] = {"var", "Z", "x", "my_var", "Pb", "a.b", "col-", "v", "Kriging.estim", "T2", "x_", "éte"};
  std::string s = stems[r.irange(0, 11)];
  return s + std::to_string(i + 1);
}

inline void setSpace(int ndim)
{
  if (ndim >= 1 && (getDefaultSpaceDimension() != ndim || getDefaultSpaceType() != ESpaceType::RN))
    defineDefaultSpace(ESpaceType::RN, ndim);
}

} // namespace c08

#include "common/c08_classes.hpp"
