// C05 helpers: generation of a sample set with "dropped" samples (masked by the selection, all values undefined,
// coordinate undefined), the two Dbs derived from it (masked + poisoned / physically reduced), column comparison.
//
// The reduced Db is built by the harness itself from the kept rows with Db::createFromSamples; no library helper
// (createReduce, deleteSamples) is used for the reference.
#pragma once
#include "vh.hpp"

#include "Basic/AStringable.hpp"
#include "Basic/VectorNumT.hpp"
#include "Db/Db.hpp"
#include "Enum/ELoadBy.hpp"
#include "Enum/ELoc.hpp"
#include "geoslib_define.h"

#include <memory>
#include <cstring>

namespace c05
{
using namespace vh;

static const double POISON_VAL = 1e15; // finite, far from anything generated, not the library's TEST

// how samples are dropped in a case (exactly one mechanism, or the mixture) -> appears in violation keys
// (mixed = selection + undefined values; undefined coordinates are kept apart because the library handles them
//  poorly - see the report - and they would otherwise hide the interactions of the two main mechanisms)
//  by=selna: the selection value of the dropped samples is the undefined value instead of 0.  Documented in
//  Db::getSelection: "@remark If the selection value if TEST, the sample is considered as masked off."
enum By { BY_NONE = 0, BY_SEL, BY_UVAL, BY_UCOORD, BY_MIXED, BY_SELNA };

// Generator switches to steer away from input classes hit by known defects (default: off = everything generated).
// Developer override: environment variable C05_AVOID="ball,ucoord,selna,ufext,linear".
inline bool avoid(const char* what, bool dflt)
{
  const char* e = getenv("C05_AVOID");
  if (e && strstr(e, what)) return true;
  return dflt;
}
static const bool AVOID_UCOORD = false; // do not generate samples with an undefined coordinate
static const bool AVOID_BALL   = false; // do not generate moving neighbourhoods with the ball-tree search
static const bool AVOID_SELNA  = false; // do not generate selections whose "off" value is the undefined value
static const bool AVOID_UFEXT  = false; // do not generate samples whose external drift is undefined
static const bool AVOID_LINEAR = false; // do not generate intrinsic (linear variogram) models
static const char* BYN[] = {"none", "sel", "uval", "ucoord", "mixed", "selna"};
// selection shapes
enum SelMode { SEL_NONE = 0, SEL_RANDOM, SEL_ALMOST_EMPTY, SEL_EMPTY, SEL_FULL };
static const char* SELN[] = {"nosel", "random", "almost-empty", "empty", "full"};

enum Cls { KEEP = 0, MASKED = 1, ALLUNDEF = 2, COORDUNDEF = 4, FEXTUNDEF = 8 };

struct Samples
{
  int ndim = 2, nvar = 1, n = 0;
  double field = 100.;                // coordinates are drawn in [0, field]^ndim
  std::vector<std::vector<double>> x; // [ndim][n] clean coordinates
  std::vector<std::vector<double>> z; // [nvar][n] clean values; TEST = cell undefined in the kept data (heterotopy)
  std::vector<double> w;              // optional weights (ELoc::W), empty = none
  std::vector<double> f;              // optional external drift (ELoc::F), empty = none; undefined where cls has FEXTUNDEF
  bool ufext = false;                 // some samples dropped because their external drift is undefined
  std::vector<int> cls;               // per sample: OR of Cls
  std::vector<int> kept;              // ranks with cls == KEEP, increasing
  By by           = BY_NONE;
  SelMode selMode = SEL_NONE;
  bool hetero     = false;
  bool poisonCoord = true;            // dropped samples get far-away coordinates in the masked Db
  bool undefKeepCoord = false;
  bool hasSelColumn() const { return selMode != SEL_NONE; }
  int nkept() const { return (int)kept.size(); }
  std::string tag() const { return std::string("by=") + BYN[by] + (ufext ? "+ufext" : ""); }
  void rebuildKept()
  {
    kept.clear();
    for (int i = 0; i < n; i++)
      if (cls[i] == KEEP) kept.push_back(i);
  }
  std::string sigtag() const
  {
    return fmt("by=%s:sel=%s:het=%d:pc=%d", BYN[by], SELN[selMode], (int)hetero, (int)poisonCoord);
  }
};

// minimum separation between points so that no two locations coincide and distance ties are not an issue
inline void drawPoints(Rng& r, int ndim, int n, double field, std::vector<std::vector<double>>& x, double minsep)
{
  x.assign(ndim, std::vector<double>(n));
  for (int i = 0; i < n; i++)
  {
    for (int att = 0; att < 200; att++)
    {
      for (int d = 0; d < ndim; d++) x[d][i] = r.uni(0, field);
      bool ok = true;
      for (int j = 0; j < i && ok; j++)
      {
        double d2 = 0;
        for (int d = 0; d < ndim; d++) d2 += (x[d][i] - x[d][j]) * (x[d][i] - x[d][j]);
        ok = d2 > minsep * minsep;
      }
      if (ok) break;
    }
  }
}

struct GenOpt
{
  int nmin = 8, nmax = 40;
  int ndimMin = 1, ndimMax = 3;
  int nvarMax = 2;
  bool allowUcoord = true;  // operations with no spatial meaning do not get undefined coordinates
  bool allowEmpty  = true;
  bool allowSelNA  = true;
  double pUcoord   = 0.10;  // share of the cases whose drop mechanism is "undefined coordinate"
  int minKept      = 0;     // (when not empty) lower bound on the number of kept samples
  bool positive    = false; // strictly positive values
  double pWeight   = 0.;    // probability of a weight column (ELoc::W)
  bool undefKeepCoord = false; // samples whose values are all undefined keep their clean coordinates (they are
                               // legitimate *targets* of xvalid-like operations)
};

inline Samples genSamples(Rng& r, const GenOpt& o)
{
  Samples s;
  s.ndim  = r.irange(o.ndimMin, o.ndimMax);
  s.nvar  = r.irange(1, o.nvarMax);
  s.n     = r.irange(o.nmin, o.nmax);
  s.field = 100.;
  drawPoints(r, s.ndim, s.n, s.field, s.x, s.ndim == 1 ? 0.05 : 0.5);
  // values: linear trend + smooth bump + noise, distinct per variable
  s.z.assign(s.nvar, std::vector<double>(s.n));
  for (int v = 0; v < s.nvar; v++)
  {
    double a = r.uni(-0.05, 0.05), b = r.uni(5, 15), m = r.uni(-3, 3) + (o.positive ? 20 : 0);
    for (int i = 0; i < s.n; i++)
    {
      double t = m + a * s.x[0][i] + 2.0 * std::sin(s.x[s.ndim - 1][i] / b) + r.normal();
      if (o.positive) t = std::fabs(t) + 0.1;
      s.z[v][i] = t;
    }
  }
  // drop mechanism
  double u = r.u01();
  double pSel = 0.60 - o.pUcoord;
  s.by = u < pSel ? BY_SEL : u < pSel + 0.15 ? BY_UVAL : u < 0.75 ? BY_UCOORD : u < 0.90 ? BY_MIXED : u < 0.95 ? BY_NONE : BY_SELNA;
  if (s.by == BY_SELNA && (!o.allowSelNA || avoid("selna", AVOID_SELNA))) s.by = BY_SEL;
  if ((!o.allowUcoord || avoid("ucoord", AVOID_UCOORD)) && s.by == BY_UCOORD) s.by = BY_SEL;
  s.cls.assign(s.n, KEEP);
  s.selMode = SEL_NONE;
  if (s.by == BY_SEL || s.by == BY_MIXED || s.by == BY_SELNA)
  {
    double w = r.u01();
    s.selMode = w < 0.6 ? SEL_RANDOM : w < 0.8 ? SEL_ALMOST_EMPTY : w < 0.9 ? SEL_EMPTY : SEL_FULL;
    if (s.selMode == SEL_EMPTY && !o.allowEmpty) s.selMode = SEL_ALMOST_EMPTY;
    if ((s.by == BY_MIXED || s.by == BY_SELNA) && s.selMode != SEL_FULL) s.selMode = SEL_RANDOM;
    if (s.selMode == SEL_RANDOM)
    {
      double p = r.uni(0.15, 0.6);
      for (int i = 0; i < s.n; i++)
        if (r.coin(p)) s.cls[i] |= MASKED;
    }
    else if (s.selMode == SEL_ALMOST_EMPTY)
    {
      int nk = std::max(o.minKept, r.irange(1, 3));
      std::vector<int> p = r.perm(s.n);
      for (int i = nk; i < s.n; i++) s.cls[p[i]] |= MASKED;
    }
    else if (s.selMode == SEL_EMPTY)
      for (int i = 0; i < s.n; i++) s.cls[i] |= MASKED;
  }
  if (s.by == BY_NONE && r.coin(0.5)) s.selMode = SEL_FULL;
  if (s.by == BY_UVAL || s.by == BY_MIXED)
  {
    double p = r.uni(0.1, 0.4);
    for (int i = 0; i < s.n; i++)
      if (r.coin(p)) s.cls[i] |= ALLUNDEF;
  }
  if (s.by == BY_UCOORD)
  {
    double p = r.uni(0.1, 0.3);
    for (int i = 0; i < s.n; i++)
      if (r.coin(p)) s.cls[i] |= COORDUNDEF;
  }
  // enforce the lower bound on kept samples (not for the empty selection)
  if (s.selMode != SEL_EMPTY)
  {
    int nk = 0;
    for (int i = 0; i < s.n; i++) nk += s.cls[i] == KEEP;
    std::vector<int> p = r.perm(s.n);
    for (int i = 0; i < s.n && nk < o.minKept; i++)
      if (s.cls[p[i]] != KEEP) { s.cls[p[i]] = KEEP; nk++; }
  }
  // heterotopy among kept samples: one variable undefined at some samples (never all of them at one sample)
  s.hetero = s.nvar > 1 && r.coin(0.5);
  if (s.hetero)
  {
    double p = r.uni(0.1, 0.4);
    for (int i = 0; i < s.n; i++)
      if (r.coin(p)) s.z[r.irange(0, s.nvar - 1)][i] = TEST;
  }
  s.poisonCoord = r.coin(0.6);
  if (const char* e = getenv("C05_PC")) s.poisonCoord = atoi(e) != 0; // developer override (the draw above is still consumed)
  if (r.coin(o.pWeight))
  {
    s.w.resize(s.n);
    for (auto& v : s.w) v = r.uni(0.2, 3.);
  }
  s.undefKeepCoord = o.undefKeepCoord;
  for (int i = 0; i < s.n; i++)
    if (s.cls[i] == KEEP) s.kept.push_back(i);
  return s;
}

inline VectorString coordNames(int ndim)
{
  VectorString v;
  for (int d = 0; d < ndim; d++) v.push_back(fmt("x%d", d + 1));
  return v;
}
inline VectorString varNames(int nvar)
{
  VectorString v;
  for (int k = 0; k < nvar; k++) v.push_back(fmt("z%d", k + 1));
  return v;
}

// Build a Db from explicit columns (coordinates, variables, optional selection)
inline std::unique_ptr<Db> mkDb(int n, const std::vector<std::vector<double>>& x,
                                const std::vector<std::vector<double>>& z, const std::vector<double>* sel,
                                const std::vector<double>* wgt = nullptr, const std::vector<double>* fext = nullptr)
{
  int ndim = (int)x.size(), nvar = (int)z.size();
  VectorDouble tab;
  VectorString names;
  for (int d = 0; d < ndim; d++) { for (int i = 0; i < n; i++) tab.push_back(x[d][i]); names.push_back(fmt("x%d", d + 1)); }
  for (int v = 0; v < nvar; v++) { for (int i = 0; i < n; i++) tab.push_back(z[v][i]); names.push_back(fmt("z%d", v + 1)); }
  if (wgt && !wgt->empty()) { for (int i = 0; i < n; i++) tab.push_back((*wgt)[i]); names.push_back("w"); }
  if (fext && !fext->empty()) { for (int i = 0; i < n; i++) tab.push_back((*fext)[i]); names.push_back("f1"); }
  if (sel) { for (int i = 0; i < n; i++) tab.push_back((*sel)[i]); names.push_back("sel"); }
  std::unique_ptr<Db> db(Db::createFromSamples(n, ELoadBy::COLUMN, tab, names, VectorString(), true));
  if (!db) return db;
  for (int d = 0; d < ndim; d++) db->setLocator(names[d], ELoc::X, d);
  for (int v = 0; v < nvar; v++) db->setLocator(names[ndim + v], ELoc::Z, v);
  if (wgt && !wgt->empty()) db->setLocator("w", ELoc::W, 0);
  if (fext && !fext->empty()) db->setLocator("f1", ELoc::F, 0);
  if (sel) db->setLocator("sel", ELoc::SEL, 0);
  return db;
}

// Masked Db: all n samples; dropped ones are switched off / undefined as their class says and POISONED elsewhere.
inline std::unique_ptr<Db> mkMasked(Rng& r, const Samples& s)
{
  std::vector<std::vector<double>> x = s.x, z = s.z;
  std::vector<double> sel(s.n, 1.), w = s.w, f = s.f;
  for (int i = 0; i < s.n; i++)
  {
    int c = s.cls[i];
    if (c == KEEP) continue;
    bool farCoord = s.poisonCoord;
    if (s.undefKeepCoord && !(c & MASKED)) farCoord = false;
    if (!w.empty()) w[i] = POISON_VAL;
    if (!f.empty()) f[i] = (c & FEXTUNDEF) ? TEST : POISON_VAL;
    if (c & MASKED)
    {
      sel[i] = s.by == BY_SELNA ? TEST : 0.;
      for (int v = 0; v < s.nvar; v++) z[v][i] = POISON_VAL * (1 + v);
    }
    if (c & ALLUNDEF)
      for (int v = 0; v < s.nvar; v++) z[v][i] = TEST;
    if (farCoord)
      for (int d = 0; d < s.ndim; d++) x[d][i] = 1e7 * s.field * (1 + 0.01 * i) * ((i + d) % 2 ? 1 : -1);
    if (c & COORDUNDEF)
    {
      x[r.coin(0.5) ? 0 : r.irange(0, s.ndim - 1)][i] = TEST; // (first coordinate favoured: see genNeigh in c05_mask.cpp)
      // the value itself is defined: make a leak large
      if (!(c & ALLUNDEF))
        for (int v = 0; v < s.nvar; v++) z[v][i] = POISON_VAL * (1 + v);
    }
  }
  return mkDb(s.n, x, z, s.hasSelColumn() ? &sel : nullptr, &w, &f);
}

inline std::unique_ptr<Db> mkReduced(const Samples& s)
{
  int nk = s.nkept();
  std::vector<std::vector<double>> x(s.ndim, std::vector<double>(nk)), z(s.nvar, std::vector<double>(nk));
  std::vector<double> w, f;
  for (int k = 0; k < nk; k++)
  {
    if (!s.f.empty()) f.push_back(s.f[s.kept[k]]);
    for (int d = 0; d < s.ndim; d++) x[d][k] = s.x[d][s.kept[k]];
    for (int v = 0; v < s.nvar; v++) z[v][k] = s.z[v][s.kept[k]];
    if (!s.w.empty()) w.push_back(s.w[s.kept[k]]);
  }
  return mkDb(nk, x, z, nullptr, &w, &f);
}

inline bool sameBits(double a, double b) { return std::memcmp(&a, &b, sizeof(double)) == 0; }

// Names of the columns added to a Db since it had 'ncolBefore' columns
inline VectorString newColumns(const Db* db, int ncolBefore)
{
  VectorString v;
  for (int ic = ncolBefore; ic < db->getColumnNumber(); ic++) v.push_back(db->getNameByColIdx(ic));
  return v;
}

struct CmpRes
{
  double worst = 0;   // max |a-b| over compared cells (inf when one side undefined / NaN and not the other)
  double scale = 0;   // max |b|
  long ncell   = 0;
  long nexact  = 0;   // cells equal bit for bit
  std::string where;
};

// compare column 'nameA' of dbA at rows mapA[k] with column 'nameB' of dbB at rows k (k = 0 … mapA.size()-1)
// (or rows mapB[k] when mapB is given)
inline void cmpColumn(const Db* dbA, const std::string& nameA, const std::vector<int>& mapA, const Db* dbB,
                      const std::string& nameB, CmpRes& res, const std::vector<int>* mapB = nullptr)
{
  VectorDouble a = dbA->getColumn(nameA, false, false);
  VectorDouble b = dbB->getColumn(nameB, false, false);
  for (size_t k = 0; k < mapA.size(); k++)
  {
    double va = a[mapA[k]], vb = b[mapB ? (*mapB)[k] : (int)k];
    res.ncell++;
    if (sameBits(va, vb)) { res.nexact++; if (!FFFF(vb)) res.scale = std::max(res.scale, std::fabs(vb)); continue; }
    double e;
    if (FFFF(va) || FFFF(vb) || std::isnan(va) || std::isnan(vb)) e = (FFFF(va) && FFFF(vb)) ? 0 : INFINITY;
    else { e = std::fabs(va - vb); res.scale = std::max(res.scale, std::fabs(vb)); }
    if (e > res.worst)
    {
      res.worst = e;
      res.where = fmt("%s[row %d] masked-run=%.17g reduced-run[row %d]=%.17g", nameA.c_str(), mapA[k], va, mapB ? (*mapB)[k] : (int)k, vb);
    }
  }
}
} // namespace c05
