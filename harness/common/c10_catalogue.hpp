// C10 part 1: catalogue of OBSERVED CALLS (each builds its own inputs from a sub-seed and returns a canonical digest
// of everything it returns: output columns bit-for-bit, returned vectors/matrices, return codes) and of FAILING CALLS
// (documented failure protocol: non-zero code / nullptr / empty result). Everything is 2-D in the default space.
// Random procedures receive an explicit seed argument (documented); nothing here sets a global option.
#pragma once
#include "Basic/MathFunc.hpp"
#include "common/vh.hpp"
#include "common/c10_util.hpp"
#include "common/c10_world.hpp"

#include "Estimation/CalcKriging.hpp"
#include "Simulation/CalcSimuTurningBands.hpp"
#include "Simulation/CalcSimuFFT.hpp"
#include "Simulation/SimuFFTParam.hpp"
#include "Calculators/CalcMigrate.hpp"
#include "Stats/Classical.hpp"
#include "Stats/PCA.hpp"
#include "Anamorphosis/AnamHermite.hpp"
#include "Basic/ASerializable.hpp"
#include "Basic/OptDbg.hpp"
#include "Basic/OptCst.hpp"
#include "Enum/EDbg.hpp"
#include "Enum/ECst.hpp"
#include "Enum/EStatOption.hpp"
#include "Matrix/MatrixSparse.hpp"
#include "Space/ASpaceObject.hpp"
#include "geoslib_f.h"

namespace c10c
{
using namespace c10w;
using vh::fmt;

struct Call
{
  const char* name;
  std::string (*fn)(Rng&);
  bool random;  // a random procedure: the generator state after it is documented state
  bool failing; // expected to fail (return code / nullptr)
  // name used for the GUILTY prefix call in violation keys: calls that do the same thing to the process share it
  const char* family = nullptr;
  const char* fam() const { return family ? family : name; }
};

// ---------------------------------------------------------------------------------------------------------------
// helpers
// ---------------------------------------------------------------------------------------------------------------
// Seed ARGUMENT given to the random procedures. Normally drawn from the call's sub-stream; a history can force it so
// that several calls of one process are given the SAME seed (a repetition must restart the stream, not continue it).
// -1: the value law_get_random_seed() had when the process started.
inline int& forcedSeed() { static int s = 0; return s; }
inline int& initialSeed() { static int s = 0; return s; }
inline int libSeed(Rng& q, int offset = 0)
{
  int drawn = q.irange(1, 100000);
  if (forcedSeed() == 0) return drawn;
  if (forcedSeed() < 0) return initialSeed();
  return forcedSeed() + offset;
}

inline DbSpec dataSpec(Rng& q, int nvarMax = 1)
{
  DbSpec s;
  s.n      = q.irange(8, 30);
  s.nvar   = q.irange(1, nvarMax);
  s.sel    = q.coin(0.25) ? 0.2 : 0.;
  s.hetero = (s.nvar > 1 && q.coin(0.4)) ? 0.2 : 0.;
  return s;
}
inline UDb targets(Rng& q, int n = -1)
{
  DbSpec s;
  s.n    = n > 0 ? n : q.irange(3, 8);
  s.nvar = 0;
  return mkDb(q, s);
}
inline NeighMoving* movingNeigh(Rng& q)
{
  return NeighMoving::create(false, q.irange(4, 10), q.uni(40, 120), 1, q.coin(0.3) ? 4 : 1, q.irange(2, 3));
}
inline std::string outDigest(int rc, Db* out, int ncol0, Db* in = nullptr, int ncolIn0 = 0)
{
  return digOf([&](Dig& g) {
    g.i(rc);
    digDbCols(g, out, ncol0);
    if (in) { g.tag("in"); digDb(g, in); (void)ncolIn0; }
  });
}

// ---------------------------------------------------------------------------------------------------------------
// observed calls
// ---------------------------------------------------------------------------------------------------------------
inline std::string callKrigingUnique(Rng& q)
{
  DbSpec ds = dataSpec(q, 2);
  UDb in    = mkDb(q, ds);
  UDb out   = targets(q);
  ModelSpec ms;
  ms.nvar  = ds.nvar;
  ms.drift = q.irange(-1, 1);
  UModel m = mkModel(q, ms);
  std::unique_ptr<NeighUnique> n(NeighUnique::create());
  int nc = out->getColumnNumber();
  int rc = kriging(in.get(), out.get(), m.get(), n.get(), EKrigOpt::POINT, true, true, q.coin());
  return outDigest(rc, out.get(), nc, in.get());
}
inline std::string callKrigingMoving(Rng& q)
{
  DbSpec ds = dataSpec(q, 1);
  ds.n      = q.irange(20, 50);
  UDb in    = mkDb(q, ds);
  UDb out   = targets(q);
  ModelSpec ms;
  ms.drift = q.irange(-1, 1);
  UModel m = mkModel(q, ms);
  std::unique_ptr<NeighMoving> n(movingNeigh(q));
  int nc = out->getColumnNumber();
  int rc = kriging(in.get(), out.get(), m.get(), n.get());
  return outDigest(rc, out.get(), nc, in.get());
}
inline std::string callKrigingGrid(Rng& q)
{
  DbSpec ds = dataSpec(q, 1);
  UDb in    = mkDb(q, ds);
  GridSpec gs = mkGridSpec(q, 6);
  UGrid out   = mkGrid(q, gs);
  ModelSpec ms;
  ms.drift = q.irange(-1, 0);
  UModel m = mkModel(q, ms);
  std::unique_ptr<NeighUnique> n(NeighUnique::create());
  int nc = out->getColumnNumber();
  bool block = q.coin(0.4);
  int rc = kriging(in.get(), out.get(), m.get(), n.get(), block ? EKrigOpt::BLOCK : EKrigOpt::POINT, true, true, false,
                   block ? VectorInt({2, 2}) : VectorInt());
  return outDigest(rc, out.get(), nc);
}
inline std::string callXvalid(Rng& q)
{
  DbSpec ds = dataSpec(q, 1);
  UDb in    = mkDb(q, ds);
  ModelSpec ms;
  ms.drift = q.irange(-1, 1);
  UModel m = mkModel(q, ms);
  bool moving = q.coin();
  std::unique_ptr<ANeigh> n;
  if (moving) n.reset(movingNeigh(q));
  else n.reset(NeighUnique::create());
  int nc = in->getColumnNumber();
  int rc = xvalid(in.get(), m.get(), n.get(), false, q.coin() ? 1 : -1, 1);
  return outDigest(rc, in.get(), nc);
}
inline std::string callKrigtest(Rng& q)
{
  DbSpec ds = dataSpec(q, 1);
  UDb in    = mkDb(q, ds);
  UDb out   = targets(q, 5);
  ModelSpec ms;
  ms.drift = q.irange(-1, 1);
  UModel m = mkModel(q, ms);
  std::unique_ptr<NeighMoving> n(movingNeigh(q));
  Krigtest_Res res = krigtest(in.get(), out.get(), m.get(), n.get(), q.irange(1, 4), EKrigOpt::POINT, VectorInt(), false, false);
  return digOf([&](Dig& g) {
    g.i(res.ndim); g.i(res.nvar); g.i(res.nech); g.i(res.neq); g.i(res.nrhs);
    digVI(g, res.nbgh);
    digVD(g, res.data);
    digMat(g, res.zam); digMat(g, res.lhs); digMat(g, res.rhs); digMat(g, res.wgt); digMat(g, res.var);
  });
}
inline std::string callCovMatPlain(Rng& q)
{
  DbSpec ds = dataSpec(q, 2);
  UDb a     = mkDb(q, ds);
  UDb b     = mkDb(q, ds);
  ModelSpec ms;
  ms.nvar  = ds.nvar;
  UModel m = mkModel(q, ms);
  return digOf([&](Dig& g) {
    digMat(g, m->evalCovMatrix(a.get(), b.get()));
    digMat(g, m->evalCovMatrixSymmetric(a.get()));
    digVD(g, m->evalCovMatrixV(a.get(), b.get(), 0, 0));
  });
}
inline std::string callCovMatOptim(Rng& q)
{
  DbSpec ds = dataSpec(q, 2);
  UDb a     = mkDb(q, ds);
  UDb b     = mkDb(q, ds);
  ModelSpec ms;
  ms.nvar  = ds.nvar;
  UModel m = mkModel(q, ms);
  return digOf([&](Dig& g) {
    digMat(g, m->evalCovMatrixOptim(a.get(), b.get()));
    digMat(g, m->evalCovMatrixSymmetricOptim(a.get()));
  });
}
inline std::string callCovMatSparse(Rng& q)
{
  DbSpec ds = dataSpec(q, 1);
  UDb a     = mkDb(q, ds);
  ModelSpec ms;
  UModel m = mkModel(q, ms);
  std::unique_ptr<MatrixSparse> s(m->evalCovMatrixSparse(a.get()));
  return digOf([&](Dig& g) { g.i(s != nullptr); if (s) digMat(g, *s); });
}
inline std::string callVario(Rng& q)
{
  DbSpec ds = dataSpec(q, 2);
  ds.n      = q.irange(15, 40);
  UDb db    = mkDb(q, ds);
  VarioParam vp = mkVarioParam(q);
  static const ECalcVario* CALC[] = {&ECalcVario::VARIOGRAM, &ECalcVario::COVARIANCE, &ECalcVario::MADOGRAM, &ECalcVario::RODOGRAM};
  UVario v(Vario::computeFromDb(vp, db.get(), *CALC[q.irange(0, 3)]));
  return digOf([&](Dig& g) { digVario(g, v.get()); });
}
inline std::string callVarioBySample(Rng& q)
{
  // covariogram / by-sample variogram: Vario::_calculateGeneralSolution2
  DbSpec ds = dataSpec(q, 1);
  ds.n      = q.irange(15, 30);
  UDb db    = mkDb(q, ds);
  VarioParam vp = mkVarioParam(q);
  bool covg = q.coin();
  UVario v(Vario::computeFromDb(vp, db.get(), covg ? ECalcVario::COVARIOGRAM : ECalcVario::VARIOGRAM, !covg));
  return digOf([&](Dig& g) { digVario(g, v.get()); });
}
inline std::string callVarioGrid(Rng& q)
{
  GridSpec gs = mkGridSpec(q, 8);
  gs.nvar     = 1;
  gs.angle    = 0;
  UGrid g     = mkGrid(q, gs);
  VarioParam vp;
  std::unique_ptr<DirParam> d1(DirParam::createFromGrid(g.get(), 3, VectorInt({1, 0})));
  std::unique_ptr<DirParam> d2(DirParam::createFromGrid(g.get(), 3, VectorInt({0, 1})));
  vp.addDir(*d1);
  vp.addDir(*d2);
  UVario v(Vario::computeFromDb(vp, g.get()));
  return digOf([&](Dig& gg) { digVario(gg, v.get()); });
}
inline std::string callModelFit(Rng& q)
{
  DbSpec ds = dataSpec(q, 1);
  ds.n      = q.irange(25, 40);
  ds.sel    = 0;
  UDb db    = mkDb(q, ds);
  VarioParam vp = mkVarioParam(q);
  UVario v(Vario::computeFromDb(vp, db.get()));
  UModel m(Model::createFromParam(ECov::NUGGET, 1., 1.));
  int rc = m->fit(v.get(), {ECov::NUGGET, q.coin() ? ECov::SPHERICAL : ECov::EXPONENTIAL});
  return digOf([&](Dig& g) { g.i(rc); digModel(g, m.get()); });
}
inline std::string callSimtub(Rng& q)
{
  bool cond = q.coin();
  DbSpec ds = dataSpec(q, 1);
  UDb in    = cond ? mkDb(q, ds) : UDb();
  GridSpec gs = mkGridSpec(q, 6);
  UGrid out   = mkGrid(q, gs);
  ModelSpec ms;
  UModel m = mkModel(q, ms);
  std::unique_ptr<NeighUnique> n(NeighUnique::create());
  int nc = out->getColumnNumber();
  int rc = simtub(in.get(), out.get(), m.get(), cond ? n.get() : nullptr, q.irange(1, 2), libSeed(q), 20);
  return outDigest(rc, out.get(), nc);
}
inline std::string callSimfft(Rng& q)
{
  GridSpec gs = mkGridSpec(q, 8);
  gs.angle    = 0;
  UGrid out   = mkGrid(q, gs);
  ModelSpec ms;
  ms.nugget = false;
  ms.ncov   = 1;
  UModel m  = mkModel(q, ms);
  SimuFFTParam par(true, 0.1);
  int nc = out->getColumnNumber();
  int rc = simfft(out.get(), m.get(), par, 1, libSeed(q));
  return outDigest(rc, out.get(), nc);
}
inline std::string callGibbs(Rng& q)
{
  std::unique_ptr<DbGrid> db(DbGrid::create(VectorInt({q.irange(3, 5), q.irange(3, 5)}), VectorDouble({1., 1.})));
  double bound = q.uni(0.5, 2);
  db->addColumnsByConstant(1, -bound, "Bounds", ELoc::L);
  db->addColumnsByConstant(1, +bound, "Bounds", ELoc::U);
  UModel m(Model::createFromParam(ECov::EXPONENTIAL, q.uni(2, 5), 1.));
  int nc = db->getColumnNumber();
  int rc = gibbs_sampler(db.get(), m.get(), 1, libSeed(q), 3, 5, false, false, false, false, false, 0, 5., false, false, false);
  return outDigest(rc, db.get(), nc);
}
inline std::string callMigrate(Rng& q)
{
  DbSpec ds = dataSpec(q, 1);
  ds.sel    = 0;
  UDb in    = mkDb(q, ds);
  GridSpec gs = mkGridSpec(q, 7);
  UGrid out   = mkGrid(q, gs);
  int nc = out->getColumnNumber();
  int rc = migrate(in.get(), out.get(), "z1", q.irange(1, 2), VectorDouble(), q.coin(), false, q.coin(0.3));
  UDb back = targets(q, 6);
  int nc2  = back->getColumnNumber();
  int rc2  = migrate(out.get(), back.get(), out->getNameByColIdx(out->getColumnNumber() - 1), 1, VectorDouble(), false, q.coin());
  return digOf([&](Dig& g) { g.i(rc); digDbCols(g, out.get(), nc); g.i(rc2); digDbCols(g, back.get(), nc2); });
}
inline std::string callStatistics(Rng& q)
{
  DbSpec ds = dataSpec(q, 2);
  ds.nvar   = 2;
  UDb db    = mkDb(q, ds);
  Table t1 = dbStatisticsMono(db.get(), {"z1", "z2"}, EStatOption::fromKeys({"MEAN", "VAR", "MINI", "MAXI", "NUM"}));
  Table t2 = dbStatisticsCorrel(db.get(), {"z1", "z2"});
  Table t3 = dbStatisticsMulti(db.get(), {"z1", "z2"}, EStatOption::MEAN);
  return digOf([&](Dig& g) {
    digMat(g, t1); digMat(g, t2); digMat(g, t3);
    g.d(db->getMean("z1", true)); g.d(db->getVariance("z2", true)); g.d(db->getCorrelation("z1", "z2", true));
  });
}
inline std::string callAnam(Rng& q)
{
  DbSpec ds = dataSpec(q, 1);
  ds.n      = q.irange(20, 40);
  ds.sel    = 0;
  UDb db    = mkDb(q, ds);
  std::unique_ptr<AnamHermite> an(AnamHermite::create(q.irange(8, 15)));
  int rc  = an->fitFromLocator(db.get());
  int nc  = db->getColumnNumber();
  int rc2 = an->rawToGaussianByLocator(db.get());
  // (gaussianToRawByLocator never sets its 'variables' flag and always fails its check - a C18 matter: by name here)
  int rc3 = an->gaussianToRaw(db.get(), db->getLastName());
  return digOf([&](Dig& g) { g.i(rc); g.i(rc2); g.i(rc3); digVD(g, an->getPsiHns()); digDbCols(g, db.get(), nc); });
}
inline std::string callPCA(Rng& q)
{
  DbSpec ds = dataSpec(q, 2);
  ds.nvar   = 2;
  ds.n      = q.irange(15, 30);
  ds.hetero = 0;
  UDb db    = mkDb(q, ds);
  PCA pca(2);
  int rc  = pca.pca_compute(db.get());
  int nc  = db->getColumnNumber();
  int rc2 = pca.dbZ2F(db.get());
  return digOf([&](Dig& g) { g.i(rc); g.i(rc2); digVD(g, pca.getEigVals()); digDbCols(g, db.get(), nc); });
}
inline std::string callDbRandom(Rng& q)
{
  // random fillers with an explicit seed argument
  int seed = libSeed(q);
  UDb a(Db::createFillRandom(q.irange(5, 20), 2, q.irange(1, 2), 0, 0, q.coin() ? 0.3 : 0., q.coin() ? 0.3 : 0., VectorDouble(), VectorDouble(), VectorDouble(), seed));
  UDb b(Db::createFromBox(q.irange(5, 20), VectorDouble({0., 0.}), VectorDouble({10., 20.}), seed + 1));
  b->addColumnsRandom(2, "rnd", ELoc::Z, 0, seed + 2);
  b->addSelectionRandom(0.6, seed + 3);
  UDb cdb(Db::createSamplingDb(a.get(), 0.5, 0, VectorString(), seed + 4));
  return digOf([&](Dig& g) { digDb(g, a.get()); digDb(g, b.get()); digDb(g, cdb.get()); });
}
inline std::string callDbFillRandom(Rng& q)
{
  // one seeded filler alone (a single seeding per call: repeating it with the same seed must give the same Db)
  UDb a(Db::createFillRandom(q.irange(5, 20), 2, q.irange(1, 2), 0, 0, 0., 0., VectorDouble(), VectorDouble(), VectorDouble(), libSeed(q)));
  return digOf([&](Dig& g) { digDb(g, a.get()); });
}
inline std::string callMvn(Rng& q)
{
  // quadrivariate Gaussian probability of a box (quasi Monte-Carlo integration inside mvndst, which is documented to work from
  // a seed of its own and to give the user's seed back): the value cannot depend on what was drawn before
  double rho = q.uni(0.2, 0.8);
  double correl[16], lower[4], upper[4];
  for (int i = 0; i < 4; i++)
    for (int j = 0; j < 4; j++) correl[i * 4 + j] = i == j ? 1. : rho;
  for (int i = 0; i < 4; i++) { lower[i] = q.uni(-2., -0.2); upper[i] = q.uni(0.3, 2.5); }
  double error = 0, value = 0;
  int inform = 0;
  mvndst4(lower, upper, correl, 8000, 1e-6, 0., &error, &value, &inform);
  return digOf([&](Dig& g) { g.d(value); g.d(error); g.i(inform); });
}
inline std::string callPolygon(Rng& q)
{
  DbSpec ds = dataSpec(q, 1);
  ds.n      = q.irange(20, 50);
  UDb db    = mkDb(q, ds);
  auto poly = mkPolygons(q);
  int nc    = db->getColumnNumber();
  db_polygon(db.get(), poly.get(), q.coin(), false, q.coin(0.3));
  UDb hull1 = targets(q, 8);
  int nc2   = db->getColumnNumber();
  int rc    = db_selhull(hull1.get(), db.get(), q.coin() ? 0. : 5.);
  return digOf([&](Dig& g) { digDbCols(g, db.get(), nc); g.i(nc2); g.i(rc); g.d(poly->getSurface()); });
}
inline std::string callGridConv(Rng& q)
{
  GridSpec gs = mkGridSpec(q, 9);
  UGrid g     = mkGrid(q, gs);
  return digOf([&](Dig& d) {
    for (int k = 0; k < 12; k++)
    {
      int rank = q.irange(0, g->getNTotal() - 1);
      VectorDouble xy = g->rankToCoordinates(rank);
      digVD(d, xy);
      VectorInt ind(2);
      g->rankToIndice(rank, ind);
      digVI(d, ind);
      d.i(g->coordinateToRank(xy));
      VectorDouble p({gs.x0 + q.uni(-20, 120), gs.y0 + q.uni(-20, 120)});
      d.i(g->coordinateToRank(p));
      digVI(d, g->coordinateToIndices(p));
      digVD(d, g->indicesToCoordinate(ind));
    }
    std::unique_ptr<DbGrid> cov(DbGrid::createCoveringDb(g.get(), VectorInt({4, 5})));
    digDb(d, cov.get());
  });
}
inline std::string callNFRoundTrip(Rng& q)
{
  // explicit relative file names in the private working directory (container / prefix are left alone)
  DbSpec ds = dataSpec(q, 2);
  UDb db    = mkDb(q, ds);
  ModelSpec ms;
  ms.nvar  = ds.nvar;
  ms.drift = q.irange(-1, 1);
  UModel m = mkModel(q, ms);
  VarioParam vp = mkVarioParam(q);
  UVario v(Vario::computeFromDb(vp, db.get()));
  bool w1 = db->dumpToNF("c10_db.ascii");
  bool w2 = m->dumpToNF("c10_model.ascii");
  bool w3 = v ? v->dumpToNF("c10_vario.ascii") : false;
  UDb db2(Db::createFromNF("c10_db.ascii", false));
  UModel m2(Model::createFromNF("c10_model.ascii", false));
  UVario v2(Vario::createFromNF("c10_vario.ascii", false));
  return digOf([&](Dig& g) { g.i(w1); g.i(w2); g.i(w3); digDb(g, db2.get()); digModel(g, m2.get()); digVario(g, v2.get()); });
}
inline std::string callLaw(Rng& q)
{
  // the documented way to get reproducible draws: give the seed, then draw
  law_set_random_seed(libSeed(q));
  return digOf([&](Dig& g) {
    for (int k = 0; k < 5; k++) { g.d(law_uniform()); g.d(law_gaussian()); g.i(law_int_uniform(0, 100)); g.d(law_exponential()); g.d(law_gamma(2.)); g.i(law_poisson(3.)); }
    digVI(g, law_random_path(7));
  });
}
inline std::string callNeighSelect(Rng& q)
{
  DbSpec ds = dataSpec(q, 1);
  ds.n      = q.irange(20, 50);
  UDb in    = mkDb(q, ds);
  UDb out   = targets(q);
  std::unique_ptr<NeighMoving> n(movingNeigh(q));
  n->attach(in.get(), out.get());
  return digOf([&](Dig& g) {
    for (int t = 0; t < out->getSampleNumber(); t++) { VectorInt r; n->select(t, r); digVI(g, r); }
  });
}
inline std::string callGlobalOptionsOnly(Rng&)
{
  return "0";
}

// ---------------------------------------------------------------------------------------------------------------
// failing calls (each is a documented failure: return code != 0 / nullptr / empty). The digest is the failure status.
// ---------------------------------------------------------------------------------------------------------------
inline std::string failKrigingNvarMismatch(Rng& q)
{
  DbSpec ds = dataSpec(q, 1);
  UDb in = mkDb(q, ds);
  UDb out = targets(q);
  ModelSpec ms;
  ms.nvar  = 2; // model for 2 variables, data with 1
  UModel m = mkModel(q, ms);
  std::unique_ptr<NeighUnique> n(NeighUnique::create());
  return fmt("%d", kriging(in.get(), out.get(), m.get(), n.get()));
}
inline std::string failKrigingAllMasked(Rng& q)
{
  DbSpec ds = dataSpec(q, 1);
  ds.sel    = 1.;
  UDb in = mkDb(q, ds);
  UDb out = targets(q);
  UModel m = mkModel(q, ModelSpec());
  std::unique_ptr<ANeigh> n;
  if (q.coin()) n.reset(NeighUnique::create());
  else n.reset(movingNeigh(q));
  return fmt("%d", kriging(in.get(), out.get(), m.get(), n.get()));
}
inline std::string failKrigingNoStructure(Rng& q)
{
  UDb in = mkDb(q, dataSpec(q, 1));
  UDb out = targets(q);
  UModel m(Model::createFromParam(ECov::NUGGET, 1., 1.));
  m->delAllCovas();
  std::unique_ptr<NeighUnique> n(NeighUnique::create());
  return fmt("%d", kriging(in.get(), out.get(), m.get(), n.get()));
}
inline std::string failKrigingSingular(Rng& q)
{
  // duplicated samples, no nugget: singular system
  DbSpec ds;
  ds.n   = 6;
  UDb in = mkDb(q, ds);
  for (int i = 0; i < 3; i++) { in->setCoordinate(i + 3, 0, in->getCoordinate(i, 0)); in->setCoordinate(i + 3, 1, in->getCoordinate(i, 1)); }
  UDb out = targets(q);
  UModel m(Model::createFromParam(ECov::SPHERICAL, 30., 1.));
  m->setDriftIRF(0);
  std::unique_ptr<NeighUnique> n(NeighUnique::create());
  return fmt("%d", kriging(in.get(), out.get(), m.get(), n.get()));
}
inline std::string failNeighFindsNothing(Rng& q)
{
  DbSpec ds = dataSpec(q, 1);
  UDb in = mkDb(q, ds);
  DbSpec ts;
  ts.n = 4; ts.nvar = 0; ts.x0 = 5000; ts.y0 = 5000; // far away
  UDb out = mkDb(q, ts);
  UModel m = mkModel(q, ModelSpec());
  std::unique_ptr<NeighMoving> n(NeighMoving::create(false, 5, 10., 3));
  return fmt("%d", kriging(in.get(), out.get(), m.get(), n.get()));
}
inline std::string failUnreadableFile(Rng&)
{
  std::unique_ptr<Db> d(Db::createFromNF("c10_does_not_exist.ascii", false));
  std::unique_ptr<Model> m(Model::createFromNF("c10_does_not_exist.ascii", false));
  std::unique_ptr<Vario> v(Vario::createFromNF("c10_does_not_exist.ascii", false));
  return fmt("%d%d%d", d != nullptr, m != nullptr, v != nullptr);
}
inline std::string failFitEmptyVario(Rng& q)
{
  VarioParam vp = mkVarioParam(q);
  UVario v(Vario::create(vp)); // never computed
  UModel m(Model::createFromParam(ECov::NUGGET, 1., 1.));
  return fmt("%d", m->fit(v.get()));
}
inline std::string failOptimMasked(Rng& q)
{
  DbSpec ds = dataSpec(q, 1);
  ds.sel    = 1.;
  UDb a = mkDb(q, ds);
  UModel m = mkModel(q, ModelSpec());
  MatrixRectangular r1 = m->evalCovMatrixOptim(a.get());
  MatrixSquareSymmetric r2 = m->evalCovMatrixSymmetricOptim(a.get());
  return fmt("%d%d", r1.getNRows(), r2.getNRows());
}
inline std::string failVarioNoVariable(Rng& q)
{
  DbSpec ds;
  ds.n = 10; ds.nvar = 0;
  UDb db = mkDb(q, ds);
  VarioParam vp = mkVarioParam(q);
  UVario v(Vario::computeFromDb(vp, db.get()));
  return fmt("%d", v != nullptr);
}
inline std::string failMigrateUnknownName(Rng& q)
{
  UDb in = mkDb(q, dataSpec(q, 1));
  UGrid out = mkGrid(q, mkGridSpec(q, 5));
  return fmt("%d", migrate(in.get(), out.get(), "no_such_column"));
}
inline std::string failSimtubNoModel(Rng& q)
{
  UGrid out = mkGrid(q, mkGridSpec(q, 5));
  UModel m(Model::createFromParam(ECov::NUGGET, 1., 1.));
  m->delAllCovas();
  return fmt("%d", simtub(nullptr, out.get(), m.get(), nullptr, 1, 123, 10));
}
inline std::string failStatsBadNames(Rng& q)
{
  UDb db = mkDb(q, dataSpec(q, 1));
  Table t = dbStatisticsMono(db.get(), {"nope1", "nope2"});
  return fmt("%d", t.getNRows());
}
inline std::string failXvalidDimMismatch(Rng& q)
{
  UDb in = mkDb(q, dataSpec(q, 1));
  // model in another space dimension (3-D ranges) with 2-D data
  UModel m(Model::createFromParam(ECov::SPHERICAL, 1., 1., 1., VectorDouble({10., 10., 10.})));
  std::unique_ptr<NeighUnique> n(NeighUnique::create());
  return fmt("%d", xvalid(in.get(), m.get(), n.get()));
}

inline const std::vector<Call>& catalogue()
{
  static const std::vector<Call> C = {
    {"kriging-unique", callKrigingUnique, false, false},
    {"kriging-moving", callKrigingMoving, false, false},
    {"kriging-grid", callKrigingGrid, false, false},
    {"xvalid", callXvalid, false, false},
    {"krigtest", callKrigtest, false, false},
    {"covmat-plain", callCovMatPlain, false, false},
    {"covmat-optim", callCovMatOptim, false, false},
    {"covmat-sparse", callCovMatSparse, false, false},
    {"vario", callVario, false, false, "variogram-computation"},
    {"vario-by-sample", callVarioBySample, false, false, "variogram-computation"},
    {"vario-grid", callVarioGrid, false, false, "variogram-computation"},
    {"model-fit", callModelFit, false, false, "variogram-computation"},
    {"simtub", callSimtub, true, false},
    {"simfft", callSimfft, true, false},
    {"gibbs", callGibbs, true, false},
    {"migrate", callMigrate, false, false},
    {"statistics", callStatistics, false, false},
    {"anamorphosis", callAnam, false, false},
    {"pca", callPCA, false, false},
    {"db-random", callDbRandom, true, false},
    {"db-fill-random", callDbFillRandom, true, false},
    {"polygon", callPolygon, false, false},
    {"grid-conversions", callGridConv, false, false},
    {"nf-roundtrip", callNFRoundTrip, false, false, "variogram-computation"},
    {"law", callLaw, true, false},
    {"mvn-probability", callMvn, false, false},
    {"neigh-select", callNeighSelect, false, false},
    // failing calls
    {"FAIL:kriging-nvar-mismatch", failKrigingNvarMismatch, false, true},
    {"FAIL:kriging-all-masked", failKrigingAllMasked, false, true},
    {"FAIL:kriging-no-structure", failKrigingNoStructure, false, true},
    {"FAIL:kriging-singular", failKrigingSingular, false, true},
    {"FAIL:neigh-finds-nothing", failNeighFindsNothing, false, true},
    {"FAIL:unreadable-file", failUnreadableFile, false, true},
    {"FAIL:fit-empty-vario", failFitEmptyVario, false, true},
    {"FAIL:covmat-optim-all-masked", failOptimMasked, false, true},
    {"FAIL:vario-no-variable", failVarioNoVariable, false, true},
    {"FAIL:migrate-unknown-name", failMigrateUnknownName, false, true},
    {"FAIL:simtub-no-structure", failSimtubNoModel, true, true},
    {"FAIL:statistics-bad-names", failStatsBadNames, false, true},
    {"FAIL:xvalid-dimension-mismatch", failXvalidDimMismatch, false, true},
  };
  return C;
}
inline int nObserved()
{
  int n = 0;
  for (auto& c : catalogue()) n += !c.failing;
  return n;
}

// ---------------------------------------------------------------------------------------------------------------
// documented global options, through their public getters (name -> value)
// ---------------------------------------------------------------------------------------------------------------
inline std::vector<std::pair<std::string, std::string>> globalOptions()
{
  std::vector<std::pair<std::string, std::string>> o;
  o.push_back({"getMultiThread", fmt("%d", getMultiThread())});
  o.push_back({"isGlobalFlagEigen", fmt("%d", (int)isGlobalFlagEigen())});
  {
    auto it = EDbg::getIterator();
    while (it.hasNext()) { o.push_back({"OptDbg:" + std::string((*it).getKey()), fmt("%d", (int)OptDbg::query(*it, true))}); it.toNext(); }
  }
  o.push_back({"OptDbg:reference", fmt("%d", OptDbg::getReference())});
  {
    auto it = ECst::getIterator();
    while (it.hasNext()) { o.push_back({"OptCst:" + std::string((*it).getKey()), fmt("%.17g", OptCst::query(*it))}); it.toNext(); }
  }
  o.push_back({"defaultSpace", fmt("%d/%d", getDefaultSpaceType().getValue(), getDefaultSpaceDimension())});
  o.push_back({"ASerializable:container", ASerializable::getContainerName()});
  o.push_back({"ASerializable:prefix", ASerializable::getPrefixName()});
  o.push_back({"law_get_random_seed", fmt("%d", law_get_random_seed())});
  return o;
}
} // namespace c10c
