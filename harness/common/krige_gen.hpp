// Case generator shared by the C01 (reference) and C02 (metamorphic) kriging monitors.
// A Case holds every number needed to rebuild the library objects (data Db, target Db/DbGrid, Model, neighbourhood),
// so that a metamorphic variant is obtained by editing the Case and rebuilding.
#pragma once
#include "vh.hpp"
#include "ref_krige.hpp"

#include "Basic/VectorNumT.hpp"
#include "Covariances/CovContext.hpp"
#include "Db/Db.hpp"
#include "Db/DbGrid.hpp"
#include "Drifts/DriftF.hpp"
#include "Drifts/DriftM.hpp"
#include "Enum/ECov.hpp"
#include "Enum/ELoc.hpp"
#include "Enum/ESpaceType.hpp"
#include "Model/Model.hpp"
#include "Neigh/ANeigh.hpp"
#include "Neigh/NeighMoving.hpp"
#include "Neigh/NeighUnique.hpp"
#include "Space/ASpaceObject.hpp"
#include "geoslib_define.h"

#include <memory>
#include <string>
#include <vector>

namespace kg
{
using vh::Rng;

struct Struct
{
  int type = 0; // ECov value
  std::string name;
  std::vector<double> ranges, angles;
  double param = 1.;
  std::vector<double> sill; // nvar * nvar, symmetric
  bool intrinsic = false;   // needs a universality condition
};

enum TargetKind { T_POINTS = 0, T_GRID = 1, T_BLOCK = 2 };
enum NeighKind { N_UNIQUE = 0, N_MOVING = 1 };

struct Case
{
  // discrete configuration
  int ndim = 2, nvar = 1, n = 10, layout = 0, hetero = 0, driftOrder = -1, nfex = 0;
  bool verr = false;
  bool customDrift = false;                 // drift given as an explicit list of monomials (Model::addDrift)
  std::vector<std::vector<int>> customPw;   // powers of the monomials (first one is the constant)
  bool fUndef = false;                      // some external-drift values undefined at data samples
  bool perCell = false;                     // block kriging with one block size per target (ELoc::BLEX, krigcell)
  std::vector<std::vector<double>> blex;    // [target][ndim]
  int tfUndef = -1;                         // target whose external drift is undefined (-1: none)
  double tfUndefDraw = 2.;                  // (drawn position of that target in [0,1), resolved once the targets exist)
  int neighKind = N_UNIQUE, targetKind = T_POINTS;
  // numbers
  double L = 10.;
  std::vector<double> org;
  refk::Data data;
  std::vector<Struct> structs;
  std::vector<double> means;
  // moving neighbourhood
  int nmaxi = 10, nmini = 1, nsect = 1, nsmax = ITEST;
  double radius = 1.;
  std::vector<double> ncoeffs, nangles;
  // targets: points
  std::vector<std::vector<double>> tx, tf;
  // targets: grid
  std::vector<int> gnx, ndiscs;
  std::vector<double> gdx, gx0, gang;
  bool stationary() const
  {
    for (auto& s : structs)
      if (s.intrinsic) return false;
    return true;
  }
  std::vector<refk::DriftFn> basis() const
  {
    if (!customDrift) return refk::driftBasis(ndim, driftOrder, nfex);
    std::vector<refk::DriftFn> b;
    for (auto& p : customPw) { refk::DriftFn f; f.pw = p; b.push_back(f); }
    for (int k = 0; k < nfex; k++) { refk::DriftFn f; f.fex = k; b.push_back(f); }
    return b;
  }
  std::string sig() const
  {
    std::string s = vh::fmt("ndim=%d:nvar=%d:het=%d:drift=%d%s:nfex=%d%s:verr=%d:neigh=%s:tgt=%s:lay=%d:cov=", ndim, nvar,
                            hetero, driftOrder, customDrift ? "c" : "", nfex, (std::string(fUndef ? "u" : "") + (tfUndefDraw < 1. ? "t" : "")).c_str(), (int)verr, neighKind == N_UNIQUE ? "unique" : "moving",
                            targetKind == T_POINTS ? "points" : (targetKind == T_GRID ? "grid" : (perCell ? "cellblock" : "block")), layout);
    for (auto& st : structs) s += st.name.substr(0, 4) + "+";
    return s;
  }
};

static const bool AVOID_MOVING_NOCOEFF_1D = false;

struct Options
{
  int maxN       = 40;
  int maxTargets = 12;
  bool allowBlock = true;
  bool allowMoving = true;
  bool allowVerr = true;
  bool allowHetero = true;
  bool allowBareMoving1D = true; // see AVOID_MOVING_NOCOEFF_1D
  bool allowUndefTargetDrift = true;
};

// external drift as a smooth function of the location plus a sample-specific part (so that it is never a
// combination of the polynomial drift functions)
inline double extDriftValue(int k, const std::vector<double>& x, const std::vector<double>& org, double L, double jitter)
{
  double s = 0;
  for (size_t d = 0; d < x.size(); d++) s += std::sin((1.3 + 0.7 * k + 0.5 * d) * (x[d] - org[d]) / L * 3.0 + k);
  return 2.0 + s + jitter;
}

inline std::vector<double> spdMatrix(Rng& r, int nvar, const std::vector<double>& scale)
{
  // A A^t + delta I, scaled per variable
  std::vector<double> a(nvar * nvar), m(nvar * nvar, 0.);
  for (auto& v : a) v = r.uni(-1, 1);
  for (int i = 0; i < nvar; i++)
    for (int j = 0; j < nvar; j++)
    {
      double s = 0;
      for (int k = 0; k < nvar; k++) s += a[i * nvar + k] * a[j * nvar + k];
      if (i == j) s += 0.3;
      m[i * nvar + j] = s * scale[i] * scale[j];
    }
  for (int i = 0; i < nvar; i++)
    for (int j = 0; j < i; j++) m[i * nvar + j] = m[j * nvar + i];
  return m;
}

inline Case draw(Rng& r, bool thorough, const Options& opt = Options())
{
  Case c;
  c.ndim       = r.irange(1, 3);
  c.nvar       = r.pick(std::vector<int>{1, 1, 1, 2, 2, 3});
  int nmax     = thorough ? opt.maxN * 2 : opt.maxN;
  c.n          = r.irange(4, nmax);
  if (c.nvar == 3) c.n = std::min(c.n, nmax * 2 / 3);
  c.layout     = r.irange(0, 2);
  c.hetero     = (c.nvar > 1 && opt.allowHetero) ? r.irange(0, 3) : (opt.allowHetero && r.coin(0.25) ? r.pick(std::vector<int>{1, 3}) : 0);
  c.driftOrder = r.pick(std::vector<int>{-1, -1, 0, 0, 1, 1, 2});
  c.nfex       = (c.driftOrder >= 0 && r.coin(0.3)) ? r.irange(1, 2) : 0;
  c.verr       = opt.allowVerr && r.coin(0.3);
  c.neighKind  = (opt.allowMoving && r.coin(0.5)) ? N_MOVING : N_UNIQUE;
  c.targetKind = r.irange(0, opt.allowBlock ? 2 : 1);
  // order-2 drift: the drift value of a block is not its centre value; the documentation does not say which one is
  // meant, so block targets are generated with drift order <= 1 only (centre value == block average there)
  if (c.targetKind == T_BLOCK && c.driftOrder == 2) c.driftOrder = 1;
  // explicit list of monomials instead of a complete polynomial: the constant plus a random subset of the others
  if (c.driftOrder >= 1 && r.coin(0.25))
  {
    auto full = refk::driftBasis(c.ndim, c.driftOrder, 0);
    c.customDrift = true;
    c.customPw.push_back(full[0].pw);
    for (size_t i = 1; i < full.size(); i++)
      if (r.coin(0.5)) c.customPw.push_back(full[i].pw);
  }
  // enough data for the drift
  int nbfl = (int)c.basis().size();
  c.n      = std::max(c.n, nbfl + 3);

  c.L = r.pick(std::vector<double>{1., 10., 100.});
  c.org.resize(c.ndim);
  for (auto& o : c.org) o = r.coin(0.5) ? 0. : r.uni(-2, 2) * c.L;

  // ---- locations (distinct, with a minimum separation) ----
  refk::Data& d = c.data;
  d.ndim = c.ndim; d.nvar = c.nvar; d.nfex = c.nfex;
  double dmin = 0.2 * c.L / std::pow((double)c.n, 1.0 / c.ndim);
  std::vector<std::vector<double>> centres;
  for (int k = 0; k < 3; k++)
  {
    std::vector<double> p(c.ndim);
    for (auto& v : p) v = r.uni(0.15, 0.85);
    centres.push_back(p);
  }
  int gside = (int)std::ceil(std::pow((double)c.n, 1.0 / c.ndim));
  int tries = 0;
  while ((int)d.x.size() < c.n && tries < 200 * c.n)
  {
    tries++;
    std::vector<double> u(c.ndim);
    if (c.layout == 0)
      for (auto& v : u) v = r.u01();
    else if (c.layout == 1)
    {
      const auto& ce = centres[r.irange(0, 2)];
      for (int k = 0; k < c.ndim; k++) u[k] = ce[k] + 0.12 * r.normal();
    }
    else
    {
      int cell = (int)d.x.size() + tries - 1;
      for (int k = 0; k < c.ndim; k++)
      {
        u[k] = ((cell % gside) + 0.5 + r.uni(-0.3, 0.3)) / gside;
        cell /= gside;
      }
    }
    std::vector<double> p(c.ndim);
    for (int k = 0; k < c.ndim; k++) p[k] = c.org[k] + c.L * u[k];
    bool ok = true;
    for (auto& q : d.x)
    {
      double s = 0;
      for (int k = 0; k < c.ndim; k++) s += (p[k] - q[k]) * (p[k] - q[k]);
      if (std::sqrt(s) < dmin) { ok = false; break; }
    }
    if (ok) d.x.push_back(p);
  }
  c.n = (int)d.x.size();

  // ---- values ----
  std::vector<double> vscale(c.nvar), voff(c.nvar);
  for (int iv = 0; iv < c.nvar; iv++)
  {
    vscale[iv] = r.pick(std::vector<double>{1., 1., 5., 0.2});
    voff[iv]   = r.pick(std::vector<double>{0., 10., -3.});
  }
  d.z.assign(c.n, std::vector<double>(c.nvar));
  for (int i = 0; i < c.n; i++)
    for (int iv = 0; iv < c.nvar; iv++) d.z[i][iv] = voff[iv] + vscale[iv] * r.normal();
  // heterotopy
  if (c.hetero == 1)
  {
    double p = r.uni(0.1, 0.4);
    for (int i = 0; i < c.n; i++)
      for (int iv = 0; iv < c.nvar; iv++)
        if (r.coin(p)) d.z[i][iv] = refk::UNDEF;
  }
  else if (c.hetero == 3)
  {
    // random cells plus samples where every variable is undefined
    double p = r.uni(0.05, 0.3);
    for (int i = 0; i < c.n; i++)
    {
      bool all = r.coin(0.15);
      for (int iv = 0; iv < c.nvar; iv++)
        if (all || r.coin(p)) d.z[i][iv] = refk::UNDEF;
    }
  }
  else if (c.hetero == 2)
  {
    int sparse = r.irange(0, c.nvar - 1);
    for (int i = 0; i < c.n; i++)
      if (r.coin(0.7)) d.z[i][sparse] = refk::UNDEF;
  }
  // every variable keeps a few defined samples
  for (int iv = 0; iv < c.nvar; iv++)
  {
    int nd = 0;
    for (int i = 0; i < c.n; i++) nd += refk::defined(d.z[i][iv]);
    for (int i = 0; i < c.n && nd < std::min(c.n, nbfl + 2); i++)
      if (!refk::defined(d.z[i][iv])) { d.z[i][iv] = voff[iv] + vscale[iv] * r.normal(); nd++; }
  }
  // measurement error variances (some zero, some undefined: both mean "no error")
  if (c.verr)
  {
    d.v.assign(c.n, std::vector<double>(c.nvar));
    for (int i = 0; i < c.n; i++)
      for (int iv = 0; iv < c.nvar; iv++)
      {
        double u = r.u01();
        d.v[i][iv] = u < 0.2 ? 0. : (u < 0.3 ? refk::UNDEF : r.uni(0.05, 1.0) * vscale[iv] * vscale[iv]);
      }
  }
  // external drifts at data
  if (c.nfex > 0)
  {
    d.f.assign(c.n, std::vector<double>(c.nfex));
    for (int i = 0; i < c.n; i++)
      for (int k = 0; k < c.nfex; k++) d.f[i][k] = extDriftValue(k, d.x[i], c.org, c.L, 0.5 * r.normal());
    // a sample whose external drift is undefined cannot be used (KrigingSystem::_flagDefine "Check on the external drifts")
    if (r.coin(0.25))
    {
      c.fUndef = true;
      for (int i = 0; i < c.n; i++)
        if (r.coin(0.12)) d.f[i][r.irange(0, c.nfex - 1)] = refk::UNDEF;
    }
  }

  // ---- model ----
  struct Cand { int type; const char* name; bool hasParam; double pmin, pmax; bool intrinsic; };
  std::vector<Cand> cands = {
    {ECov::EXPONENTIAL.getValue(), "EXPONENTIAL", false, 0, 0, false}, {ECov::SPHERICAL.getValue(), "SPHERICAL", false, 0, 0, false},
    {ECov::CUBIC.getValue(), "CUBIC", false, 0, 0, false},             {ECov::GAUSSIAN.getValue(), "GAUSSIAN", false, 0, 0, false},
    {ECov::MATERN.getValue(), "MATERN", true, 0.3, 2.5, false},        {ECov::STABLE.getValue(), "STABLE", true, 0.5, 1.9, false},
    {ECov::CAUCHY.getValue(), "CAUCHY", true, 0.5, 3., false},         {ECov::EXPONENTIAL.getValue(), "EXPONENTIAL", false, 0, 0, false},
    {ECov::SPHERICAL.getValue(), "SPHERICAL", false, 0, 0, false}};
  if (c.driftOrder >= 0)
  {
    cands.push_back({ECov::LINEAR.getValue(), "LINEAR", false, 0, 0, true});
    cands.push_back({ECov::POWER.getValue(), "POWER", true, 0.4, 1.8, true});
  }
  int nst = r.irange(1, 3);
  bool nugget = r.coin(0.5);
  for (int is = 0; is < nst; is++)
  {
    const Cand& cd = r.pick(cands);
    Struct s;
    s.type = cd.type; s.name = cd.name; s.intrinsic = cd.intrinsic;
    s.param = cd.hasParam ? r.uni(cd.pmin, cd.pmax) : 1.;
    double rg = c.L * r.uni(0.15, 1.5);
    s.ranges.resize(c.ndim);
    for (auto& v : s.ranges) v = rg * r.loguni(0.2, 5.) ;
    if (c.ndim >= 2)
    {
      s.angles.assign(c.ndim, 0.);
      s.angles[0] = r.uni(0, 360);
      if (c.ndim == 3) { s.angles[1] = r.uni(-90, 90); s.angles[2] = r.uni(-90, 90); }
      if (r.coin(0.15)) s.angles.assign(c.ndim, 0.);
    }
    s.sill = spdMatrix(r, c.nvar, vscale);
    c.structs.push_back(s);
  }
  if (nugget)
  {
    Struct s;
    s.type = ECov::NUGGET.getValue(); s.name = "NUGGET";
    std::vector<double> sc = vscale;
    for (auto& v : sc) v *= 0.4;
    s.sill = spdMatrix(r, c.nvar, sc);
    c.structs.push_back(s);
  }
  c.means.resize(c.nvar);
  for (int iv = 0; iv < c.nvar; iv++) c.means[iv] = voff[iv] + r.uni(-1, 1);

  // ---- neighbourhood ----
  if (c.neighKind == N_MOVING)
  {
    c.nmaxi  = r.irange(std::max(4, nbfl + 3), std::max(nbfl + 4, std::min(c.n, 20)));
    c.nmini  = r.irange(1, 3);
    c.radius = c.L * r.uni(nbfl > 3 ? 0.9 : 0.4, 2.0);
    c.nsect  = (c.ndim >= 2 && r.coin(0.3)) ? r.irange(2, 6) : 1;
    c.nsmax  = c.nsect > 1 ? r.irange(2, 5) : ITEST;
    if (c.ndim >= 2 && r.coin(0.3))
    {
      c.ncoeffs.resize(c.ndim);
      for (auto& v : c.ncoeffs) v = r.uni(0.4, 1.);
      c.nangles.assign(c.ndim, 0.);
      c.nangles[0] = r.uni(0, 180);
    }
    // Library defect (reported under the crash key): BiTargetCheckDistance hard-codes _ndim = 2 when no anisotropy
    // coefficients are given, so a 1-D moving neighbourhood reads x[1] of a 1-coordinate point (heap overflow) and a
    // 3-D one ignores the third coordinate. Unit coefficients select the same neighbourhood by definition and make
    // the library size its work arrays from the space dimension; a small share of the 1-D cases is left without
    // coefficients so that the defect stays visible (none when AVOID_MOVING_NOCOEFF_1D is set).
    if (c.ncoeffs.empty() && c.ndim != 2)
    {
      bool keepBare = c.ndim == 3 ? r.coin(0.5) : (!AVOID_MOVING_NOCOEFF_1D && opt.allowBareMoving1D && r.coin(0.04));
      if (!keepBare) c.ncoeffs.assign(c.ndim, 1.);
    }
  }

  // ---- targets ----
  if (c.nfex > 0 && opt.allowUndefTargetDrift && r.coin(0.08)) c.tfUndefDraw = r.u01();
  int nt = r.irange(3, opt.maxTargets);
  if (c.targetKind == T_POINTS)
  {
    for (int t = 0; t < nt; t++)
    {
      std::vector<double> p(c.ndim);
      double u = r.u01();
      if (u < 0.2 && c.n > 0)
        p = d.x[r.irange(0, c.n - 1)]; // coincides with a datum
      else if (u < 0.3)
        for (int k = 0; k < c.ndim; k++) p[k] = c.org[k] + c.L * r.uni(-0.5, 1.5); // possibly outside
      else
        for (int k = 0; k < c.ndim; k++) p[k] = c.org[k] + c.L * r.u01();
      c.tx.push_back(p);
    }
  }
  else
  {
    // small grid; rotated only for point targets (the library's block discretisation is laid out along the
    // coordinate axes, which the documentation does not specify for rotated grids)
    c.gnx.resize(c.ndim); c.gdx.resize(c.ndim); c.gx0.resize(c.ndim);
    int tot = 1;
    for (int k = 0; k < c.ndim; k++)
    {
      int mx   = c.ndim == 1 ? nt : (c.ndim == 2 ? 4 : 2);
      c.gnx[k] = r.irange(1, mx);
      if (c.ndim == 3 && k == 0) c.gnx[k] = r.irange(1, 3);
      tot *= c.gnx[k];
      c.gdx[k] = c.L * r.uni(0.05, 0.3);
      c.gx0[k] = c.org[k] + c.L * r.uni(0., 0.5);
    }
    if (tot < 2) c.gnx[0] = 2;
    if (c.targetKind == T_GRID && c.ndim >= 2 && r.coin(0.6))
    {
      c.gang.assign(c.ndim, 0.);
      c.gang[0] = r.uni(0, 360);
      if (c.ndim == 3 && r.coin(0.5)) { c.gang[1] = r.uni(-60, 60); c.gang[2] = r.uni(-60, 60); }
    }
    if (c.targetKind == T_BLOCK)
    {
      c.ndiscs.resize(c.ndim);
      for (auto& v : c.ndiscs) v = r.irange(1, c.ndim == 3 ? 3 : 4);
      if (r.coin(0.3))
      {
        c.perCell = true;
        int tot2 = 1;
        for (int v : c.gnx) tot2 *= v;
        c.blex.assign(tot2, std::vector<double>(c.ndim));
        for (auto& b : c.blex)
          for (int kk = 0; kk < c.ndim; kk++) b[kk] = c.gdx[kk] * r.uni(0.3, 2.);
      }
    }
  }
  return c;
}

// ---------------------------------------------------------------------------------------------------
// Library objects
// ---------------------------------------------------------------------------------------------------
inline double toLib(double v) { return std::isnan(v) ? TEST : v; }

inline std::unique_ptr<Db> makeDataDb(const Case& c)
{
  const refk::Data& d = c.data;
  std::unique_ptr<Db> db(Db::create());
  int n = d.n();
  for (int k = 0; k < c.ndim; k++)
  {
    VectorDouble col(n);
    for (int i = 0; i < n; i++) col[i] = toLib(d.x[i][k]);
    db->addColumns(col, vh::fmt("x%d", k + 1), ELoc::X, k);
  }
  for (int iv = 0; iv < c.nvar; iv++)
  {
    VectorDouble col(n);
    for (int i = 0; i < n; i++) col[i] = toLib(d.z[i][iv]);
    db->addColumns(col, vh::fmt("z%d", iv + 1), ELoc::Z, iv);
  }
  if (!d.v.empty())
    for (int iv = 0; iv < c.nvar; iv++)
    {
      VectorDouble col(n);
      for (int i = 0; i < n; i++) col[i] = toLib(d.v[i][iv]);
      db->addColumns(col, vh::fmt("v%d", iv + 1), ELoc::V, iv);
    }
  for (int k = 0; k < c.nfex; k++)
  {
    VectorDouble col(n);
    for (int i = 0; i < n; i++) col[i] = toLib(d.f[i][k]);
    db->addColumns(col, vh::fmt("f%d", k + 1), ELoc::F, k);
  }
  return db;
}

// Build the target Db. For grids the node coordinates are read back from the DbGrid and the external drift is
// computed at those coordinates; tx / tf are filled with what the Db holds.
inline std::unique_ptr<Db> makeTargetDb(Case& c)
{
  std::unique_ptr<Db> db;
  if (c.targetKind == T_POINTS)
  {
    db.reset(Db::create());
    int m = (int)c.tx.size();
    for (int k = 0; k < c.ndim; k++)
    {
      VectorDouble col(m);
      for (int i = 0; i < m; i++) col[i] = c.tx[i][k];
      db->addColumns(col, vh::fmt("x%d", k + 1), ELoc::X, k);
    }
  }
  else
  {
    VectorInt nx(c.gnx.begin(), c.gnx.end());
    VectorDouble dx(c.gdx), x0(c.gx0), ang(c.gang);
    DbGrid* g = DbGrid::create(nx, dx, x0, ang);
    db.reset(g);
    int m = g->getSampleNumber();
    c.tx.assign(m, std::vector<double>(c.ndim));
    for (int i = 0; i < m; i++)
      for (int k = 0; k < c.ndim; k++) c.tx[i][k] = g->getCoordinate(i, k);
  }
  int m = (int)c.tx.size();
  if (c.perCell)
    for (int kk = 0; kk < c.ndim; kk++)
    {
      VectorDouble col(m);
      for (int i = 0; i < m; i++) col[i] = c.blex[i][kk];
      db->addColumns(col, vh::fmt("blex%d", kk + 1), ELoc::BLEX, kk);
    }
  if (c.nfex > 0)
  {
    if (c.tf.empty())
    {
      c.tf.assign(m, std::vector<double>(c.nfex));
      for (int i = 0; i < m; i++)
        for (int k = 0; k < c.nfex; k++)
          c.tf[i][k] = extDriftValue(k, c.tx[i], c.org, c.L, 0.1 * std::sin(12.9898 * i + 78.233 * k));
      if (c.tfUndefDraw < 1. && m > 0)
      {
        c.tfUndef = std::min(m - 1, (int)(c.tfUndefDraw * m));
        c.tf[c.tfUndef][c.nfex - 1] = refk::UNDEF;
      }
    }
    for (int k = 0; k < c.nfex; k++)
    {
      VectorDouble col(m);
      for (int i = 0; i < m; i++) col[i] = toLib(c.tf[i][k]);
      db->addColumns(col, vh::fmt("f%d", k + 1), ELoc::F, k);
    }
  }
  return db;
}

inline std::unique_ptr<Model> makeModel(const Case& c)
{
  CovContext ctxt(c.nvar, c.ndim);
  std::unique_ptr<Model> model(Model::create(ctxt));
  for (auto& s : c.structs)
  {
    VectorDouble ranges(s.ranges), sills(s.sill), angles(s.angles);
    model->addCovFromParam(ECov::fromValue(s.type), 0., 0., s.param, ranges, sills, angles);
  }
  if (c.customDrift)
  {
    for (auto& p : c.customPw)
    {
      VectorInt pw(p.begin(), p.end());
      bool allzero = true;
      for (int v : p) allzero = allzero && v == 0;
      DriftM dm = allzero ? DriftM() : DriftM(pw);
      model->addDrift(&dm);
    }
    for (int kf = 0; kf < c.nfex; kf++)
    {
      DriftF df(kf);
      model->addDrift(&df);
    }
  }
  else if (c.driftOrder >= 0)
    model->setDriftIRF(c.driftOrder, c.nfex);
  else
    model->setMeans(VectorDouble(c.means));
  return model;
}

inline std::unique_ptr<ANeigh> makeNeigh(const Case& c)
{
  if (c.neighKind == N_UNIQUE) return std::unique_ptr<ANeigh>(NeighUnique::create());
  return std::unique_ptr<ANeigh>(NeighMoving::create(false, c.nmaxi, c.radius, c.nmini, c.nsect, c.nsmax,
                                                     VectorDouble(c.ncoeffs), VectorDouble(c.nangles)));
}

// absolute uncertainty (in units of machine epsilon) of one covariance evaluation by the library: the optimised path
// rotates and scales every location before taking differences, so the reduced distance carries an error
// ~ eps |x| / range and the covariance ~ C(0) eps (1 + |x| / range)
inline double covErrOf(const Case& c)
{
  double xmax = 0, rmin = INFINITY, c0 = 0;
  for (auto& p : c.data.x) for (double v : p) xmax = std::max(xmax, std::fabs(v));
  for (auto& p : c.tx) for (double v : p) xmax = std::max(xmax, std::fabs(v));
  for (auto& s : c.structs) for (double v : s.ranges) rmin = std::min(rmin, v);
  if (!std::isfinite(rmin)) rmin = c.L;
  for (int iv = 0; iv < c.nvar; iv++)
  {
    double t = 0;
    for (auto& s : c.structs) t += std::fabs(s.sill[iv * c.nvar + iv]) * (s.intrinsic ? (1 + 3 * c.L * std::sqrt((double)c.ndim) * 3 / rmin) : 1.);
    c0 = std::max(c0, t);
  }
  return c0 * (4. + 2. * (xmax + c.L) / rmin);
}

// compact JSON description of a case (evidence sample / replay reading aid); the case itself is reproducible from
// (seed, index)
inline std::string describe(const Case& c)
{
  std::string o = "{\"structs\":[";
  for (size_t i = 0; i < c.structs.size(); i++)
  {
    const Struct& s = c.structs[i];
    if (i) o += ",";
    o += "{\"type\":" + vh::jstr(s.name) + ",\"param\":" + vh::jnum(s.param) + ",\"ranges\":" + vh::jvec(s.ranges) +
         ",\"angles\":" + vh::jvec(s.angles) + ",\"sill\":" + vh::jvec(s.sill) + "}";
  }
  o += "],\"means\":" + vh::jvec(c.means) + ",\"L\":" + vh::jnum(c.L) + ",\"origin\":" + vh::jvec(c.org);
  if (c.neighKind == N_MOVING)
    o += ",\"moving\":{\"nmaxi\":" + std::to_string(c.nmaxi) + ",\"nmini\":" + std::to_string(c.nmini) + ",\"nsect\":" +
         std::to_string(c.nsect) + ",\"radius\":" + vh::jnum(c.radius) + ",\"coeffs\":" + vh::jvec(c.ncoeffs) + ",\"angles\":" +
         vh::jvec(c.nangles) + "}";
  if (c.targetKind != T_POINTS)
    o += ",\"grid\":{\"nx\":" + vh::jvec(c.gnx) + ",\"dx\":" + vh::jvec(c.gdx) + ",\"x0\":" + vh::jvec(c.gx0) + ",\"angles\":" +
         vh::jvec(c.gang) + ",\"ndiscs\":" + vh::jvec(c.ndiscs) + "}";
  if (c.customDrift)
  {
    o += ",\"monomials\":[";
    for (size_t i = 0; i < c.customPw.size(); i++) o += (i ? "," : "") + vh::jvec(c.customPw[i]);
    o += "]";
  }
  o += ",\"x\":[";
  for (int i = 0; i < c.data.n() && i < 4; i++) o += (i ? "," : "") + vh::jvec(c.data.x[i]);
  o += "],\"z\":[";
  for (int i = 0; i < c.data.n() && i < 4; i++) o += (i ? "," : "") + vh::jvec(c.data.z[i]);
  o += "]}";
  return o;
}

// Reference description of target 'it' (centre, external drift, block discretisation)
inline refk::Target refTarget(const Case& k, int it, const DbGrid* grid)
{
  refk::Target t;
  t.x = k.tx[it];
  if (k.nfex > 0) t.f = k.tf[it];
  if (k.targetKind == T_BLOCK)
  {
    // first discretisation: regular, centred sub-cells of the grid mesh, built here from the mesh sizes
    int ndim = k.ndim, tot = 1;
    for (int v : k.ndiscs) tot *= v;
    for (int i = 0; i < tot; i++)
    {
      std::vector<double> off(ndim);
      int rest = i;
      for (int d = 0; d < ndim; d++)
      {
        int j  = rest % k.ndiscs[d];
        rest  /= k.ndiscs[d];
        off[d] = (k.perCell ? k.blex[it][d] : k.gdx[d]) * ((j + 0.5) / k.ndiscs[d] - 0.5);
      }
      t.disc1.push_back(off);
    }
    // second discretisation (block variance only): the library randomises it inside each sub-cell with its own
    // generator (DbGrid::getDiscretizedBlock(..., flagRandom = true, seed = 1234546), see KrigingSystem::_blockDiscretize);
    // the points are taken from that public geometric helper, the covariances are still evaluated here.
    VectorVectorDouble d2 = grid->getDiscretizedBlock(VectorInt(k.ndiscs.begin(), k.ndiscs.end()), it, k.perCell, true, 1234546);
    for (int i = 0; i < (int)d2.size(); i++) t.disc2.push_back(d2[i].getVector());
  }
  return t;
}


inline void setSpace(int ndim) { defineDefaultSpace(ESpaceType::RN, ndim); }

} // namespace kg
