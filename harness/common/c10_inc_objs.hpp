// C10 part 2: incremental objects (Model, NeighMoving, KrigingSystem, Vario, dense matrices, Db) vs fresh twins.
// The verdict rests on the ANSWERS; cache state is recorded in the detail as a diagnostic only.
#pragma once
#include "common/vh.hpp"
#include "common/c10_util.hpp"
#include "common/c10_world.hpp"
#include "Estimation/KrigingSystem.hpp"
#include "Enum/EKrigOpt.hpp"
#include "Enum/ECalcVario.hpp"
#include "Matrix/MatrixSparse.hpp"

namespace c10i
{
using namespace c10w;
using vh::Ctx;
using vh::fmt;

static const char* const STALE_OPTIM    = "C10:stale-cache:evalCovMatrixOptim-after-failed-request";
static const char* const STALE_SYMOPTIM = "C10:stale-cache:evalCovMatrixSymmetricOptim-after-failed-request";

// max |a-b| over two matrices; INFINITY when the shapes differ
inline double matDiff(const AMatrix& a, const AMatrix& b, double* scale)
{
  if (a.getNRows() != b.getNRows() || a.getNCols() != b.getNCols()) return INFINITY;
  double e = 0;
  for (int j = 0; j < a.getNCols(); j++)
    for (int i = 0; i < a.getNRows(); i++)
    {
      double x = a.getValue(i, j, false), y = b.getValue(i, j, false);
      *scale   = std::max(*scale, std::fabs(y));
      if (std::isnan(x) || std::isnan(y)) { if (std::isnan(x) != std::isnan(y)) e = INFINITY; continue; }
      e = std::max(e, std::fabs(x - y));
    }
  return e;
}
inline double vecDiff(const std::vector<double>& a, const std::vector<double>& b, double* scale)
{
  if (a.size() != b.size()) return INFINITY;
  double e = 0;
  for (size_t i = 0; i < a.size(); i++)
  {
    *scale = std::max(*scale, std::fabs(b[i]) < 1e29 ? std::fabs(b[i]) : 0.);
    if (std::isnan(a[i]) || std::isnan(b[i])) { if (std::isnan(a[i]) != std::isnan(b[i])) e = INFINITY; continue; }
    e = std::max(e, std::fabs(a[i] - b[i]));
  }
  return e;
}

// =================================================================================================== Model
struct CovSpec
{
  const ECov* type;
  VectorDouble ranges; // always two ranges
  double angle;
  double param;
  double sill;
  bool filtered = false;
};
struct ModelShadow
{
  std::vector<CovSpec> covs;
  int drift = -1;
  double mean = 0;
};
inline CovSpec drawCov(Rng& r, bool allowNugget)
{
  CovSpec s;
  s.type   = (allowNugget && r.coin(0.2)) ? &ECov::NUGGET : &pickCov(r);
  double g = r.uni(10, 45);
  s.ranges = VectorDouble({g, r.coin(0.5) ? g : g * r.uni(0.25, 0.9)});
  s.angle  = r.coin(0.5) ? 0. : r.uni(10, 170);
  s.param  = (*s.type == ECov::MATERN) ? r.uni(0.5, 2.) : 1.;
  s.sill   = r.uni(0.5, 3);
  return s;
}
inline void addSpec(Model* m, const CovSpec& s)
{
  if (*s.type == ECov::NUGGET) m->addCovFromParam(ECov::NUGGET, 0., s.sill);
  else m->addCovFromParam(*s.type, 0., s.sill, s.param, s.ranges, VectorDouble(), VectorDouble({s.angle, 0.}));
}
inline UModel buildModel(const ModelShadow& sh)
{
  UModel m(Model::createFromParam(ECov::NUGGET, 1., 1.));
  m->delAllCovas();
  for (auto& s : sh.covs) addSpec(m.get(), s);
  for (size_t i = 0; i < sh.covs.size(); i++)
    if (sh.covs[i].filtered) m->setCovaFiltered((int)i, true);
  if (sh.drift >= 0) m->setDriftIRF(sh.drift);
  else m->setMeans(VectorDouble({sh.mean}));
  return m;
}

inline void runModel(Rng& r, Ctx& c)
{
  // a few data bases the requests are made on
  std::vector<UDb> dbs;
  for (int k = 0; k < 3; k++)
  {
    DbSpec s;
    s.n   = r.irange(4, 14);
    s.sel = (k == 1) ? 0.3 : 0.;
    dbs.push_back(mkDb(r, s));
  }
  DbSpec ms;
  ms.n   = r.irange(15, 20); // more samples than any other Db: a stale projection is then wrong, not out of bounds
  ms.sel = 1.; // every sample masked: any matrix request on it fails ("does not have any valid sample")
  UDb masked = mkDb(r, ms);

  ModelShadow sh;
  int ncov0 = r.irange(1, 2);
  for (int k = 0; k < ncov0; k++) sh.covs.push_back(drawCov(r, k == 0));
  sh.drift = r.irange(-1, 1);
  sh.mean  = r.uni(-2, 2);
  UModel M = buildModel(sh);
  c.setSig(fmt("inc:model:ncov=%d:drift=%d", ncov0, sh.drift));

  std::string hist, lastFailed, lastFailedOptim;
  auto note = [&](const std::string& s) { if (hist.size() < 700) hist += (hist.empty() ? "" : ",") + s; };
  int nsteps = c.thorough() ? r.irange(10, 40) : r.irange(6, 20);
  for (int st = 0; st < nsteps; st++)
  {
    int ncov = (int)sh.covs.size();
    if (r.coin(0.45))
    {
      // ------------------------------------------------------------ an edit, mirrored in the shadow
      int w = r.irange(0, 9);
      int ic = r.irange(0, ncov - 1);
      CovSpec& cs = sh.covs[ic];
      bool nug    = (*cs.type == ECov::NUGGET);
      if (w == 0 && ncov < 4) { CovSpec s = drawCov(r, false); sh.covs.push_back(s); addSpec(M.get(), s); note("addCovFromParam"); }
      else if (w == 1 && ncov > 1) { sh.covs.erase(sh.covs.begin() + ic); M->delCova(ic); note("delCova"); }
      else if (w == 2) { cs.sill = r.uni(0.5, 4); M->setSill(ic, 0, 0, cs.sill); note("setSill"); }
      else if (w == 3 && !nug) { double g = r.uni(8, 50); cs.ranges = VectorDouble({g, g}); M->setRangeIsotropic(ic, g); note("setRangeIsotropic"); }
      else if (w == 4 && !nug) { cs.ranges = VectorDouble({r.uni(8, 50), r.uni(8, 50)}); M->getCova(ic)->setRanges(cs.ranges); note("cova.setRanges"); }
      else if (w == 5 && !nug) { cs.angle = r.uni(0, 180); M->getCova(ic)->setAnisoAngles(VectorDouble({cs.angle, 0.})); note("cova.setAnisoAngles"); }
      else if (w == 6 && *cs.type == ECov::MATERN)
      {
        // setParam keeps the SCALE (the practical range moves with the parameter): the ranges are given again so that
        // the final content is the one the twin is built with
        cs.param = r.uni(0.5, 2.);
        M->getCova(ic)->setParam(cs.param);
        M->getCova(ic)->setRanges(cs.ranges);
        note("cova.setParam+setRanges");
      }
      else if (w == 7) { sh.drift = r.irange(0, 2); M->setDriftIRF(sh.drift); note("setDriftIRF"); }
      else if (w == 8) { sh.drift = -1; M->delAllDrifts(); sh.mean = r.uni(-2, 2); M->setMeans(VectorDouble({sh.mean})); note("delAllDrifts+setMeans"); }
      else if (w == 9 && ncov > 1) { cs.filtered = !cs.filtered; M->setCovaFiltered(ic, cs.filtered); note("setCovaFiltered"); }
      continue;
    }
    // -------------------------------------------------------------- a request
    int q = r.irange(0, 9);
    if (q >= 8)
    {
      // a request that FAILS: must leave no trace
      int f = r.irange(0, 3);
      if (f == 0) { MatrixRectangular m = M->evalCovMatrixOptim(masked.get()); lastFailed = "evalCovMatrixOptim(all-masked)"; c.truth("model-fail", "C10:incremental:Model:request-on-masked-db-does-not-fail", m.getNRows() == 0, hist); }
      else if (f == 1) { MatrixSquareSymmetric m = M->evalCovMatrixSymmetricOptim(masked.get()); lastFailed = "evalCovMatrixSymmetricOptim(all-masked)"; c.truth("model-fail", "C10:incremental:Model:request-on-masked-db-does-not-fail", m.getNRows() == 0, hist); }
      else if (f == 2) { MatrixRectangular m = M->evalCovMatrixOptim(dbs[0].get(), masked.get()); lastFailed = "evalCovMatrixOptim(db,all-masked)"; c.truth("model-fail", "C10:incremental:Model:request-on-masked-db-does-not-fail", m.getNRows() == 0, hist); }
      else { MatrixRectangular m = M->evalCovMatrix(dbs[0].get(), nullptr, 3, 3); lastFailed = "evalCovMatrix(ivar-out-of-range)"; }
      if (f <= 2) lastFailedOptim = lastFailed;
      note("FAILED:" + lastFailed);
      continue;
    }
    Db* d1 = dbs[r.irange(0, 2)].get();
    Db* d2 = dbs[r.irange(0, 2)].get();
    UModel T = buildModel(sh); // fresh twin with the same final content
    double scale = 1, err = 0;
    std::string req;
    bool cache = M->getCovaNumber() > 0 && M->getCova(0)->isOptimizationInitialized(); // diagnostic, BEFORE the request
    std::string exc;
    bool emptyResult = false;
    try
    {
    if (q == 0) { req = "evalCovMatrixSymmetric"; err = matDiff(M->evalCovMatrixSymmetric(d1), T->evalCovMatrixSymmetric(d1), &scale); }
    else if (q == 1) { req = "evalCovMatrix"; err = matDiff(M->evalCovMatrix(d1, d2), T->evalCovMatrix(d1, d2), &scale); }
    else if (q == 2)
    {
      req = "evalCovMatrixOptim";
      MatrixRectangular a = M->evalCovMatrixOptim(d1, d2);
      err = matDiff(a, T->evalCovMatrixOptim(d1, d2), &scale);
      emptyResult = (a.getNRows() == 0); // a selection that happens to mask every sample: the request failed
    }
    else if (q == 3)
    {
      req = "evalCovMatrixSymmetricOptim";
      MatrixSquareSymmetric a = M->evalCovMatrixSymmetricOptim(d1);
      err = matDiff(a, T->evalCovMatrixSymmetricOptim(d1), &scale);
      emptyResult = (a.getNRows() == 0);
    }
    else if (q == 4)
    {
      req = "evalDriftMatrix";
      err = matDiff(M->evalDriftMatrix(d1), T->evalDriftMatrix(d1), &scale);
    }
    else if (q == 5)
    {
      req = "evalCov";
      VectorDouble h({r.uni(-30, 30), r.uni(-30, 30)});
      double a = M->evalCov(h), b = T->evalCov(h);
      scale = std::max(1., std::fabs(b));
      err   = std::fabs(a - b);
    }
    else if (q == 6)
    {
      req = "evalCovMatrixSparse";
      std::unique_ptr<MatrixSparse> a(M->evalCovMatrixSparse(d1, d2)), b(T->evalCovMatrixSparse(d1, d2));
      if (!a || !b) err = (!a && !b) ? 0. : INFINITY;
      else err = matDiff(*a, *b, &scale);
    }
    else
    {
      req = "eval0+getTotalSill";
      double a = M->eval0() + M->getTotalSill(), b = T->eval0() + T->getTotalSill();
      scale = std::max(1., std::fabs(b));
      err   = std::fabs(a - b);
    }
    }
    catch (const std::exception& e)
    {
      // an exception out of a covariance-matrix request is reported as a failed comparison (same key logic): seen when
      // a stale projection holds the "undefined" coordinates of masked samples (distance 1e30 -> Bessel function throws)
      exc = e.what();
      err = INFINITY;
    }
    note(req);
    // same construction path cannot always be used for the twin (setSill after creation vs sill at creation): the
    // stored numbers are the same, the tolerance only absorbs re-association in rotation/scale bookkeeping.
    double tol = 1e-10 * scale;
    std::string key = "C10:incremental:Model:" + req;
    // lastFailedOptim: the last failed optimised request not yet followed by an optimised request that ran to its end
    if (!lastFailedOptim.empty()) key = lastFailedOptim.find("evalCovMatrixOptim") == 0 ? STALE_OPTIM : STALE_SYMOPTIM;
    else if (!lastFailed.empty()) key += ":after-failed:" + lastFailed;
    c.check("model-twin", key, err <= tol, err, tol,
            req + (exc.empty() ? "" : " threw '" + exc + "'") + fmt(" (diagnostic: optimisation cache %s) history: ", cache ? "SET" : "empty") + hist);
    if (!lastFailed.empty() || !lastFailedOptim.empty()) c.probe("model-request-after-failed-request");
    if ((q == 2 || q == 3) && exc.empty()) lastFailedOptim.clear(); // an optimised request that runs to its end post-processes the cache
    if (emptyResult) { lastFailedOptim = req + "(no-active-sample)"; note("FAILED:" + lastFailedOptim); }
  }
  c.puts("history", hist);
}

// =================================================================================================== NeighMoving
struct NeighSpec
{
  int nmaxi, nmini, nsect, nsmax;
  double radius;
  bool aniso;
  double ratio, angle;
  bool xvalid, ball;
};
inline NeighSpec drawNeigh(Rng& r)
{
  NeighSpec s;
  s.nmaxi  = r.irange(2, 8);
  s.nmini  = r.irange(1, 2);
  s.nsect  = r.coin(0.4) ? r.irange(2, 6) : 1;
  s.nsmax  = r.irange(1, 3);
  s.radius = r.uni(25, 80);
  s.aniso  = r.coin(0.4);
  s.ratio  = r.uni(0.3, 0.9);
  s.angle  = r.uni(10, 170);
  s.xvalid = false;
  s.ball   = r.coin(0.3);
  return s;
}
inline NeighMoving* mkNeigh(const NeighSpec& s)
{
  NeighMoving* n = NeighMoving::create(s.xvalid, s.nmaxi, s.radius, s.nmini, s.nsect, s.nsmax,
                                       s.aniso ? VectorDouble({1., s.ratio}) : VectorDouble(),
                                       s.aniso ? VectorDouble({s.angle, 0.}) : VectorDouble());
  if (s.ball) n->setBallSearch(true, 5);
  return n;
}
inline void runNeigh(Rng& r, Ctx& c)
{
  DbSpec ds;
  ds.n   = r.irange(15, 60);
  ds.sel = r.coin(0.3) ? 0.2 : 0.;
  UDb in = mkDb(r, ds);
  DbSpec ts;
  ts.n    = r.irange(3, 10);
  ts.nvar = 0;
  UDb out = mkDb(r, ts);
  NeighSpec ns = drawNeigh(r);
  c.setSig(fmt("inc:neigh:nsect=%d:aniso=%d:ball=%d:sel=%d", ns.nsect > 1, ns.aniso, ns.ball, ds.sel > 0));
  std::unique_ptr<NeighMoving> N(mkNeigh(ns));
  N->attach(in.get(), out.get());
  int nq = c.thorough() ? 60 : 25;
  int prev = -1;
  std::string seq;
  for (int k = 0; k < nq; k++)
  {
    // random order with repeats (the same target twice in a row exercises the memo of the previous neighbourhood)
    int t = (prev >= 0 && r.coin(0.25)) ? prev : r.irange(0, ts.n - 1);
    prev  = t;
    VectorInt ranks;
    N->select(t, ranks);
    bool unchanged = N->isUnchanged(); // diagnostic
    std::unique_ptr<NeighMoving> F(mkNeigh(ns));
    F->attach(in.get(), out.get());
    VectorInt want;
    F->select(t, want);
    seq += (seq.empty() ? "" : ",") + std::to_string(t);
    c.truth("neigh-twin", "C10:incremental:NeighMoving:select-differs-from-fresh-neighbourhood", ranks.getVector() == want.getVector(),
            fmt("target %d (memo says unchanged=%d) sequence ", t, unchanged) + seq);
    if (unchanged) c.probe("neigh-memo-unchanged");
  }
}

// =================================================================================================== KrigingSystem
inline void runKsys(Rng& r, Ctx& c)
{
  DbSpec ds;
  ds.n      = r.irange(10, 35);
  ds.nvar   = r.coin(0.75) ? 1 : 2;
  ds.hetero = (ds.nvar == 2 && r.coin(0.5)) ? 0.2 : 0.;
  ds.verr   = r.coin(0.15);
  UDb in    = mkDb(r, ds);
  DbSpec ts;
  ts.n    = r.irange(4, 9);
  ts.nvar = 0;
  uint64_t tseed = r.next();
  auto mkOut = [&]() { Rng q(tseed); return mkDb(q, ts); };
  ModelSpec ms;
  ms.nvar  = ds.nvar;
  ms.drift = r.irange(-1, 1);
  UModel model = mkModel(r, ms);
  bool moving  = r.coin(0.7);
  NeighSpec ns = drawNeigh(r);
  ns.nmaxi     = r.irange(3, 8);
  ns.radius    = 150; // always enough samples
  ns.nsect     = 1;
  bool flagStd0 = r.coin(0.7), flagVarz = r.coin(0.4);
  c.setSig(fmt("inc:ksys:nvar=%d:hetero=%d:verr=%d:drift=%d:neigh=%s:std0=%d", ds.nvar, ds.hetero > 0, ds.verr, ms.drift, moving ? "moving" : "unique", flagStd0));
  int nvar = ds.nvar;

  auto mkN = [&]() -> ANeigh* { return moving ? (ANeigh*)mkNeigh(ns) : (ANeigh*)NeighUnique::create(); };

  UDb out = mkOut();
  std::unique_ptr<ANeigh> N(mkN());
  // two banks of output columns; updKrigOptEstim switches between them ("do not require isReady() validation")
  int est[2], std_[2], varz[2];
  for (int b = 0; b < 2; b++)
  {
    est[b]  = out->addColumnsByConstant(nvar, TEST, fmt("est%d", b));
    std_[b] = out->addColumnsByConstant(nvar, TEST, fmt("std%d", b));
    varz[b] = out->addColumnsByConstant(nvar, TEST, fmt("varz%d", b));
  }
  KrigingSystem K(in.get(), out.get(), model.get(), N.get());
  int bank = 0;
  bool useStd = flagStd0, useVarz = flagVarz;
  if (K.updKrigOptEstim(est[0], useStd ? std_[0] : -1, useVarz ? varz[0] : -1) || K.setKrigOptCalcul(EKrigOpt::POINT) || !K.isReady())
  {
    c.skip("ksys-not-ready");
    return;
  }
  int nq = c.thorough() ? 30 : 12;
  int prev = -1;
  std::string seq;
  for (int k = 0; k < nq; k++)
  {
    if (r.coin(0.3))
    {
      bank = 1 - bank;
      // the standard deviation can only be switched OFF later (isReady() precomputes the target variance only when
      // it was asked at that time: switching it ON afterwards is not claimed by the header comment)
      if (useStd && r.coin(0.3)) useStd = false;
      else if (flagStd0 && r.coin(0.5)) useStd = true;
      useVarz = r.coin(0.5);
      (void)K.updKrigOptEstim(est[bank], useStd ? std_[bank] : -1, useVarz ? varz[bank] : -1);
      seq += ",upd";
    }
    int t = (prev >= 0 && r.coin(0.25)) ? prev : r.irange(0, ts.n - 1);
    prev  = t;
    int rc = K.estimate(t);
    seq += (seq.empty() ? "" : ",") + std::to_string(t);
    std::vector<double> got;
    for (int iv = 0; iv < nvar; iv++)
    {
      got.push_back(out->getArray(t, est[bank] + iv));
      got.push_back(useStd ? out->getArray(t, std_[bank] + iv) : 0.);
      got.push_back(useVarz ? out->getArray(t, varz[bank] + iv) : 0.);
    }
    VectorInt nbgh = K.getSampleIndices();

    // fresh twin: new Db, new neighbourhood, new system, this target only
    UDb out2 = mkOut();
    std::unique_ptr<ANeigh> N2(mkN());
    int e2 = out2->addColumnsByConstant(nvar, TEST, "est");
    int s2 = out2->addColumnsByConstant(nvar, TEST, "std");
    int v2 = out2->addColumnsByConstant(nvar, TEST, "varz");
    std::vector<double> want;
    int rc2 = -1;
    VectorInt nbgh2;
    {
      KrigingSystem K2(in.get(), out2.get(), model.get(), N2.get());
      if (K2.updKrigOptEstim(e2, useStd ? s2 : -1, useVarz ? v2 : -1) || K2.setKrigOptCalcul(EKrigOpt::POINT) || !K2.isReady()) { c.skip("ksys-twin-not-ready"); K2.conclusion(); continue; }
      rc2 = K2.estimate(t);
      for (int iv = 0; iv < nvar; iv++)
      {
        want.push_back(out2->getArray(t, e2 + iv));
        want.push_back(useStd ? out2->getArray(t, s2 + iv) : 0.);
        want.push_back(useVarz ? out2->getArray(t, v2 + iv) : 0.);
      }
      nbgh2 = K2.getSampleIndices();
      K2.conclusion();
    }
    double scale = 1;
    double err   = vecDiff(got, want, &scale);
    if (rc != rc2) err = INFINITY;
    double tol = 1e-9 * scale;
    c.check("ksys-twin", std::string("C10:incremental:KrigingSystem:estimate-differs-from-fresh-system:") + (moving ? "moving" : "unique"), err <= tol, err, tol,
            fmt("target %d rc=%d/%d nbgh %d/%d (memo unchanged=%d) std=%d varz=%d sequence ", t, rc, rc2, (int)nbgh.size(), (int)nbgh2.size(), N->isUnchanged(), useStd, useVarz) + seq);
    c.truth("ksys-twin-nbgh", "C10:incremental:KrigingSystem:neighbourhood-differs-from-fresh-system", nbgh.getVector() == nbgh2.getVector(), seq);
  }
  K.conclusion();
}

// =================================================================================================== Vario
inline void runVario(Rng& r, Ctx& c)
{
  DbSpec ds;
  ds.n    = r.irange(12, 40);
  ds.nvar = r.coin(0.7) ? 1 : 2;
  ds.sel  = r.coin(0.3) ? 0.2 : 0.;
  UDb db1 = mkDb(r, ds);
  ds.n    = r.irange(12, 40);
  UDb db2 = mkDb(r, ds);
  VarioParam vp = mkVarioParam(r);
  c.setSig(fmt("inc:vario:nvar=%d:ndir=%d:sel=%d", ds.nvar, vp.getDirectionNumber(), ds.sel > 0));
  UVario V(Vario::create(vp));
  // COVARIOGRAM (and flag_sample=true) run Vario::_calculateGeneralSolution2. Until /repo commit c04485d4d that
  // function read the FILE-STATIC direction index IDIRLOC left by whatever variogram was computed before in the
  // process (Vario.cpp:37), so results depended on the process history and on the worker's previous cases (found by
  // c10_history as C10:history:process-dies:variogram-computation->vario-by-sample). Switch kept for such a regression.
  static const bool AVOID_VARIO_BY_SAMPLE = false;
  static const ECalcVario* CALC[] = {&ECalcVario::VARIOGRAM, &ECalcVario::COVARIANCE, &ECalcVario::MADOGRAM, &ECalcVario::COVARIOGRAM};
  const int ncalc = AVOID_VARIO_BY_SAMPLE ? 3 : 4;
  std::string hist, prevCalc;
  bool failedBetween = false;
  int nst = c.thorough() ? 8 : 4;
  for (int k = 0; k < nst; k++)
  {
    Db* d               = r.coin() ? db1.get() : db2.get();
    const ECalcVario& cv = *CALC[r.irange(0, ncalc - 1)];
    bool failing        = r.coin(0.15);
    if (failing)
    {
      // a computation that fails (no variable defined): the object then has to be computable again as if new
      UDb e = mkDb(r, DbSpec{5, 0});
      int rc = V->compute(e.get(), cv);
      hist += fmt(",FAILED-compute(rc=%d)", rc);
      failedBetween = true;
      continue;
    }
    int rc = V->compute(d, cv);
    UVario F(Vario::create(vp));
    int rc2 = F->compute(d, cv);
    hist += "," + std::string(cv.getKey()) + (d == db1.get() ? "@1" : "@2");
    std::string trans = (prevCalc.empty() ? std::string("first") : prevCalc) + "->" + std::string(cv.getKey()) + (failedBetween ? ":after-failed-compute" : "");
    prevCalc      = cv.getKey();
    failedBetween = false;
    std::string a = digOf([&](Dig& g) { g.i(rc); digVario(g, V.get()); });
    std::string b = digOf([&](Dig& g) { g.i(rc2); digVario(g, F.get()); });
    // same code on the same numbers: bit-for-bit
    c.truth("vario-twin", "C10:incremental:Vario:recompute-differs-from-fresh-object", a == b, trans + " in " + hist);
    if (trans.find("first") != 0) c.probe("vario-recompute");
  }
}

// =================================================================================================== dense matrices
inline void runMatrix(Rng& r, Ctx& c)
{
  int n = r.irange(2, 7);
  c.setSig(fmt("inc:matrix:n=%d", n));
  auto fill = [&](MatrixSquareSymmetric& m, Rng& q) {
    for (int i = 0; i < n; i++)
      for (int j = 0; j <= i; j++) m.setValue(i, j, q.uni(-1, 1) + (i == j ? n + 1. : 0.));
  };
  MatrixSquareSymmetric M(n);
  uint64_t s0 = r.next();
  { Rng q(s0); fill(M, q); }
  std::string hist;
  std::vector<std::array<double, 3>> edits; // (i, j, value) applied after the initial fill
  int nst = c.thorough() ? 12 : 6;
  for (int k = 0; k < nst; k++)
  {
    int w = r.irange(0, 3);
    if (w == 0)
    {
      int i = r.irange(0, n - 1), j = r.irange(0, i);
      double v = r.uni(-1, 1) + (i == j ? n + 1. : 0.);
      M.setValue(i, j, v);
      edits.push_back({(double)i, (double)j, v});
      hist += ",setValue";
      continue;
    }
    // fresh twin with the same content
    MatrixSquareSymmetric F(n);
    { Rng q(s0); fill(F, q); }
    for (auto& e : edits) F.setValue((int)e[0], (int)e[1], e[2]);
    if (w == 1)
    {
      int rc = M.computeEigen(), rc2 = F.computeEigen();
      hist += ",computeEigen";
      double sc = 1;
      double err = vecDiff(M.getEigenValues().getVector(), F.getEigenValues().getVector(), &sc);
      if (rc != rc2) err = INFINITY;
      if (err == 0 && M.getEigenVectors() && F.getEigenVectors()) err = matDiff(*M.getEigenVectors(), *F.getEigenVectors(), &sc);
      c.check("matrix-twin", "C10:incremental:MatrixSquareSymmetric:computeEigen-after-modification", err <= 1e-12 * sc, err, 1e-12 * sc, hist);
    }
    else if (w == 2)
    {
      // invert a copy (the matrix itself keeps its content): the copy is taken from a matrix that may hold an eigen memo
      MatrixSquareSymmetric A(M), B(F);
      int rc = A.invert(), rc2 = B.invert();
      hist += ",copy.invert";
      double sc = 1;
      double err = matDiff(A, B, &sc);
      if (rc != rc2) err = INFINITY;
      c.check("matrix-twin", "C10:incremental:MatrixSquareSymmetric:invert-of-copy-after-eigen", err <= 1e-12 * sc, err, 1e-12 * sc, hist);
    }
    else
    {
      VectorDouble x(n);
      for (auto& v : x) v = r.uni(-1, 1);
      double sc = 1;
      double err = vecDiff(M.prodMatVec(x).getVector(), F.prodMatVec(x).getVector(), &sc);
      hist += ",prodMatVec";
      c.check("matrix-twin", "C10:incremental:MatrixSquareSymmetric:prodMatVec-after-modification", err <= 1e-13 * sc, err, 1e-13 * sc, hist);
    }
  }
}

// =================================================================================================== Db edited vs rebuilt
inline std::string dbAnswers(Db* d)
{
  // answers that do not depend on UIDs (a rebuilt Db numbers its columns afresh)
  return digOf([&](Dig& g) {
    int ncol = d->getColumnNumber();
    g.i(d->getSampleNumber(false));
    g.i(d->getSampleNumber(true));
    g.i(ncol);
    for (int ic = 0; ic < ncol; ic++)
    {
      g.s(d->getNameByColIdx(ic));
      ELoc lt;
      int li;
      bool has = d->getLocatorByColIdx(ic, &lt, &li);
      g.i(has);
      if (has) { g.i(lt.getValue()); g.i(li); }
      digVD(g, d->getColumnByColIdx(ic, false));
      digVD(g, d->getColumnByColIdx(ic, true));
    }
    g.i(d->getLocatorNumber(ELoc::Z));
    g.i(d->getNDim());
    if (d->getNDim() > 0 && d->getSampleNumber(true) > 0) { digVD(g, d->getExtrema(0, true)); }
    for (int iv = 0; iv < d->getLocatorNumber(ELoc::Z); iv++) g.i(d->getActiveAndDefinedNumber(iv));
  });
}
inline void runDb(Rng& r, Ctx& c)
{
  DbSpec s;
  s.n    = r.irange(4, 20);
  s.nvar = r.irange(1, 2);
  s.sel  = r.coin(0.4) ? 0.3 : 0.;
  UDb D  = mkDb(r, s);
  c.setSig(fmt("inc:db:nvar=%d:sel=%d", s.nvar, s.sel > 0));
  std::string hist;
  int nst = c.thorough() ? 14 : 7;
  int serial = 0;
  for (int k = 0; k < nst; k++)
  {
    int w    = r.irange(0, 9);
    int ncol = D->getColumnNumber(), n = D->getSampleNumber();
    if (w == 0) { D->setArray(r.irange(0, n - 1), D->getUIDByColIdx(r.irange(0, ncol - 1)), r.uni(-5, 5)); hist += ",setArray"; }
    else if (w == 1) { D->addColumnsByConstant(1, r.uni(-1, 1), fmt("c%d", serial++)); hist += ",addColumnsByConstant"; }
    else if (w == 2 && ncol > 4) { D->deleteColumnByColIdx(r.irange(3, ncol - 1)); hist += ",deleteColumnByColIdx"; }
    else if (w == 3) { D->setNameByColIdx(r.irange(1, ncol - 1), fmt("n%d", serial++)); hist += ",setNameByColIdx"; }
    else if (w == 4) { D->setLocatorByColIdx(r.irange(3, ncol - 1), r.coin() ? ELoc::Z : ELoc::F, r.irange(0, 1)); hist += ",setLocatorByColIdx"; }
    else if (w == 5) { VectorDouble t(n); for (auto& x : t) x = r.coin(0.7); D->addSelection(t, fmt("s%d", serial++)); hist += ",addSelection"; }
    else if (w == 6 && n > 3) { D->deleteSample(r.irange(0, n - 1)); hist += ",deleteSample"; }
    else if (w == 7) { D->addSamples(r.irange(1, 2), r.uni(0, 1)); hist += ",addSamples"; }
    else if (w == 8) { D->clearLocators(r.coin() ? ELoc::SEL : ELoc::Z); hist += ",clearLocators"; }
    else if (w == 9) { VectorDouble t(n); for (auto& x : t) x = r.uni(-3, 3); D->setColumnByColIdx(t, r.irange(0, ncol - 1)); hist += ",setColumnByColIdx"; }
    else continue;
    // rebuild from the final table: same names, same values, same locators, in column order
    ncol = D->getColumnNumber();
    n    = D->getSampleNumber();
    std::vector<double> tab;
    VectorString names;
    for (int ic = 0; ic < ncol; ic++)
    {
      VectorDouble col = D->getColumnByColIdx(ic, false);
      tab.insert(tab.end(), col.getVector().begin(), col.getVector().end());
      names.push_back(D->getNameByColIdx(ic));
    }
    UDb R(Db::createFromSamples(n, ELoadBy::COLUMN, VectorDouble(tab), names, VectorString(), false));
    for (int ic = 0; ic < ncol; ic++)
    {
      ELoc lt;
      int li;
      if (D->getLocatorByColIdx(ic, &lt, &li)) R->setLocatorByColIdx(ic, lt, li);
      else R->setLocatorByColIdx(ic, ELoc::UNKNOWN, 0);
    }
    c.truth("db-twin", "C10:incremental:Db:edited-differs-from-rebuilt", dbAnswers(D.get()) == dbAnswers(R.get()), hist);
  }
}
} // namespace c10i
