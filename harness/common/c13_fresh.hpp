// C13 helper: run a computation in a *pristine* process.
//
// A "zygote" is forked at the very beginning of main(), before the harness has called anything in the library, and
// then sits idle. For every request it forks a grandchild; the grandchild therefore starts from the library's
// pristine static state (generator state, default space, caches, option tables) whatever the parent worker has
// executed since. The grandchild runs the user function on the request bytes and sends the reply bytes back.
//
//   parent  <-- socketpair -->  zygote  -- fork per request -->  grandchild (runs fn, writes reply to a pipe)
//
// Reply status: 0 ok, 1 grandchild died / non-zero exit, 2 transport error.
#pragma once
#include <cerrno>
#include <csignal>
#include <cstdint>
#include <cstdio>
#include <cstdlib>
#include <cstring>
#include <functional>
#include <string>
#include <sys/socket.h>
#include <sys/types.h>
#include <sys/wait.h>
#include <unistd.h>
#include <vector>

namespace c13
{
using Blob    = std::vector<char>;
using FreshFn = std::function<Blob(const Blob&)>;

inline bool readAll(int fd, void* buf, size_t n)
{
  char* p = (char*)buf;
  while (n > 0)
  {
    ssize_t k = ::read(fd, p, n);
    if (k < 0 && errno == EINTR) continue;
    if (k <= 0) return false;
    p += k;
    n -= (size_t)k;
  }
  return true;
}
inline bool writeAll(int fd, const void* buf, size_t n)
{
  const char* p = (const char*)buf;
  while (n > 0)
  {
    ssize_t k = ::write(fd, p, n);
    if (k < 0 && errno == EINTR) continue;
    if (k <= 0) return false;
    p += k;
    n -= (size_t)k;
  }
  return true;
}

class Fresh
{
public:
  // must be called before the first library call of the process
  void start(const FreshFn& fn)
  {
    int sv[2];
    if (socketpair(AF_UNIX, SOCK_STREAM, 0, sv) != 0) return;
    fflush(nullptr);
    pid_t pid = fork();
    if (pid < 0) { close(sv[0]); close(sv[1]); return; }
    if (pid == 0)
    {
      close(sv[0]);
      zygoteLoop(sv[1], fn);
      _exit(0);
    }
    close(sv[1]);
    _fd  = sv[0];
    _pid = pid;
  }
  bool ready() const { return _fd >= 0; }

  // returns status (0 ok); reply filled when ok
  int request(const Blob& req, Blob& reply)
  {
    reply.clear();
    if (_fd < 0) return 2;
    uint64_t n = req.size();
    if (!writeAll(_fd, &n, sizeof n) || !writeAll(_fd, req.data(), req.size())) return 2;
    int32_t status = 2;
    uint64_t m     = 0;
    if (!readAll(_fd, &status, sizeof status) || !readAll(_fd, &m, sizeof m)) return 2;
    reply.resize(m);
    if (m > 0 && !readAll(_fd, reply.data(), m)) return 2;
    return status;
  }
  ~Fresh()
  {
    if (_fd >= 0) close(_fd); // zygote sees EOF and exits
    if (_pid > 0) waitpid(_pid, nullptr, 0);
  }

private:
  static void zygoteLoop(int fd, const FreshFn& fn)
  {
    signal(SIGPIPE, SIG_IGN);
    for (;;)
    {
      uint64_t n = 0;
      if (!readAll(fd, &n, sizeof n)) return; // parent gone
      Blob req(n);
      if (n > 0 && !readAll(fd, req.data(), n)) return;
      int pp[2];
      int32_t status = 2;
      Blob reply;
      if (pipe(pp) == 0)
      {
        fflush(nullptr);
        pid_t g = fork();
        if (g == 0)
        {
          close(pp[0]);
          close(fd);
          Blob out   = fn(req);
          uint64_t m = out.size();
          bool ok    = writeAll(pp[1], &m, sizeof m) && writeAll(pp[1], out.data(), out.size());
          fflush(nullptr);
          _exit(ok ? 0 : 3);
        }
        close(pp[1]);
        if (g > 0)
        {
          uint64_t m = 0;
          bool ok    = readAll(pp[0], &m, sizeof m);
          if (ok)
          {
            reply.resize(m);
            ok = (m == 0) || readAll(pp[0], reply.data(), m);
          }
          int st = 0;
          waitpid(g, &st, 0);
          status = (ok && WIFEXITED(st) && WEXITSTATUS(st) == 0) ? 0 : 1;
          if (status != 0) reply.clear();
        }
        close(pp[0]);
      }
      uint64_t m = reply.size();
      if (!writeAll(fd, &status, sizeof status) || !writeAll(fd, &m, sizeof m) ||
          !writeAll(fd, reply.data(), reply.size()))
        return;
    }
  }
  int _fd    = -1;
  pid_t _pid = -1;
};

// ---- tiny (de)serialisation of simulation outputs -------------------------------------------------
struct Out
{
  int rc = -999;                         // return code of the library call
  std::vector<std::string> names;        // names of the columns created by the call
  std::vector<std::vector<double>> cols; // their content (all samples)
  std::string note;                      // free text
  bool sameBits(const Out& o) const
  {
    if (rc != o.rc || names != o.names || cols.size() != o.cols.size()) return false;
    for (size_t i = 0; i < cols.size(); i++)
    {
      if (cols[i].size() != o.cols[i].size()) return false;
      if (!cols[i].empty() && memcmp(cols[i].data(), o.cols[i].data(), cols[i].size() * sizeof(double)) != 0)
        return false;
    }
    return true;
  }
  // first differing (column, sample) or (-1,-1)
  std::pair<int, int> firstDiff(const Out& o) const
  {
    for (size_t i = 0; i < cols.size() && i < o.cols.size(); i++)
      for (size_t k = 0; k < cols[i].size() && k < o.cols[i].size(); k++)
        if (memcmp(&cols[i][k], &o.cols[i][k], sizeof(double)) != 0) return {(int)i, (int)k};
    return {-1, -1};
  }
  Blob pack() const
  {
    Blob b;
    auto put = [&](const void* p, size_t n) { b.insert(b.end(), (const char*)p, (const char*)p + n); };
    int32_t r = rc;
    put(&r, sizeof r);
    uint64_t n = names.size();
    put(&n, sizeof n);
    for (auto& s : names)
    {
      uint64_t l = s.size();
      put(&l, sizeof l);
      put(s.data(), l);
    }
    n = cols.size();
    put(&n, sizeof n);
    for (auto& c : cols)
    {
      uint64_t l = c.size();
      put(&l, sizeof l);
      put(c.data(), l * sizeof(double));
    }
    return b;
  }
  static bool unpack(const Blob& b, Out& o)
  {
    size_t pos = 0;
    auto get   = [&](void* p, size_t n) {
      if (pos + n > b.size()) return false;
      memcpy(p, b.data() + pos, n);
      pos += n;
      return true;
    };
    int32_t r;
    if (!get(&r, sizeof r)) return false;
    o.rc = r;
    uint64_t n;
    if (!get(&n, sizeof n) || n > 100000) return false;
    o.names.resize(n);
    for (auto& s : o.names)
    {
      uint64_t l;
      if (!get(&l, sizeof l) || l > 10000) return false;
      s.resize(l);
      if (l && !get(s.data(), l)) return false;
    }
    if (!get(&n, sizeof n) || n > 100000) return false;
    o.cols.resize(n);
    for (auto& c : o.cols)
    {
      uint64_t l;
      if (!get(&l, sizeof l) || l > 100000000) return false;
      c.resize(l);
      if (l && !get(c.data(), l * sizeof(double))) return false;
    }
    return true;
  }
};
} // namespace c13
