// Reference dense linear algebra in long double; written for clarity. No gstlearn kernel is used here.
#pragma once
#include <cmath>
#include <vector>
#include <algorithm>
#include <stdexcept>

namespace ref
{
typedef long double LD;
struct Mat
{
  int nr = 0, nc = 0;
  std::vector<LD> a; // row-major
  Mat() {}
  Mat(int r, int c, LD v = 0) : nr(r), nc(c), a((size_t)r * c, v) {}
  LD& operator()(int i, int j) { return a[(size_t)i * nc + j]; }
  LD operator()(int i, int j) const { return a[(size_t)i * nc + j]; }
  static Mat eye(int n)
  {
    Mat m(n, n);
    for (int i = 0; i < n; i++) m(i, i) = 1;
    return m;
  }
  Mat T() const
  {
    Mat t(nc, nr);
    for (int i = 0; i < nr; i++)
      for (int j = 0; j < nc; j++) t(j, i) = (*this)(i, j);
    return t;
  }
  LD maxabs() const
  {
    LD m = 0;
    for (LD v : a) m = std::max(m, std::fabs(v));
    return m;
  }
  LD norm1() const
  {
    LD m = 0;
    for (int j = 0; j < nc; j++)
    {
      LD s = 0;
      for (int i = 0; i < nr; i++) s += std::fabs((*this)(i, j));
      m = std::max(m, s);
    }
    return m;
  }
};
inline Mat mul(const Mat& A, const Mat& B)
{
  if (A.nc != B.nr) throw std::logic_error("ref::mul shape");
  Mat C(A.nr, B.nc);
  for (int i = 0; i < A.nr; i++)
    for (int k = 0; k < A.nc; k++)
    {
      LD aik = A(i, k);
      if (aik == 0) continue;
      for (int j = 0; j < B.nc; j++) C(i, j) += aik * B(k, j);
    }
  return C;
}
inline std::vector<LD> mulv(const Mat& A, const std::vector<LD>& x)
{
  std::vector<LD> y(A.nr, 0);
  for (int i = 0; i < A.nr; i++)
    for (int j = 0; j < A.nc; j++) y[i] += A(i, j) * x[j];
  return y;
}

// LU with partial pivoting. Returns false when singular to working precision.
struct LU
{
  Mat lu;
  std::vector<int> piv;
  bool ok = false;
  LD anorm = 0;
  int sign = 1;
  LD minpiv = 0, maxpiv = 0;
  explicit LU(const Mat& A) : lu(A), piv(A.nr)
  {
    int n = A.nr;
    anorm = A.norm1();
    ok    = true;
    minpiv = INFINITY; maxpiv = 0;
    for (int k = 0; k < n; k++)
    {
      int p = k;
      for (int i = k + 1; i < n; i++)
        if (std::fabs(lu(i, k)) > std::fabs(lu(p, k))) p = i;
      piv[k] = p;
      if (p != k)
      {
        sign = -sign;
        for (int j = 0; j < n; j++) std::swap(lu(k, j), lu(p, j));
      }
      LD d = lu(k, k);
      minpiv = std::min(minpiv, std::fabs(d));
      maxpiv = std::max(maxpiv, std::fabs(d));
      if (d == 0 || !std::isfinite((double)d)) { ok = false; return; }
      for (int i = k + 1; i < n; i++)
      {
        LD f = lu(i, k) / d;
        lu(i, k) = f;
        if (f != 0)
          for (int j = k + 1; j < n; j++) lu(i, j) -= f * lu(k, j);
      }
    }
  }
  std::vector<LD> solve(std::vector<LD> b) const
  {
    int n = lu.nr;
    for (int k = 0; k < n; k++)
      if (piv[k] != k) std::swap(b[k], b[piv[k]]);
    for (int i = 0; i < n; i++)
      for (int j = 0; j < i; j++) b[i] -= lu(i, j) * b[j];
    for (int i = n - 1; i >= 0; i--)
    {
      for (int j = i + 1; j < n; j++) b[i] -= lu(i, j) * b[j];
      b[i] /= lu(i, i);
    }
    return b;
  }
  Mat inverse() const
  {
    int n = lu.nr;
    Mat inv(n, n);
    for (int j = 0; j < n; j++)
    {
      std::vector<LD> e(n, 0);
      e[j]  = 1;
      auto x = solve(e);
      for (int i = 0; i < n; i++) inv(i, j) = x[i];
    }
    return inv;
  }
  // 1-norm condition number via the explicit inverse (small systems only)
  LD cond() const
  {
    if (!ok) return INFINITY;
    return anorm * inverse().norm1();
  }
  LD det() const
  {
    LD d = sign;
    for (int i = 0; i < lu.nr; i++) d *= lu(i, i);
    return d;
  }
};

// Cholesky (lower). ok=false if a pivot <= 0.
struct Chol
{
  Mat L;
  bool ok = true;
  LD minpiv = INFINITY;
  explicit Chol(const Mat& A) : L(A.nr, A.nr)
  {
    int n = A.nr;
    for (int j = 0; j < n && ok; j++)
    {
      LD d = A(j, j);
      for (int k = 0; k < j; k++) d -= L(j, k) * L(j, k);
      minpiv = std::min(minpiv, d);
      if (!(d > 0)) { ok = false; break; }
      L(j, j) = std::sqrt(d);
      for (int i = j + 1; i < n; i++)
      {
        LD s = A(i, j);
        for (int k = 0; k < j; k++) s -= L(i, k) * L(j, k);
        L(i, j) = s / L(j, j);
      }
    }
  }
  LD logdet() const
  {
    LD s = 0;
    for (int i = 0; i < L.nr; i++) s += 2 * std::log(L(i, i));
    return s;
  }
};

// Jacobi eigenvalues of a symmetric matrix (ascending). Optionally eigenvectors (columns of V).
inline std::vector<LD> eigsym(Mat A, Mat* V = nullptr)
{
  int n = A.nr;
  Mat v = Mat::eye(n);
  for (int sweep = 0; sweep < 100; sweep++)
  {
    LD off = 0, diag = 0;
    for (int i = 0; i < n; i++)
      for (int j = 0; j < n; j++) (i == j ? diag : off) += A(i, j) * A(i, j);
    if (off <= 1e-36L * (diag + 1e-300L)) break;
    for (int p = 0; p < n - 1; p++)
      for (int q = p + 1; q < n; q++)
      {
        LD apq = A(p, q);
        if (apq == 0) continue;
        LD theta = (A(q, q) - A(p, p)) / (2 * apq);
        LD t     = (theta >= 0 ? 1 : -1) / (std::fabs(theta) + std::sqrt(theta * theta + 1));
        LD c = 1 / std::sqrt(t * t + 1), s = t * c;
        for (int k = 0; k < n; k++)
        {
          LD akp = A(k, p), akq = A(k, q);
          A(k, p) = c * akp - s * akq;
          A(k, q) = s * akp + c * akq;
        }
        for (int k = 0; k < n; k++)
        {
          LD apk = A(p, k), aqk = A(q, k);
          A(p, k) = c * apk - s * aqk;
          A(q, k) = s * apk + c * aqk;
        }
        for (int k = 0; k < n; k++)
        {
          LD vkp = v(k, p), vkq = v(k, q);
          v(k, p) = c * vkp - s * vkq;
          v(k, q) = s * vkp + c * vkq;
        }
      }
  }
  std::vector<int> idx(n);
  for (int i = 0; i < n; i++) idx[i] = i;
  std::sort(idx.begin(), idx.end(), [&](int a, int b) { return A(a, a) < A(b, b); });
  std::vector<LD> ev(n);
  for (int i = 0; i < n; i++) ev[i] = A(idx[i], idx[i]);
  if (V)
  {
    *V = Mat(n, n);
    for (int i = 0; i < n; i++)
      for (int k = 0; k < n; k++) (*V)(k, i) = v(k, idx[i]);
  }
  return ev;
}
} // namespace ref
