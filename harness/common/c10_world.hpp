// C10: input builders (from the case PRNG only) and canonical digests of library objects.
// Everything is 2-D in the default space RN(2): the default space is a documented global option and C10 histories
// never change it.
#pragma once
#include "common/vh.hpp"
#include "common/c10_util.hpp"

#include "Basic/VectorNumT.hpp"
#include "Basic/Law.hpp"
#include "Db/Db.hpp"
#include "Db/DbGrid.hpp"
#include "Enum/ELoadBy.hpp"
#include "Enum/ELoc.hpp"
#include "Enum/ECov.hpp"
#include "Model/Model.hpp"
#include "Covariances/CovAniso.hpp"
#include "Covariances/ACovAnisoList.hpp"
#include "Variogram/Vario.hpp"
#include "Variogram/VarioParam.hpp"
#include "Variogram/DirParam.hpp"
#include "Matrix/AMatrix.hpp"
#include "Matrix/MatrixRectangular.hpp"
#include "Matrix/MatrixSquareSymmetric.hpp"
#include "Matrix/MatrixSquareGeneral.hpp"
#include "Polygon/Polygons.hpp"
#include "Polygon/PolyElem.hpp"
#include "Neigh/NeighUnique.hpp"
#include "Neigh/NeighMoving.hpp"

#include <memory>

namespace c10w
{
using vh::Rng;
using c10::Dig;
using UDb    = std::unique_ptr<Db>;
using UGrid  = std::unique_ptr<DbGrid>;
using UModel = std::unique_ptr<Model>;
using UVario = std::unique_ptr<Vario>;

// ---------------------------------------------------------------------------------------------
// builders
// ---------------------------------------------------------------------------------------------
struct DbSpec
{
  int n         = 30;
  int nvar      = 1;
  double sel    = 0;   // proportion of samples masked by a selection (0: no selection column; >= 1: all masked)
  double hetero = 0;   // proportion of undefined values in variables
  bool verr     = false;
  int nfex      = 0;
  bool code     = false;
  double ext    = 100.;
  double x0     = 0., y0 = 0.;
};

inline VectorDouble toVD(const std::vector<double>& v) { return VectorDouble(v); }

// point Db; columns: rank, x1, x2, z1.., [v1..], [f1..], [code], [sel]
inline UDb mkDb(Rng& r, const DbSpec& s)
{
  int n = s.n;
  std::vector<double> tab;
  VectorString names;
  std::vector<double> x(n), y(n);
  for (int i = 0; i < n; i++) { x[i] = s.x0 + r.uni(0, s.ext); y[i] = s.y0 + r.uni(0, s.ext); }
  tab.insert(tab.end(), x.begin(), x.end());
  tab.insert(tab.end(), y.begin(), y.end());
  names.push_back("x1");
  names.push_back("x2");
  double a = r.uni(-1, 1), b = r.uni(-1, 1), w = r.uni(0.02, 0.1);
  for (int iv = 0; iv < s.nvar; iv++)
  {
    for (int i = 0; i < n; i++)
    {
      double v = 10 + iv + a * (x[i] - s.x0) / s.ext * 5 + b * std::sin(w * (y[i] - s.y0) + iv) * 3 + r.normal();
      if (s.hetero > 0 && r.coin(s.hetero)) v = TEST;
      tab.push_back(v);
    }
    names.push_back("z" + std::to_string(iv + 1));
  }
  if (s.verr)
    for (int iv = 0; iv < s.nvar; iv++)
    {
      for (int i = 0; i < n; i++) tab.push_back(r.uni(0.01, 0.5));
      names.push_back("v" + std::to_string(iv + 1));
    }
  for (int k = 0; k < s.nfex; k++)
  {
    for (int i = 0; i < n; i++) tab.push_back(0.03 * (x[i] - s.x0) + std::cos(0.05 * (y[i] - s.y0) + k) + 0.1 * r.normal());
    names.push_back("f" + std::to_string(k + 1));
  }
  if (s.code)
  {
    for (int i = 0; i < n; i++) tab.push_back((double)r.irange(1, 3));
    names.push_back("code");
  }
  if (s.sel > 0)
  {
    for (int i = 0; i < n; i++) tab.push_back((s.sel >= 1. || r.coin(s.sel)) ? 0. : 1.);
    names.push_back("sel");
  }
  UDb db(Db::createFromSamples(n, ELoadBy::COLUMN, VectorDouble(tab), names, VectorString(), true));
  db->setLocators({"x1", "x2"}, ELoc::X);
  for (int iv = 0; iv < s.nvar; iv++) db->setLocator("z" + std::to_string(iv + 1), ELoc::Z, iv);
  if (s.verr)
    for (int iv = 0; iv < s.nvar; iv++) db->setLocator("v" + std::to_string(iv + 1), ELoc::V, iv);
  for (int k = 0; k < s.nfex; k++) db->setLocator("f" + std::to_string(k + 1), ELoc::F, k);
  if (s.code) db->setLocator("code", ELoc::C, 0);
  if (s.sel > 0) db->setLocator("sel", ELoc::SEL, 0);
  return db;
}

struct GridSpec
{
  int nx = 8, ny = 7;
  double dx = 10, dy = 12, x0 = 3, y0 = -4, angle = 0;
  int nvar = 0;  // variables z1.. (smooth + noise)
  int nfex = 0;  // external drift columns f1..
  double sel = 0;
};
inline GridSpec mkGridSpec(Rng& r, int nmax = 9)
{
  GridSpec g;
  g.nx    = r.irange(3, nmax);
  g.ny    = r.irange(3, nmax);
  g.dx    = r.uni(5, 20);
  g.dy    = r.uni(5, 20);
  g.x0    = r.uni(-10, 10);
  g.y0    = r.uni(-10, 10);
  g.angle = r.coin(0.5) ? 0. : r.uni(5, 80);
  return g;
}
inline UGrid mkGrid(Rng& r, const GridSpec& g)
{
  int n = g.nx * g.ny;
  std::vector<double> tab;
  VectorString names;
  for (int iv = 0; iv < g.nvar; iv++)
  {
    for (int i = 0; i < n; i++) tab.push_back(5 + iv + std::sin(0.3 * (i % g.nx)) + 0.5 * std::cos(0.4 * (i / g.nx)) + 0.3 * r.normal());
    names.push_back("z" + std::to_string(iv + 1));
  }
  for (int k = 0; k < g.nfex; k++)
  {
    for (int i = 0; i < n; i++) tab.push_back(0.3 * (i % g.nx) + std::cos(0.5 * (i / g.nx) + k) + 0.1 * r.normal());
    names.push_back("f" + std::to_string(k + 1));
  }
  if (g.sel > 0)
  {
    for (int i = 0; i < n; i++) tab.push_back((g.sel >= 1 || r.coin(g.sel)) ? 0. : 1.);
    names.push_back("sel");
  }
  UGrid gr(DbGrid::create(VectorInt({g.nx, g.ny}), VectorDouble({g.dx, g.dy}), VectorDouble({g.x0, g.y0}),
                          VectorDouble({g.angle, 0.}), ELoadBy::COLUMN, VectorDouble(tab), names, VectorString(), true, true));
  for (int iv = 0; iv < g.nvar; iv++) gr->setLocator("z" + std::to_string(iv + 1), ELoc::Z, iv);
  for (int k = 0; k < g.nfex; k++) gr->setLocator("f" + std::to_string(k + 1), ELoc::F, k);
  if (g.sel > 0) gr->setLocator("sel", ELoc::SEL, 0);
  return gr;
}

// sill matrix A A^T + small diagonal (positive definite), flattened
inline VectorDouble mkSills(Rng& r, int nvar, double scale)
{
  std::vector<double> A(nvar * nvar), S(nvar * nvar, 0.);
  for (auto& v : A) v = r.uni(-1, 1);
  for (int i = 0; i < nvar; i++)
    for (int j = 0; j < nvar; j++)
    {
      double s = 0;
      for (int k = 0; k < nvar; k++) s += A[i * nvar + k] * A[j * nvar + k];
      S[i * nvar + j] = scale * (s + (i == j ? 0.3 : 0.));
    }
  return VectorDouble(S);
}

struct ModelSpec
{
  int nvar   = 1;
  int ncov   = -1;   // -1: random 1..3
  bool nugget = true;
  int drift  = -1;   // -1: known mean (no drift); 0,1,2: IRF order
  int nfex   = 0;
  double rscale = 30.;
};
inline const ECov& pickCov(Rng& r)
{
  static const std::vector<const ECov*> L = {&ECov::SPHERICAL, &ECov::EXPONENTIAL, &ECov::CUBIC, &ECov::MATERN, &ECov::GAUSSIAN};
  // Gaussian is drawn less often (near-singular systems are legitimate but make many calls fail the same way)
  int k = r.irange(0, 8);
  return *L[k >= 8 ? 4 : k % 4];
}
inline void addStruct(Rng& r, Model* m, int nvar, double rscale, const ECov* forced = nullptr)
{
  const ECov& t = forced ? *forced : pickCov(r);
  double rg     = r.uni(0.3, 1.5) * rscale;
  VectorDouble ranges, angles;
  if (r.coin(0.6)) { ranges = VectorDouble({rg, rg * r.uni(0.25, 0.9)}); angles = VectorDouble({r.uni(10, 170), 0.}); }
  double param = (t == ECov::MATERN) ? r.uni(0.5, 2.) : 1.;
  VectorDouble sills = mkSills(r, nvar, r.uni(0.5, 3.));
  m->addCovFromParam(t, rg, sills[0], param, ranges, nvar > 1 ? sills : VectorDouble(), angles);
}
inline UModel mkModel(Rng& r, const ModelSpec& s)
{
  int ncov = s.ncov < 0 ? r.irange(1, 3) : s.ncov;
  UModel m;
  VectorDouble sills0 = mkSills(r, s.nvar, r.uni(0.05, 0.5));
  if (s.nugget) m.reset(Model::createFromParam(ECov::NUGGET, 1., sills0[0], 1., VectorDouble(), s.nvar > 1 ? sills0 : VectorDouble()));
  else
  {
    m.reset(Model::createFromParam(ECov::NUGGET, 1., sills0[0], 1., VectorDouble(), s.nvar > 1 ? sills0 : VectorDouble()));
    m->delAllCovas();
  }
  for (int k = 0; k < ncov; k++) addStruct(r, m.get(), s.nvar, s.rscale);
  if (s.drift >= 0 || s.nfex > 0) m->setDriftIRF(std::max(0, s.drift), s.nfex);
  else
  {
    VectorDouble means(s.nvar);
    for (int iv = 0; iv < s.nvar; iv++) means[iv] = r.uni(8, 12);
    m->setMeans(means);
  }
  return m;
}

inline VarioParam mkVarioParam(Rng& r, double ext = 100.)
{
  VarioParam vp;
  int ndir = r.irange(1, 2);
  int npas = r.irange(4, 8);
  double dpas = ext / 2. / npas * r.uni(0.7, 1.1);
  if (ndir == 1) vp.addDir(DirParam(npas, dpas, 0.5));
  else
  {
    double a0 = r.uni(0, 90);
    for (int d = 0; d < 2; d++)
    {
      double ang = (a0 + 90. * d) * M_PI / 180.;
      vp.addDir(DirParam(npas, dpas, 0.5, 45., 0, 0, TEST, TEST, 0., VectorDouble(), VectorDouble({std::cos(ang), std::sin(ang)})));
    }
  }
  return vp;
}

inline std::unique_ptr<Polygons> mkPolygons(Rng& r, double ext = 100., double x0 = 0., double y0 = 0.)
{
  std::unique_ptr<Polygons> p(Polygons::create());
  int np = r.irange(1, 2);
  for (int k = 0; k < np; k++)
  {
    int nv = r.irange(3, 7);
    double cx = x0 + r.uni(0.3, 0.7) * ext, cy = y0 + r.uni(0.3, 0.7) * ext;
    std::vector<double> ang(nv), xs, ys;
    for (auto& a : ang) a = r.uni(0, 2 * M_PI);
    std::sort(ang.begin(), ang.end());
    for (int i = 0; i < nv; i++)
    {
      double rad = r.uni(0.15, 0.45) * ext;
      xs.push_back(cx + rad * std::cos(ang[i]));
      ys.push_back(cy + rad * std::sin(ang[i]));
    }
    xs.push_back(xs[0]);
    ys.push_back(ys[0]);
    PolyElem pe{VectorDouble(xs), VectorDouble(ys)};
    p->addPolyElem(pe);
  }
  return p;
}

// ---------------------------------------------------------------------------------------------
// digests
// ---------------------------------------------------------------------------------------------
inline void digVD(Dig& d, const VectorDouble& v) { d.vd(v.getVector()); }
inline void digVI(Dig& d, const VectorInt& v) { d.vi(v.getVector()); }

// Full table image: sample count, every column by position: name, uid, locator, every cell bit-for-bit
// (selection ignored: useSel=false), plus grid geometry for a DbGrid.
inline void digDb(Dig& d, const Db* db, bool withNames = true)
{
  d.tag("Db");
  if (db == nullptr) { d.tag("null"); return; }
  int nech = db->getSampleNumber(false);
  int ncol = db->getColumnNumber();
  d.i(nech);
  d.i(ncol);
  d.i(db->getNDim());
  for (int ic = 0; ic < ncol; ic++)
  {
    if (withNames) d.s(db->getNameByColIdx(ic));
    d.i(db->getUIDByColIdx(ic));
    ELoc lt;
    int li = -1;
    bool has = db->getLocatorByColIdx(ic, &lt, &li);
    d.i(has ? 1 : 0);
    if (has) { d.i(lt.getValue()); d.i(li); }
    VectorDouble col = db->getColumnByColIdx(ic, false);
    digVD(d, col);
  }
  const DbGrid* g = dynamic_cast<const DbGrid*>(db);
  if (g != nullptr)
  {
    d.tag("grid");
    digVI(d, g->getNXs());
    digVD(d, g->getDXs());
    digVD(d, g->getX0s());
    digVD(d, g->getAngles());
  }
}
// only the columns from position icol0 on (outputs appended by a calculation)
inline void digDbCols(Dig& d, const Db* db, int icol0)
{
  d.tag("cols");
  int ncol = db->getColumnNumber();
  d.i(ncol - icol0);
  for (int ic = icol0; ic < ncol; ic++)
  {
    d.s(db->getNameByColIdx(ic));
    ELoc lt;
    int li = -1;
    bool has = db->getLocatorByColIdx(ic, &lt, &li);
    d.i(has ? 1 : 0);
    if (has) { d.i(lt.getValue()); d.i(li); }
    digVD(d, db->getColumnByColIdx(ic, false));
  }
}

inline void digMat(Dig& d, const AMatrix& m)
{
  d.tag("Mat");
  d.i(m.getNRows());
  d.i(m.getNCols());
  for (int j = 0; j < m.getNCols(); j++)
    for (int i = 0; i < m.getNRows(); i++) d.d(m.getValue(i, j, false));
}

// Model through its public getters + pointwise evaluations at fixed probe increments (never the optimised builders)
inline void digModel(Dig& d, const Model* m)
{
  d.tag("Model");
  if (m == nullptr) { d.tag("null"); return; }
  int nvar = m->getVariableNumber();
  int ncov = m->getCovaNumber();
  d.i(nvar);
  d.i(m->getDimensionNumber());
  d.i(ncov);
  for (int ic = 0; ic < ncov; ic++)
  {
    const CovAniso* c = m->getCova(ic);
    d.i(c->getType().getValue());
    digVD(d, c->getRanges());
    digVD(d, c->getAnisoAngles());
    d.d(c->getParam());
    for (int i = 0; i < nvar; i++)
      for (int j = 0; j < nvar; j++) d.d(c->getSill(i, j));
    d.i(m->getCovAnisoList()->isFiltered(ic) ? 1 : 0);
  }
  d.i(m->getDriftNumber());
  for (int il = 0; il < m->getDriftNumber(); il++) d.s(m->getDrift(il)->getDriftName());
  digVD(d, m->getMeans());
  if (ncov > 0)
  {
    static const double H[5][2] = {{0, 0}, {3, 1}, {-7, 12}, {25, -4}, {60, 60}};
    for (auto& h : H)
      for (int i = 0; i < nvar; i++)
        for (int j = 0; j <= i; j++) d.d(m->evalCov(VectorDouble({h[0], h[1]}), i, j));
  }
}

inline void digVario(Dig& d, const Vario* v)
{
  d.tag("Vario");
  if (v == nullptr) { d.tag("null"); return; }
  int nvar = v->getVariableNumber();
  int ndir = v->getDirectionNumber();
  d.i(nvar);
  d.i(ndir);
  digVD(d, v->getVars());
  digVD(d, v->getMeans());
  for (int id = 0; id < ndir; id++)
  {
    d.i(v->getLagNumber(id));
    d.d(v->getDirParam(id).getDPas());
    d.d(v->getDirParam(id).getTolDist());
    d.d(v->getDirParam(id).getTolAngle());
    digVD(d, v->getDirParam(id).getCodirs());
    if (v->getVars().empty()) continue; // not computed yet: no storage to read
    for (int i = 0; i < nvar; i++)
      for (int j = 0; j <= i; j++)
      {
        digVD(d, v->getGgVec(id, i, j, false, false, false));
        digVD(d, v->getHhVec(id, i, j, false));
        digVD(d, v->getSwVec(id, i, j, false));
      }
  }
}

inline void digPoly(Dig& d, const Polygons* p)
{
  d.tag("Poly");
  d.i(p->getPolyElemNumber());
  for (int k = 0; k < p->getPolyElemNumber(); k++)
  {
    digVD(d, p->getX(k));
    digVD(d, p->getY(k));
    d.d(p->getPolyElem(k).getZmin());
    d.d(p->getPolyElem(k).getZmax());
  }
}

template<class F> inline std::string digOf(F&& f)
{
  Dig d;
  f(d);
  return d.hex();
}
} // namespace c10w
