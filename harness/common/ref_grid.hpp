// ref_grid.hpp — reference geometry of a regular (possibly rotated) grid (C16). No gstlearn call in here.
//
// Conventions, each taken from the library's headers / doc comments:
//   * DbGrid.hpp class comment: "the coordinates of the grid origin (X0) defined as the node located in first position
//     (smallest index) along each space direction", "the mesh value along each space direction (DX)", "the rotation
//     angles around the grid origin (the origin is invariant through this rotation)", "rotation is defined by as many
//     angles as the space dimension ... for 2D ... a second dummy angle (always set to 0)", 1-D: no rotation.
//     =>  node(i) = X0 + R * (i .* DX)
//   * GeometryHelper.cpp rotation3DMatrixInPlace: "alpha angle (in degrees) / oz, beta angle / oy', gamma angle / ox''",
//     rotation2DMatrixInPlace: "Rotation angle (in degrees)". Calibrated reading (same as C06): successive right-handed
//     rotations; in 2-D the first grid axis points along (cos a, sin a).
//   * Grid::coordinateToIndicesInPlace: "Find the grid node to which the current sample is assigned ... centered: True
//     for grid cell centered". centered = true : cell of node i = { |u_k - i_k| < 1/2 }  (u = position in mesh units in
//     the grid frame); centered = false: cell of node i = { i_k <= u_k < i_k + 1 } (DbGrid.hpp: "block grid ... the
//     origin is (currently) the lower-left corner").
//   * rank <-> indices: only the bijection is used from the statement; the reference enumerates with the first index
//     running fastest (Grid::indiceToRank) only to LIST all index tuples.
#pragma once
#include <cmath>
#include <vector>

namespace refg
{
typedef long double LD;
static const LD PI_L = 3.14159265358979323846264338327950288L;

struct G
{
  int ndim = 2;
  std::vector<int> nx;
  std::vector<double> x0, dx, angles; // angles in degrees (size ndim, or empty)
  long ntotal() const
  {
    long n = 1;
    for (int v : nx) n *= v;
    return n;
  }
};

// M[i][k] = i-th component of the k-th turned axis
inline void rotmat(const G& g, LD M[3][3])
{
  for (int i = 0; i < 3; i++)
    for (int j = 0; j < 3; j++) M[i][j] = (i == j);
  if (g.angles.empty() || g.ndim < 2) return;
  auto ang = [&](int i) { return i < (int)g.angles.size() ? (LD)g.angles[i] * PI_L / 180.0L : 0.0L; };
  if (g.ndim == 2)
  {
    LD c = cosl(ang(0)), s = sinl(ang(0));
    M[0][0] = c; M[0][1] = -s;
    M[1][0] = s; M[1][1] = c;
    return;
  }
  LD a = ang(0), b = ang(1), gm = ang(2);
  LD Rz[3][3] = {{cosl(a), -sinl(a), 0}, {sinl(a), cosl(a), 0}, {0, 0, 1}};
  LD Ry[3][3] = {{cosl(b), 0, sinl(b)}, {0, 1, 0}, {-sinl(b), 0, cosl(b)}};
  LD Rx[3][3] = {{1, 0, 0}, {0, cosl(gm), -sinl(gm)}, {0, sinl(gm), cosl(gm)}};
  LD A[3][3];
  for (int i = 0; i < 3; i++)
    for (int j = 0; j < 3; j++)
    {
      A[i][j] = 0;
      for (int k = 0; k < 3; k++) A[i][j] += Rz[i][k] * Ry[k][j];
    }
  for (int i = 0; i < 3; i++)
    for (int j = 0; j < 3; j++)
    {
      M[i][j] = 0;
      for (int k = 0; k < 3; k++) M[i][j] += A[i][k] * Rx[k][j];
    }
}

// coordinates of the point at (fractional) mesh position u in the grid frame
inline std::vector<LD> coord(const G& g, const std::vector<LD>& u)
{
  LD M[3][3];
  rotmat(g, M);
  std::vector<LD> x(g.ndim);
  for (int i = 0; i < g.ndim; i++)
  {
    LD s = 0;
    for (int k = 0; k < g.ndim; k++) s += M[i][k] * u[k] * (LD)g.dx[k];
    x[i] = (LD)g.x0[i] + s;
  }
  return x;
}
inline std::vector<LD> coordI(const G& g, const std::vector<int>& idx)
{
  std::vector<LD> u(idx.begin(), idx.end());
  return coord(g, u);
}
// mesh position (fractional indices) of a point
inline std::vector<LD> meshpos(const G& g, const std::vector<LD>& x)
{
  LD M[3][3];
  rotmat(g, M);
  std::vector<LD> u(g.ndim);
  for (int k = 0; k < g.ndim; k++)
  {
    LD s = 0;
    for (int i = 0; i < g.ndim; i++) s += M[i][k] * (x[i] - (LD)g.x0[i]);
    u[k] = s / (LD)g.dx[k];
  }
  return u;
}
// enumeration of the index tuples, first index fastest
inline std::vector<int> tuple(const G& g, long r)
{
  std::vector<int> idx(g.ndim);
  for (int k = 0; k < g.ndim; k++)
  {
    idx[k] = (int)(r % g.nx[k]);
    r /= g.nx[k];
  }
  return idx;
}
// natural magnitude of the coordinates of the grid (for tolerances)
inline double magnitude(const G& g)
{
  double m = 0;
  for (int k = 0; k < g.ndim; k++) m = std::fmax(m, std::fabs(g.x0[k]));
  double e = 0;
  for (int k = 0; k < g.ndim; k++) e += g.nx[k] * g.dx[k];
  return m + e;
}
} // namespace refg
