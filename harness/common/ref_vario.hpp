// ref_vario.hpp — O(n^2) reference model of the experimental two-point statistics (property C12).
//
// Written for clarity, long double, no gstlearn kernel is called from here. The conventions encoded below are the
// ones the library documents (each is quoted next to the code that relies on it):
//
//  * DirParam.hpp (class comment): "their distance must be assigned to a lag: i.e. the distance must correspond to
//    a multiple of the lag, up to a tolerance expressed as a percentage of the lag. The rank of this multiple must be
//    smaller than the number of lags" -> lag k = round(d/dpas), accepted iff |d - k dpas| <= toldis*dpas, k < npas.
//  * DirParam.hpp: "the lag definition can be replaced by a series of intervals (breaks): the pair is selected if the
//    distance belongs to one of these intervals" -> lag k iff breaks[k] < d < breaks[k+1] (the closed/open side of an
//    interval is not documented: a distance within MARGIN of a break is a boundary case and taints both lags).
//  * DirParam.hpp: "the orientation of the segment joining the two points must be assigned to the current direction
//    characterized by ... codir, up to a tolerance on angle (tolangle) given in degrees" -> |cos(delta,codir)| >= cos(tolang).
//  * DirParam.hpp: "the distance between the two points (measured along the axis perpendicular to the direction) must be
//    smaller than a maximum cylinder distance (cylrad)"; "the distance between the two points (measured along the
//    highest space dimension) must be smaller than a bench height (bench)".
//  * DirParam.hpp: "the difference between the code values ... must be either smaller or larger than the tolerance on
//    the code" (opt_code 1: |c1-c2| <= tolcode kept; opt_code 2: codes must differ) -- codes are integers and tolcode a
//    half-integer in the generator, so that no boundary case exists.
//  * BiTargetCheckGeometry.cpp: "When the distance is zero, the pair is always accepted" (no direction for a null vector).
//  * Vario.hpp (class comment): the result is a table "with one row per distance lag and three columns containing: the
//    number of pairs, the average value of the distance, the average value of the two-points statistics"; "for a number
//    of lags equal to N, the number of rows is N when the function is even and 2N+1 when the function is odd".
//  * doc/references/Experimental_Variogram.md: gamma(h) = 1/(2|N(h)|) sum |z(xi)-z(xj)|^2 over the pairs of N(h).
//
// A pair whose distance / angle / cylinder / bench value lies within MARGIN of a class boundary is a *boundary case*
// (excluded by the property): the lag(s) it could fall in are marked tainted and not compared.
#pragma once
#include <cmath>
#include <vector>
#include <algorithm>

namespace refv
{
typedef long double LD;
static const double UNDEF  = 1.234e30; // gstlearn TEST
static const LD MARGIN     = 1e-9L;    // relative margin defining a boundary case
inline bool undef(double v) { return std::isnan(v) || v > 1.0e30; }

// calculation modes (numbering private to the reference)
enum Mode { M_VARIOGRAM, M_MADOGRAM, M_RODOGRAM, M_ORDER4, M_COVARIANCE, M_COVARIANCE_NC, M_BINORMAL };
inline bool isAsym(int m) { return m == M_COVARIANCE || m == M_COVARIANCE_NC; }

struct Data
{
  int ndim = 0, n = 0, nvar = 0;
  std::vector<std::vector<double>> x; // [idim][i]
  std::vector<std::vector<double>> z; // [ivar][i], UNDEF when missing
  bool hasW = false, hasSel = false, hasCode = false, hasDate = false;
  std::vector<double> w, sel, code, date;
  bool active(int i) const { return !hasSel || sel[i] != 0.; }
  double weight(int i) const { return hasW ? w[i] : 1.; }
};

struct Dir
{
  int npas = 1;
  double dpas = 1, toldis = 0.5, tolang = 90;
  std::vector<double> codir;
  double bench = UNDEF, cylrad = UNDEF;
  std::vector<double> breaks; // empty = regular lags
  int optcode = 0;
  double tolcode = 0;
  // date criterion (VarioParam dates + DirParam idate): |date_i - date_j| < dateHalfWidth, UNDEF = none.
  // Only symmetric intervals [-h, +h) with integer dates and half-integer h are generated (no boundary case, and the
  // criterion does not depend on which sample of the pair is taken first).
  double dateHalfWidth = UNDEF;
};

struct Cell
{
  LD sw = 0, sh = 0, sg = 0, sabs = 0; // sum w, sum w*d, sum w*value, sum w*|value|
  long np   = 0;
  bool taint = false;
};

// table indexed by (pair of variables a >= b, slot). Even function: slot = lag (npas slots);
// odd function: 2 npas + 1 slots in the order  -(npas-1) ... -0, centre, +0 ... +(npas-1)
struct Table
{
  int nvar = 0, nslot = 0;
  std::vector<Cell> c;
  void init(int nv, int ns) { nvar = nv; nslot = ns; c.assign((size_t)nv * (nv + 1) / 2 * ns, Cell()); }
  Cell& at(int a, int b, int s) { if (a < b) std::swap(a, b); return c[(size_t)(a * (a + 1) / 2 + b) * nslot + s]; }
};

struct PairGeom
{
  bool reject = true;          // certainly rejected
  int k       = -1;            // lag (when not rejected)
  std::vector<int> taintLags;  // lags this pair may or may not belong to (boundary case)
  LD d        = 0;
  int orient  = 0;             // +1: (x_j - x_i).codir > 0, -1: < 0, 0: undetermined (boundary / null vector)
};

// Geometry of the pair (i, j): which lag, which orientation, boundary cases
inline PairGeom pairGeom(const Data& D, const Dir& dir, int i, int j)
{
  PairGeom g;
  int nd = D.ndim;
  LD d2 = 0, dp = 0, c2 = 0;
  std::vector<LD> del(nd);
  for (int k = 0; k < nd; k++)
  {
    del[k] = (LD)D.x[k][j] - (LD)D.x[k][i];
    d2 += del[k] * del[k];
    dp += del[k] * (LD)dir.codir[k];
    c2 += (LD)dir.codir[k] * (LD)dir.codir[k];
  }
  LD d = sqrtl(d2);
  g.d  = d;
  bool ambig = false; // accepted-or-rejected undetermined

  // code criterion (exact arithmetic in the generator: integer codes, half-integer tolerance)
  if (D.hasCode && dir.optcode == 1 && std::fabs(D.code[i] - D.code[j]) > dir.tolcode) return g;
  if (D.hasCode && dir.optcode == 2 && D.code[i] == D.code[j]) return g;
  if (D.hasDate && !undef(dir.dateHalfWidth) && std::fabs(D.date[i] - D.date[j]) >= dir.dateHalfWidth) return g;

  if (d > 0)
  {
    LD ps    = dp / sqrtl(d2 * c2);
    LD tol   = std::min((LD)dir.tolang, (LD)90.);
    LD psmin = (tol >= 90.) ? 0.L : cosl(tol * 3.14159265358979323846264338327950288L / 180.L);
    if (psmin > 0)
    {
      if (fabsl(fabsl(ps) - psmin) < MARGIN) ambig = true;
      else if (fabsl(ps) < psmin) return g;
    }
    if (!undef(dir.cylrad) && dir.cylrad > 0)
    {
      // distance to the axis, computed without the cancellation of d*sqrt(1-ps^2)
      LD proj = dp / sqrtl(c2);
      LD o2   = d2 - proj * proj;
      LD dort = o2 > 0 ? sqrtl(o2) : 0.L;
      // the library evaluates sqrt(dn1*(1-ps*ps)) in double: absolute error up to ~ d*sqrt(eps)
      if (fabsl(dort - (LD)dir.cylrad) < 1e-6L * std::max((LD)1., d)) ambig = true;
      else if (dort > (LD)dir.cylrad) return g;
    }
    if (!undef(dir.bench) && dir.bench > 0)
    {
      LD dv = fabsl(del[nd - 1]);
      if (fabsl(dv - (LD)dir.bench) < MARGIN * std::max((LD)1., dv)) ambig = true;
      else if (dv > (LD)dir.bench) return g;
    }
    if (fabsl(ps) < MARGIN) g.orient = 0;
    else g.orient = ps > 0 ? 1 : -1;
  }
  else
    g.orient = 0;

  // lag assignment
  std::vector<int> cand; // boundary lags
  int k = -1;
  if (dir.breaks.empty())
  {
    LD q = d / (LD)dir.dpas;
    k    = (int)floorl(q + 0.5L);
    for (int kk = std::max(0, k - 1); kk <= k + 1; kk++)
    {
      LD r = fabsl(d - kk * (LD)dir.dpas);
      if (fabsl(r - (LD)dir.toldis * (LD)dir.dpas) < MARGIN * std::max((LD)dir.dpas, d)) cand.push_back(kk);
    }
    if (fabsl(d - k * (LD)dir.dpas) > (LD)dir.toldis * (LD)dir.dpas) k = -1;
  }
  else
  {
    int nb = (int)dir.breaks.size();
    for (int m = 0; m < nb; m++)
      if (fabsl(d - (LD)dir.breaks[m]) < MARGIN * std::max((LD)1., d))
      {
        cand.push_back(m - 1);
        cand.push_back(m);
      }
    for (int m = 0; m + 1 < nb; m++)
      if (d > (LD)dir.breaks[m] && d < (LD)dir.breaks[m + 1]) k = m;
  }
  for (int kk : cand)
    if (kk >= 0 && kk < dir.npas) g.taintLags.push_back(kk);
  if (!cand.empty())
  {
    // boundary between two classes or between a class and nothing: nothing is asserted for the lags involved
    if (k >= 0 && k < dir.npas) g.taintLags.push_back(k);
    g.reject = true;
    g.k      = -1;
    return g;
  }
  if (k < 0 || k >= dir.npas) return g;
  if (ambig)
  {
    g.taintLags.push_back(k);
    return g;
  }
  g.reject = false;
  g.k      = k;
  return g;
}

// two-point term of the even statistics for variables (a, b) between samples i and j
inline bool evenTerm(const Data& D, int mode, int a, int b, int i, int j, LD& v)
{
  double za1 = D.z[a][i], za2 = D.z[a][j], zb1 = D.z[b][i], zb2 = D.z[b][j];
  if (undef(za1) || undef(za2) || undef(zb1) || undef(zb2)) return false;
  LD p = ((LD)za2 - (LD)za1) * ((LD)zb2 - (LD)zb1);
  switch (mode)
  {
    case M_MADOGRAM: v = sqrtl(fabsl(p)) / 2; break;       // a == b : |dz| / 2
    case M_RODOGRAM: v = sqrtl(sqrtl(fabsl(p))) / 2; break; // a == b : sqrt|dz| / 2
    case M_ORDER4: v = p * p / 2; break;                    // a == b : dz^4 / 2
    default: v = p / 2; break;                              // (cross-)variogram
  }
  return true;
}

struct Result
{
  bool asym = false;
  int npas  = 0;
  Table T;  // even statistics, or odd statistics under pair rule N (the two values used must be defined)
  Table TS; // odd statistics under pair rule S (both variables defined at both points)
  std::vector<LD> meanA, meanB; // per variable pair rank: means used for the centred covariance
  int slotPos(int k) const { return npas + 1 + k; }
  int slotNeg(int k) const { return npas - 1 - k; }
  int slotCentre() const { return npas; }
};

inline void addCell(Cell& c, LD w, LD d, LD v)
{
  c.sw += w;
  c.sh += w * d;
  c.sg += w * v;
  c.sabs += w * fabsl(v);
  c.np++;
}

// odd statistic: contribution of the ordered couple (tail t, head h), (x_h - x_t).codir > 0, lag k:
//   +k : z_a(t) z_b(h)      -k : z_a(h) z_b(t)
inline void addOdd(const Data& D, Result& R, int t, int h, int k, LD d, LD w)
{
  for (int a = 0; a < D.nvar; a++)
    for (int b = 0; b <= a; b++)
    {
      double zat = D.z[a][t], zah = D.z[a][h], zbt = D.z[b][t], zbh = D.z[b][h];
      bool all4 = !undef(zat) && !undef(zah) && !undef(zbt) && !undef(zbh);
      if (!undef(zat) && !undef(zbh)) addCell(R.T.at(a, b, R.slotPos(k)), w, d, (LD)zat * (LD)zbh);
      if (!undef(zah) && !undef(zbt)) addCell(R.T.at(a, b, R.slotNeg(k)), w, -d, (LD)zah * (LD)zbt);
      if (all4)
      {
        addCell(R.TS.at(a, b, R.slotPos(k)), w, d, (LD)zat * (LD)zbh);
        addCell(R.TS.at(a, b, R.slotNeg(k)), w, -d, (LD)zah * (LD)zbt);
      }
    }
}
inline void taintOdd(Result& R, int nvar, int k, int side /*+1, -1, 0 = both*/)
{
  for (int a = 0; a < nvar; a++)
    for (int b = 0; b <= a; b++)
    {
      if (side >= 0) { R.T.at(a, b, R.slotPos(k)).taint = true; R.TS.at(a, b, R.slotPos(k)).taint = true; }
      if (side <= 0) { R.T.at(a, b, R.slotNeg(k)).taint = true; R.TS.at(a, b, R.slotNeg(k)).taint = true; }
    }
}

// centre (h = 0) of the odd statistics and means: samples where both variables are defined
inline void oddCentre(const Data& D, Result& R)
{
  int nr = D.nvar * (D.nvar + 1) / 2;
  R.meanA.assign(nr, 0);
  R.meanB.assign(nr, 0);
  for (int a = 0; a < D.nvar; a++)
    for (int b = 0; b <= a; b++)
    {
      LD sw = 0, ma = 0, mb = 0;
      for (int i = 0; i < D.n; i++)
      {
        if (!D.active(i)) continue;
        if (undef(D.z[a][i]) || undef(D.z[b][i])) continue;
        LD w = D.weight(i);
        sw += w;
        ma += w * D.z[a][i];
        mb += w * D.z[b][i];
        for (Table* T : {&R.T, &R.TS}) addCell(T->at(a, b, R.slotCentre()), w, 0, (LD)D.z[a][i] * (LD)D.z[b][i]);
      }
      int r = a * (a + 1) / 2 + b;
      if (sw > 0) { R.meanA[r] = ma / sw; R.meanB[r] = mb / sw; }
    }
}

// General (scattered data) algorithm: every unordered pair of active samples once.
inline Result general(const Data& D, const Dir& dir, int mode)
{
  Result R;
  R.asym = isAsym(mode);
  R.npas = dir.npas;
  int ns = R.asym ? 2 * dir.npas + 1 : dir.npas;
  R.T.init(D.nvar, ns);
  R.TS.init(D.nvar, ns);
  for (int i = 0; i < D.n; i++)
  {
    if (!D.active(i)) continue;
    for (int j = i + 1; j < D.n; j++)
    {
      if (!D.active(j)) continue;
      PairGeom g = pairGeom(D, dir, i, j);
      LD w = (LD)D.weight(i) * (LD)D.weight(j);
      if (!R.asym)
      {
        for (int k : g.taintLags)
          for (int a = 0; a < D.nvar; a++)
            for (int b = 0; b <= a; b++) R.T.at(a, b, k).taint = true;
        if (g.reject) continue;
        for (int a = 0; a < D.nvar; a++)
          for (int b = 0; b <= a; b++)
          {
            LD v;
            if (!evenTerm(D, mode, a, b, i, j, v)) continue;
            addCell(R.T.at(a, b, g.k), w, g.d, v);
          }
      }
      else
      {
        for (int k : g.taintLags) taintOdd(R, D.nvar, k, 0);
        if (g.reject) continue;
        if (g.orient == 0) { taintOdd(R, D.nvar, g.k, 0); continue; }
        int t = g.orient > 0 ? i : j, h = g.orient > 0 ? j : i;
        addOdd(D, R, t, h, g.k, g.d, w);
      }
    }
  }
  if (R.asym) oddCentre(D, R);
  return R;
}

// Grid algorithm: node i paired with node i + ipas*grincr, ipas = 1 .. npas-1, distance ipas*dpas
// ("In the case the Db correspond to a grid, the lag is defined as an increment on the grid meshes (grincr)").
// nx: grid dimensions, first index fastest (documented sample order of DbGrid).
inline Result onGrid(const Data& D, const std::vector<int>& nx, const std::vector<int>& grincr, int npas, double dpas,
                     int mode)
{
  Result R;
  R.asym = isAsym(mode);
  R.npas = npas;
  int ns = R.asym ? 2 * npas + 1 : npas;
  R.T.init(D.nvar, ns);
  R.TS.init(D.nvar, ns);
  int nd = (int)nx.size();
  std::vector<int> ind(nd), ind2(nd);
  for (int i = 0; i < D.n; i++)
  {
    if (!D.active(i)) continue;
    int r = i;
    for (int k = 0; k < nd; k++) { ind[k] = r % nx[k]; r /= nx[k]; }
    for (int ip = 1; ip < npas; ip++)
    {
      bool in = true;
      for (int k = 0; k < nd; k++)
      {
        ind2[k] = ind[k] + ip * grincr[k];
        if (ind2[k] < 0 || ind2[k] >= nx[k]) in = false;
      }
      if (!in) continue;
      int j = 0;
      for (int k = nd - 1; k >= 0; k--) j = j * nx[k] + ind2[k];
      if (!D.active(j)) continue;
      LD w = (LD)D.weight(i) * (LD)D.weight(j);
      LD d = (LD)ip * (LD)dpas;
      if (!R.asym)
      {
        for (int a = 0; a < D.nvar; a++)
          for (int b = 0; b <= a; b++)
          {
            LD v;
            if (!evenTerm(D, mode, a, b, i, j, v)) continue;
            addCell(R.T.at(a, b, ip), w, d, v);
          }
      }
      else
        addOdd(D, R, i, j, ip, d, w);
    }
  }
  if (R.asym) oddCentre(D, R);
  return R;
}

// Generalised variogram of order k (k = 1, 2, 3) along a grid direction (Chiles & Delfiner, Geostatistics, sec. 4.7):
//   Gamma_k(h) = 1/M_k  E[ ( sum_{p=0}^{k+1} (-1)^p C(k+1,p) Z(x + p h) )^2 ],   M_k = C(2k+2, k+1)
// every node of the (k+2)-point stencil must be inside the grid, active and defined.
inline Result generalized(const Data& D, const std::vector<int>& nx, const std::vector<int>& grincr, int npas,
                          double dpas, int order)
{
  Result R;
  R.npas = npas;
  R.T.init(1, npas);
  int nd    = (int)nx.size();
  int npts  = order + 2;
  LD binom[6];
  binom[0] = 1;
  for (int p = 1; p < npts; p++) binom[p] = binom[p - 1] * (LD)(order + 1 - p + 1) / (LD)p;
  LD M = 1; // C(2k+2, k+1)
  for (int p = 1; p <= order + 1; p++) M = M * (LD)(order + 1 + p) / (LD)p;
  std::vector<int> ind(nd), ind2(nd);
  for (int i = 0; i < D.n; i++)
  {
    int r = i;
    for (int k = 0; k < nd; k++) { ind[k] = r % nx[k]; r /= nx[k]; }
    for (int ip = 1; ip < npas; ip++)
    {
      LD s    = 0;
      bool ok = true;
      for (int p = 0; p < npts && ok; p++)
      {
        for (int k = 0; k < nd; k++)
        {
          ind2[k] = ind[k] + p * ip * grincr[k];
          if (ind2[k] < 0 || ind2[k] >= nx[k]) ok = false;
        }
        if (!ok) break;
        int j = 0;
        for (int k = nd - 1; k >= 0; k--) j = j * nx[k] + ind2[k];
        if (!D.active(j) || undef(D.z[0][j])) { ok = false; break; }
        s += ((p % 2) ? -1.L : 1.L) * binom[p] * (LD)D.z[0][j];
      }
      if (!ok) continue;
      addCell(R.T.at(0, 0, ip), 1.L, (LD)ip * (LD)dpas, s * s / M);
    }
  }
  return R;
}
} // namespace refv
