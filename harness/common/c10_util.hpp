// C10 helpers: canonical 64-bit digests (bit-for-bit) and run-in-forked-child.
#pragma once
#include <cstdint>
#include <cstring>
#include <string>
#include <vector>
#include <functional>
#include <cmath>
#include <cerrno>
#include <csignal>
#include <poll.h>
#include <sys/types.h>
#include <sys/wait.h>
#include <time.h>
#include <unistd.h>

namespace c10
{
// ---------------------------------------------------------------------------------------------
// Digest: FNV-1a/64 over a canonical byte stream. Doubles enter bit-for-bit (all NaNs folded to one pattern,
// -0.0 kept distinct from +0.0 on purpose: "same result" is meant bit-for-bit).
// ---------------------------------------------------------------------------------------------
struct Dig
{
  uint64_t h = 1469598103934665603ULL;
  void bytes(const void* p, size_t n)
  {
    const unsigned char* c = (const unsigned char*)p;
    for (size_t i = 0; i < n; i++) h = (h ^ c[i]) * 1099511628211ULL;
  }
  void u64(uint64_t v) { bytes(&v, 8); }
  void i(long long v) { bytes(&v, 8); }
  void d(double v)
  {
    uint64_t b;
    if (std::isnan(v)) b = 0x7ff8000000000000ULL;
    else memcpy(&b, &v, 8);
    u64(b);
  }
  void s(const std::string& v) { i((long long)v.size()); bytes(v.data(), v.size()); }
  void tag(const char* t) { bytes(t, strlen(t)); h = (h ^ 0xff) * 1099511628211ULL; }
  template<class V> void vd(const V& v) { i((long long)v.size()); for (size_t k = 0; k < (size_t)v.size(); k++) d((double)v[k]); }
  template<class V> void vi(const V& v) { i((long long)v.size()); for (size_t k = 0; k < (size_t)v.size(); k++) i((long long)v[k]); }
  std::string hex() const
  {
    char b[20];
    snprintf(b, 20, "%016llx", (unsigned long long)h);
    return b;
  }
};

// ---------------------------------------------------------------------------------------------
// Forked child: runs fn() in a copy of the current process, returns what fn returned (a string) through a pipe.
// The child never returns into the harness runtime (no log writes, no atexit): _exit only.
// ---------------------------------------------------------------------------------------------
struct Child
{
  bool ok       = false; // exited normally with code 0 and delivered its payload
  bool signaled = false;
  bool timedout = false;
  int sig       = 0;
  int code      = 0;
  std::string data;     // payload (or "EXC:<what>" with code 4)
  std::string progress; // what the child wrote with c10::progress() before finishing or dying
  std::string why() const
  {
    char b[96];
    if (timedout) return "timeout";
    if (signaled) { snprintf(b, 96, "signal %d (%s)", sig, strsignal(sig)); return b; }
    if (code == 4) return "exception " + data;
    snprintf(b, 96, "exit code %d", code);
    return b;
  }
};

// progress channel: inside a child, c10::progress("...") sends bytes to the parent immediately (they survive a crash)
inline int& childFd() { static int fd = -1; return fd; }
inline void progress(const std::string& s)
{
  if (childFd() < 0) return;
  size_t off = 0;
  while (off < s.size())
  {
    ssize_t w = write(childFd(), s.data() + off, s.size() - off);
    if (w <= 0) { if (errno == EINTR) continue; break; }
    off += (size_t)w;
  }
}

inline double nowsec()
{
  struct timespec ts;
  clock_gettime(CLOCK_MONOTONIC, &ts);
  return ts.tv_sec + 1e-9 * ts.tv_nsec;
}

inline Child run_child(const std::function<std::string()>& fn, double timeout_s = 120.0)
{
  Child r;
  int fd[2];
  if (pipe(fd) != 0) { r.code = -1; return r; }
  fflush(stdout);
  fflush(stderr);
  pid_t pid = fork();
  if (pid < 0) { close(fd[0]); close(fd[1]); r.code = -2; return r; }
  if (pid == 0)
  {
    close(fd[0]);
    childFd() = fd[1];
    std::string out;
    int code = 0;
    try
    {
      out = fn();
    }
    catch (const std::exception& e)
    {
      out  = std::string("EXC:") + e.what();
      code = 4;
    }
    catch (const char* e)
    {
      out  = std::string("EXC:const char*:") + e;
      code = 4;
    }
    catch (...)
    {
      out  = "EXC:unknown";
      code = 4;
    }
    progress(std::string("\x1d") + out); // marker, then the payload
    close(fd[1]);
    _exit(code);
  }
  close(fd[1]);
  double t0 = nowsec();
  char buf[4096];
  for (;;)
  {
    double left = timeout_s - (nowsec() - t0);
    if (left <= 0) { r.timedout = true; break; }
    struct pollfd p = {fd[0], POLLIN, 0};
    int pr          = poll(&p, 1, (int)std::min(left * 1000.0 + 1, 1000.0));
    if (pr < 0) { if (errno == EINTR) continue; break; }
    if (pr == 0) continue;
    ssize_t n = read(fd[0], buf, sizeof buf);
    if (n < 0) { if (errno == EINTR) continue; break; }
    if (n == 0) break;
    r.data.append(buf, (size_t)n);
  }
  close(fd[0]);
  if (r.timedout) kill(pid, SIGKILL);
  int st = 0;
  while (waitpid(pid, &st, 0) < 0 && errno == EINTR) {}
  if (WIFSIGNALED(st)) { r.signaled = true; r.sig = WTERMSIG(st); }
  else if (WIFEXITED(st)) r.code = WEXITSTATUS(st);
  size_t mk = r.data.rfind('\x1d');
  if (mk == std::string::npos) { r.progress = r.data; r.data.clear(); }
  else { r.progress = r.data.substr(0, mk); r.data = r.data.substr(mk + 1); }
  r.ok = !r.timedout && !r.signaled && r.code == 0;
  return r;
}

// ---------------------------------------------------------------------------------------------
// Oracle evaluations made inside a child, shipped to the parent as text
// ---------------------------------------------------------------------------------------------
struct Rec
{
  std::string oracle, key, detail;
  bool ok;
  double err = 0, tol = 0;
};
inline std::string packRecs(const std::vector<Rec>& v)
{
  std::string o;
  char b[80];
  for (auto& e : v)
  {
    snprintf(b, 80, "%.17g\x1f%.17g", e.err, e.tol);
    o += e.oracle + "\x1f" + e.key + "\x1f" + (e.ok ? "1" : "0") + "\x1f" + b + "\x1f" + e.detail + "\x1e";
  }
  return o;
}
inline std::vector<Rec> unpackRecs(const std::string& s)
{
  std::vector<Rec> v;
  size_t p = 0;
  while (p < s.size())
  {
    size_t e = s.find('\x1e', p);
    if (e == std::string::npos) break;
    std::string line = s.substr(p, e - p);
    p = e + 1;
    std::vector<std::string> f;
    size_t q = 0;
    for (int i = 0; i < 5; i++) { size_t t = line.find('\x1f', q); if (t == std::string::npos) break; f.push_back(line.substr(q, t - q)); q = t + 1; }
    if (f.size() != 5) continue;
    Rec r{f[0], f[1], line.substr(q), f[2] == "1"};
    r.err = strtod(f[3].c_str(), nullptr);
    r.tol = strtod(f[4].c_str(), nullptr);
    v.push_back(r);
  }
  return v;
}
} // namespace c10
