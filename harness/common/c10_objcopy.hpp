// C10 part 3b: object copies are independent of their source (copy constructor / clone() / assignment).
//
// For a class T:  A = build(seed);  B = copy of A (three ways);  digest(B) must equal digest(A);
// then one side is modified by random public mutators: the digest of the OTHER side must not move, also after the
// modified side has been destroyed (a shallow copy then reads freed memory: ASan).  The modified side must equal a
// twin built from the same seed and modified the same way with no copy around.
#pragma once
#include "common/vh.hpp"
#include "common/c10_util.hpp"
#include "common/c10_world.hpp"
#include "Geometry/BiTargetCheckCode.hpp"
#include "Geometry/BiTargetCheckBench.hpp"
#include "Matrix/MatrixSparse.hpp"
#include "Anamorphosis/AnamHermite.hpp"
#include "Space/SpacePoint.hpp"

namespace c10o
{
using namespace c10w;
using vh::Ctx;
using vh::fmt;

template<class T> struct Kit
{
  std::string cls;
  std::function<T*(Rng&)> build;                       // from a sub-stream (deterministic)
  std::function<std::string(T*)> digest;               // canonical content + answers
  std::function<T*(const T*)> copyCtor, clone;
  std::function<void(T*, const T*)> assign;
  std::vector<std::pair<std::string, std::function<void(T*, Rng&)>>> mut;
};

// set by a mutator that made a covariance-matrix request FAIL (known defect D1: the optimisation cache stays set);
// every failure of a history containing such a request is reported under the single stale-cache key.
static int g_failedOptimRequest = 0; // 1: evalCovMatrixOptim, 2: evalCovMatrixSymmetricOptim
static const char* const STALE_KEY[3] = {"", "C10:stale-cache:evalCovMatrixOptim-after-failed-request",
                                            "C10:stale-cache:evalCovMatrixSymmetricOptim-after-failed-request"};

using c10::Rec;
using c10::packRecs;
using c10::unpackRecs;

// body of one copy experiment; returns the oracle evaluations (so that it can run in a forked child)
template<class T> std::vector<Rec> kitBody(Rng r, Kit<T>& k, int how, const std::string& base, std::string& hist)
{
  std::vector<Rec> out;
  uint64_t sub = r.next();
  Rng ra(sub);
  std::unique_ptr<T> A(k.build(ra));
  Rng rt(sub);
  std::unique_ptr<T> twin(k.build(rt));       // same content, never copied
  // the source has a life before it is copied (0-2 modifications, e.g. a cached decomposition or a failed request)
  for (int s = 0, npre = r.irange(0, 2); s < npre; s++)
  {
    int im      = r.irange(0, (int)k.mut.size() - 1);
    uint64_t ms = r.next();
    Rng r1(ms), r2(ms);
    k.mut[im].second(A.get(), r1);
    k.mut[im].second(twin.get(), r2);
    hist += (hist.empty() ? "pre:" : ",pre:") + k.mut[im].first;
  }
  std::string d0 = k.digest(A.get());
  std::unique_ptr<T> B;
  if (how == 0) B.reset(k.copyCtor(A.get()));
  else if (how == 1) B.reset(k.clone(A.get()));
  else
  {
    Rng rb(r.next());
    B.reset(k.build(rb)); // an existing object with another content, overwritten by assignment
    k.assign(B.get(), A.get());
  }
  out.push_back({"copy-equal", base + ":differs-from-source", k.cls, k.digest(B.get()) == d0});
  out.push_back({"copy-equal", base + ":source-changed-by-copying", k.cls, k.digest(A.get()) == d0});

  bool mutateCopy = r.coin();
  std::unique_ptr<T>& X = mutateCopy ? B : A; // modified side
  std::unique_ptr<T>& Y = mutateCopy ? A : B; // observed side
  int nm = r.irange(1, 4);
  bool moved = false;
  for (int s = 0; s < nm; s++)
  {
    int im      = r.irange(0, (int)k.mut.size() - 1);
    uint64_t ms = r.next();
    Rng r1(ms), r2(ms);
    k.mut[im].second(X.get(), r1);
    k.mut[im].second(twin.get(), r2);
    hist += (hist.empty() ? "" : ",") + k.mut[im].first;
    std::string side = mutateCopy ? "copy" : "source";
    out.push_back({"copy-indep", base + ":" + k.mut[im].first + ":modifying-" + side + "-changes-the-other", k.cls + " after " + hist,
                   k.digest(Y.get()) == d0});
    std::string dx = k.digest(X.get());
    if (dx != d0) moved = true;
    out.push_back({"copy-twin", base + ":" + k.mut[im].first + ":modified-" + side + "-differs-from-uncopied-twin", k.cls + " after " + hist,
                   dx == k.digest(twin.get())});
  }
  X.reset();
  out.push_back({"copy-indep", base + ":destroying-one-changes-the-other", k.cls + " after " + hist, k.digest(Y.get()) == d0});
  Y.reset();
  twin.reset();
  out.push_back({"PROBE", moved ? "objcopy-mutation-visible:" + k.cls : "objcopy-mutation-invisible:" + k.cls, hist, true});
  return out;
}

// inChild[how]: run the experiment in a forked child (for classes where a known defect aborts the process)
template<class T> void runKit(Rng& r, Ctx& c, Kit<T>& k, const bool* inChild = nullptr)
{
  int how        = r.irange(0, 2);
  const char* hn = how == 0 ? "copy-ctor" : how == 1 ? "clone" : "assign";
  c.setSig("obj:" + k.cls + ":" + hn);
  std::string base = "C10:copy:" + k.cls + ":" + hn;
  Rng body(r.next());
  g_failedOptimRequest = 0;
  std::vector<Rec> recs;
  std::string hist;
  if (inChild != nullptr && inChild[how])
  {
    c10::Child ch = c10::run_child([&]() -> std::string { std::string h; return packRecs(kitBody(body, k, how, base, h)); });
    c.truth("copy-survives", base + ":process-dies", ch.ok, k.cls + ": child " + ch.why());
    if (ch.ok) recs = unpackRecs(ch.data);
  }
  else recs = kitBody(body, k, how, base, hist);
  for (auto& e : recs)
  {
    if (e.oracle == "PROBE") { c.probe(e.key); c.puts("mutators", e.detail); }
    else if (!e.ok && g_failedOptimRequest) c.truth(e.oracle, STALE_KEY[g_failedOptimRequest], false, "(" + e.key + ") " + e.detail);
    else c.truth(e.oracle, e.key, e.ok, e.detail);
  }
  if (g_failedOptimRequest) c.probe("objcopy-history-with-failed-optim-request");
}

// ------------------------------------------------------------------------------------------------ Db / DbGrid
inline void dbMutators(std::vector<std::pair<std::string, std::function<void(Db*, Rng&)>>>& m, bool grid)
{
  m.push_back({"setArray", [](Db* d, Rng& r) {
    int ic = r.irange(0, d->getColumnNumber() - 1), ie = r.irange(0, d->getSampleNumber() - 1);
    d->setArray(ie, d->getUIDByColIdx(ic), r.uni(-5, 5)); }});
  m.push_back({"setValue", [](Db* d, Rng& r) {
    int ic = r.irange(0, d->getColumnNumber() - 1), ie = r.irange(0, d->getSampleNumber() - 1);
    d->setValue(d->getNameByColIdx(ic), ie, r.uni(-5, 5)); }});
  m.push_back({"setColumnByColIdx", [](Db* d, Rng& r) {
    int ic = r.irange(0, d->getColumnNumber() - 1);
    VectorDouble t(d->getSampleNumber());
    for (int i = 0; i < (int)t.size(); i++) t[i] = r.uni(-5, 5);
    d->setColumnByColIdx(t, ic); }});
  m.push_back({"addColumnsByConstant", [](Db* d, Rng& r) { d->addColumnsByConstant(r.irange(1, 2), r.uni(-1, 1), "added"); }});
  m.push_back({"addColumns", [](Db* d, Rng& r) {
    VectorDouble t(d->getSampleNumber());
    for (int i = 0; i < (int)t.size(); i++) t[i] = r.uni(-5, 5);
    d->addColumns(t, "addcol", ELoc::Z, 0); }});
  m.push_back({"deleteColumnByColIdx", [](Db* d, Rng& r) {
    if (d->getColumnNumber() <= 3) return;
    d->deleteColumnByColIdx(r.irange(3, d->getColumnNumber() - 1)); }});
  m.push_back({"setNameByColIdx", [](Db* d, Rng& r) { d->setNameByColIdx(r.irange(0, d->getColumnNumber() - 1), "renamed"); }});
  m.push_back({"setLocatorByColIdx", [](Db* d, Rng& r) {
    d->setLocatorByColIdx(r.irange(0, d->getColumnNumber() - 1), r.coin() ? ELoc::Z : ELoc::F, r.irange(0, 1)); }});
  m.push_back({"clearLocators", [](Db* d, Rng& r) { d->clearLocators(r.coin() ? ELoc::Z : ELoc::SEL); }});
  m.push_back({"addSelection", [](Db* d, Rng& r) {
    VectorDouble t(d->getSampleNumber());
    for (int i = 0; i < (int)t.size(); i++) t[i] = r.coin(0.7) ? 1. : 0.;
    d->addSelection(t, "selnew"); }});
  m.push_back({"setCoordinate", [](Db* d, Rng& r) { d->setCoordinate(r.irange(0, d->getSampleNumber() - 1), r.irange(0, 1), r.uni(0, 50)); }});
  if (!grid)
  {
    m.push_back({"deleteSample", [](Db* d, Rng& r) { if (d->getSampleNumber() > 2) d->deleteSample(r.irange(0, d->getSampleNumber() - 1)); }});
    m.push_back({"addSamples", [](Db* d, Rng& r) { d->addSamples(r.irange(1, 3), r.uni(0, 1)); }});
  }
}
inline std::string dbDigest(Db* d)
{
  return digOf([&](Dig& g) {
    digDb(g, d);
    digVD(g, d->getExtrema(0, true));
    g.i(d->getSampleNumber(true));
    g.i(d->getLocatorNumber(ELoc::Z));
  });
}

inline void objDb(Rng& r, Ctx& c)
{
  Kit<Db> k;
  k.cls   = "Db";
  k.build = [](Rng& q) {
    DbSpec s;
    s.n      = q.irange(3, 25);
    s.nvar   = q.irange(1, 2);
    s.sel    = q.coin(0.4) ? 0.3 : 0.;
    s.hetero = q.coin(0.3) ? 0.2 : 0.;
    s.verr   = q.coin(0.2);
    return mkDb(q, s).release();
  };
  k.digest   = dbDigest;
  k.copyCtor = [](const Db* a) { return new Db(*a); };
  k.clone    = [](const Db* a) { return a->clone(); };
  k.assign   = [](Db* b, const Db* a) { *b = *a; };
  dbMutators(k.mut, false);
  runKit(r, c, k);
}
inline void objDbGrid(Rng& r, Ctx& c)
{
  Kit<DbGrid> k;
  k.cls   = "DbGrid";
  k.build = [](Rng& q) {
    GridSpec g = mkGridSpec(q, 6);
    g.nvar     = q.irange(0, 2);
    g.sel      = q.coin(0.3) ? 0.3 : 0.;
    return mkGrid(q, g).release();
  };
  k.digest   = [](DbGrid* d) { return dbDigest(d); };
  k.copyCtor = [](const DbGrid* a) { return new DbGrid(*a); };
  k.clone    = [](const DbGrid* a) { return a->clone(); };
  k.assign   = [](DbGrid* b, const DbGrid* a) { *b = *a; };
  std::vector<std::pair<std::string, std::function<void(Db*, Rng&)>>> m;
  dbMutators(m, true);
  for (auto& e : m)
  {
    auto f = e.second;
    k.mut.push_back({e.first, [f](DbGrid* d, Rng& q) { f(d, q); }});
  }
  runKit(r, c, k);
}

// ------------------------------------------------------------------------------------------------ Model
inline Db* probeDb()
{
  // fixed probe points for covariance-matrix answers
  static UDb db;
  if (!db)
  {
    Rng q(424242);
    DbSpec s;
    s.n = 6;
    db  = mkDb(q, s);
  }
  return db.get();
}
inline Db* maskedDb()
{
  static UDb db;
  if (!db)
  {
    Rng q(77);
    DbSpec s;
    s.n   = 9; // more samples than the probe Db: a stale projection is then wrong, not out of bounds
    s.sel = 1.;
    db    = mkDb(q, s);
  }
  return db.get();
}
inline std::string modelDigest(Model* m)
{
  return digOf([&](Dig& g) {
    digModel(g, m);
    if (m->getCovaNumber() > 0 && m->getVariableNumber() == 1)
    {
      digMat(g, m->evalCovMatrixSymmetric(probeDb()));
      if (m->getDriftNumber() > 0) digMat(g, m->evalDriftMatrix(probeDb()));
    }
  });
}
inline void objModel(Rng& r, Ctx& c)
{
  Kit<Model> k;
  k.cls   = "Model";
  k.build = [](Rng& q) {
    ModelSpec s;
    s.nvar   = q.coin(0.7) ? 1 : 2;
    s.nugget = q.coin(0.6);
    s.drift  = q.irange(-1, 1);
    return mkModel(q, s).release();
  };
  k.digest   = modelDigest;
  k.copyCtor = [](const Model* a) { return new Model(*a); };
  k.clone    = [](const Model* a) { return a->clone(); };
  k.assign   = [](Model* b, const Model* a) { *b = *a; };
  k.mut.push_back({"setSill", [](Model* m, Rng& q) { m->setSill(q.irange(0, m->getCovaNumber() - 1), 0, 0, q.uni(0.5, 4)); }});
  k.mut.push_back({"setRangeIsotropic", [](Model* m, Rng& q) { m->setRangeIsotropic(m->getCovaNumber() - 1, q.uni(5, 60)); }});
  k.mut.push_back({"addCovFromParam", [](Model* m, Rng& q) { addStruct(q, m, m->getVariableNumber(), 30.); }});
  k.mut.push_back({"delCova", [](Model* m, Rng& q) { if (m->getCovaNumber() > 1) m->delCova(q.irange(0, m->getCovaNumber() - 1)); }});
  k.mut.push_back({"setDriftIRF", [](Model* m, Rng& q) { m->setDriftIRF(q.irange(0, 2)); }});
  k.mut.push_back({"delAllDrifts", [](Model* m, Rng&) { m->delAllDrifts(); }});
  k.mut.push_back({"setMeans", [](Model* m, Rng& q) { VectorDouble v(m->getVariableNumber()); for (auto& x : v) x = q.uni(-3, 3); m->setMeans(v); }});
  k.mut.push_back({"cova.setAnisoAngles", [](Model* m, Rng& q) { m->getCova(m->getCovaNumber() - 1)->setAnisoAngles(VectorDouble({q.uni(0, 180), 0.})); }});
  k.mut.push_back({"cova.setRanges", [](Model* m, Rng& q) {
    CovAniso* cv = m->getCova(m->getCovaNumber() - 1);
    if (cv->getType() == ECov::NUGGET) return;
    cv->setRanges(VectorDouble({q.uni(5, 50), q.uni(5, 50)})); }});
  k.mut.push_back({"setCovaFiltered", [](Model* m, Rng& q) { if (m->getCovaNumber() > 1) m->setCovaFiltered(q.irange(0, m->getCovaNumber() - 1), true); }});
  // a request that fails (every sample masked): must leave no trace. Drawn with a reduced weight because the known
  // stale-cache defect turns every later answer of that object wrong.
  k.mut.push_back({"failed-evalCovMatrixOptim", [](Model* m, Rng& q) {
    if (!q.coin(0.3)) return;
    if (q.coin()) { if (!g_failedOptimRequest) g_failedOptimRequest = 1; (void)m->evalCovMatrixOptim(maskedDb()); }
    else { if (!g_failedOptimRequest) g_failedOptimRequest = 2; (void)m->evalCovMatrixSymmetricOptim(maskedDb()); } }});
  runKit(r, c, k);
}

// ------------------------------------------------------------------------------------------------ Vario
inline void objVario(Rng& r, Ctx& c)
{
  Kit<Vario> k;
  k.cls   = "Vario";
  k.build = [](Rng& q) {
    DbSpec s;
    s.n    = q.irange(10, 30);
    s.nvar = q.coin(0.7) ? 1 : 2;
    UDb db = mkDb(q, s);
    VarioParam vp = mkVarioParam(q);
    return Vario::computeFromDb(vp, db.get());
  };
  k.digest   = [](Vario* v) { return digOf([&](Dig& g) { digVario(g, v); }); };
  k.copyCtor = [](const Vario* a) { return new Vario(*a); };
  k.clone    = [](const Vario* a) { return a->clone(); };
  k.assign   = [](Vario* b, const Vario* a) { *b = *a; };
  k.mut.push_back({"setGg", [](Vario* v, Rng& q) { int id = q.irange(0, v->getDirectionNumber() - 1); v->setGg(id, 0, 0, q.irange(0, v->getLagNumber(id) - 1), q.uni(0, 5)); }});
  k.mut.push_back({"setSw", [](Vario* v, Rng& q) { int id = q.irange(0, v->getDirectionNumber() - 1); v->setSw(id, 0, 0, q.irange(0, v->getLagNumber(id) - 1), q.uni(1, 50)); }});
  k.mut.push_back({"setHh", [](Vario* v, Rng& q) { int id = q.irange(0, v->getDirectionNumber() - 1); v->setHh(id, 0, 0, q.irange(0, v->getLagNumber(id) - 1), q.uni(1, 50)); }});
  k.mut.push_back({"setVar", [](Vario* v, Rng& q) { v->setVar(q.uni(0.5, 5), 0, 0); }});
  k.mut.push_back({"setGgVec", [](Vario* v, Rng& q) {
    int id = q.irange(0, v->getDirectionNumber() - 1);
    VectorDouble g(v->getLagNumber(id));
    for (auto& x : g) x = q.uni(0, 4);
    v->setGgVec(id, 0, 0, g); }});
  k.mut.push_back({"compute(other db)", [](Vario* v, Rng& q) {
    DbSpec s;
    s.n    = q.irange(10, 25);
    s.nvar = v->getVariableNumber();
    UDb db = mkDb(q, s);
    v->compute(db.get()); }});
  // Known defect (Vario copy/assignment share or drop the owned bi-point checkers): the experiment may abort.
  static const bool inChild[3] = {true, true, true};
  runKit(r, c, k, inChild);
}

// ------------------------------------------------------------------------------------------------ matrices
template<class MT> std::string matDigest(MT* m)
{
  return digOf([&](Dig& g) {
    digMat(g, *m);
    if constexpr (std::is_base_of<AMatrixDense, MT>::value)
    {
      digVD(g, m->getEigenValues());
      const MatrixSquareGeneral* ev = m->getEigenVectors();
      g.i(ev != nullptr ? 1 : 0);
      if (ev != nullptr) digMat(g, *ev);
    }
  });
}
template<class MT> void matMutators(Kit<MT>& k, bool square, bool sym, bool sparse)
{
  k.mut.push_back({"setValue", [](MT* m, Rng& q) { m->setValue(q.irange(0, m->getNRows() - 1), q.irange(0, m->getNCols() - 1), q.uni(-3, 3)); }});
  k.mut.push_back({"prodScalar", [](MT* m, Rng& q) { m->prodScalar(q.uni(1.5, 3)); }});
  k.mut.push_back({"addValue", [](MT* m, Rng& q) { m->addValue(q.irange(0, m->getNRows() - 1), q.irange(0, m->getNCols() - 1), q.uni(1, 3)); }});
  if (!sparse)
  {
    k.mut.push_back({"fill", [](MT* m, Rng& q) { m->fill(q.uni(-3, 3)); }});
    k.mut.push_back({"addScalar", [](MT* m, Rng& q) { m->addScalar(q.uni(1, 3)); }});
    k.mut.push_back({"setValues", [](MT* m, Rng& q) {
      int nr = m->getNRows(), nc = m->getNCols();
      VectorDouble v(nr * nc);
      for (int i = 0; i < nr; i++) for (int j = 0; j < nc; j++) { double x = q.uni(-2, 2); v[j * nr + i] = x; }
      if (nr == nc) for (int i = 0; i < nr; i++) for (int j = 0; j < i; j++) v[j * nr + i] = v[i * nr + j]; // keep symmetric input valid for all
      m->setValues(v); }});
  }
  if (!sym)
  {
    k.mut.push_back({"transposeInPlace", [](MT* m, Rng&) { m->transposeInPlace(); }});
    k.mut.push_back({"setColumn", [](MT* m, Rng& q) { VectorDouble v(m->getNRows()); for (auto& x : v) x = q.uni(-2, 2); m->setColumn(q.irange(0, m->getNCols() - 1), v); }});
    k.mut.push_back({"setRow", [](MT* m, Rng& q) { VectorDouble v(m->getNCols()); for (auto& x : v) x = q.uni(-2, 2); m->setRow(q.irange(0, m->getNRows() - 1), v); }});
  }
  if (square)
  {
    k.mut.push_back({"addScalarDiag", [](MT* m, Rng& q) { m->addScalarDiag(q.uni(1, 3)); }});
    k.mut.push_back({"setDiagonalToConstant", [](MT* m, Rng& q) { m->setDiagonalToConstant(q.uni(2, 5)); }});
  }
}
inline VectorDouble randVals(Rng& q, int nr, int nc, bool sym, bool dominant)
{
  VectorDouble v(nr * nc);
  for (int j = 0; j < nc; j++) for (int i = 0; i < nr; i++) v[j * nr + i] = q.uni(-1, 1);
  if (sym) for (int i = 0; i < nr; i++) for (int j = 0; j < i; j++) v[j * nr + i] = v[i * nr + j];
  if (dominant) for (int i = 0; i < std::min(nr, nc); i++) v[i * nr + i] += nr + 1.;
  return v;
}
inline void objMatrix(Rng& r, Ctx& c)
{
  int which = r.irange(0, 3);
  if (which == 0)
  {
    Kit<MatrixRectangular> k;
    k.cls      = "MatrixRectangular";
    k.build    = [](Rng& q) { int nr = q.irange(1, 6), nc = q.irange(1, 6); auto* m = new MatrixRectangular(nr, nc); m->setValues(randVals(q, nr, nc, false, false)); return m; };
    k.digest   = matDigest<MatrixRectangular>;
    k.copyCtor = [](const MatrixRectangular* a) { return new MatrixRectangular(*a); };
    k.clone    = [](const MatrixRectangular* a) { return a->clone(); };
    k.assign   = [](MatrixRectangular* b, const MatrixRectangular* a) { *b = *a; };
    matMutators(k, false, false, false);
    k.mut.push_back({"addRow", [](MatrixRectangular* m, Rng& q) { m->addRow(q.irange(1, 2)); }});
    k.mut.push_back({"addColumn", [](MatrixRectangular* m, Rng& q) { m->addColumn(q.irange(1, 2)); }});
    k.mut.push_back({"resize", [](MatrixRectangular* m, Rng& q) { m->resize(q.irange(1, 6), q.irange(1, 6)); m->fill(1.5); }});
    runKit(r, c, k);
  }
  else if (which == 1)
  {
    Kit<MatrixSquareGeneral> k;
    k.cls      = "MatrixSquareGeneral";
    k.build    = [](Rng& q) { int n = q.irange(1, 6); auto* m = new MatrixSquareGeneral(n); m->setValues(randVals(q, n, n, false, true)); return m; };
    k.digest   = matDigest<MatrixSquareGeneral>;
    k.copyCtor = [](const MatrixSquareGeneral* a) { return new MatrixSquareGeneral(*a); };
    k.clone    = [](const MatrixSquareGeneral* a) { return a->clone(); };
    k.assign   = [](MatrixSquareGeneral* b, const MatrixSquareGeneral* a) { *b = *a; };
    matMutators(k, true, false, false);
    k.mut.push_back({"invert", [](MatrixSquareGeneral* m, Rng&) { (void)m->invert(); }});
    runKit(r, c, k);
  }
  else if (which == 2)
  {
    Kit<MatrixSquareSymmetric> k;
    k.cls   = "MatrixSquareSymmetric";
    k.build = [](Rng& q) {
      int n   = q.irange(1, 6);
      auto* m = new MatrixSquareSymmetric(n);
      m->setValues(randVals(q, n, n, true, true));
      if (q.coin(0.5)) (void)m->computeEigen(); // the copy is then taken from a matrix holding an eigen decomposition
      return m;
    };
    k.digest   = matDigest<MatrixSquareSymmetric>;
    k.copyCtor = [](const MatrixSquareSymmetric* a) { return new MatrixSquareSymmetric(*a); };
    k.clone    = [](const MatrixSquareSymmetric* a) { return a->clone(); };
    k.assign   = [](MatrixSquareSymmetric* b, const MatrixSquareSymmetric* a) { *b = *a; };
    matMutators(k, true, true, false);
    k.mut.push_back({"invert", [](MatrixSquareSymmetric* m, Rng&) { (void)m->invert(); }});
    k.mut.push_back({"computeEigen", [](MatrixSquareSymmetric* m, Rng&) { (void)m->computeEigen(); }});
    runKit(r, c, k);
  }
  else
  {
    Kit<MatrixSparse> k;
    k.cls   = "MatrixSparse";
    k.build = [](Rng& q) {
      int nr = q.irange(2, 6), nc = q.irange(2, 6);
      auto* m = new MatrixSparse(nr, nc);
      for (int i = 0; i < nr; i++) for (int j = 0; j < nc; j++) if (q.coin(0.5) || i == j) m->setValue(i, j, q.uni(-2, 2));
      return m;
    };
    k.digest   = matDigest<MatrixSparse>;
    k.copyCtor = [](const MatrixSparse* a) { return new MatrixSparse(*a); };
    k.clone    = [](const MatrixSparse* a) { return a->clone(); };
    k.assign   = [](MatrixSparse* b, const MatrixSparse* a) { *b = *a; };
    matMutators(k, false, true, true);
    k.mut.push_back({"transposeInPlace", [](MatrixSparse* m, Rng&) { m->transposeInPlace(); }});
    runKit(r, c, k);
  }
}

// ------------------------------------------------------------------------------------------------ Polygons
inline void objPoly(Rng& r, Ctx& c)
{
  Kit<Polygons> k;
  k.cls    = "Polygons";
  k.build  = [](Rng& q) { return mkPolygons(q).release(); };
  k.digest = [](Polygons* p) {
    return digOf([&](Dig& g) {
      digPoly(g, p);
      g.d(p->getSurface());
      for (int i = 0; i < 6; i++) g.i(p->inside(VectorDouble({20. + 12 * i, 80. - 11 * i})) ? 1 : 0);
    });
  };
  k.copyCtor = [](const Polygons* a) { return new Polygons(*a); };
  k.clone    = [](const Polygons* a) { return new Polygons(*a); }; // no clone() on Polygons: copy-ctor twice
  k.assign   = [](Polygons* b, const Polygons* a) { *b = *a; };
  k.mut.push_back({"setX", [](Polygons* p, Rng& q) { int ip = q.irange(0, p->getPolyElemNumber() - 1); VectorDouble x = p->getX(ip); for (auto& v : x) v += q.uni(-5, 5); x[x.size() - 1] = x[0]; p->setX(ip, x); }});
  k.mut.push_back({"setY", [](Polygons* p, Rng& q) { int ip = q.irange(0, p->getPolyElemNumber() - 1); VectorDouble y = p->getY(ip); for (auto& v : y) v += q.uni(-5, 5); y[y.size() - 1] = y[0]; p->setY(ip, y); }});
  k.mut.push_back({"addPolyElem", [](Polygons* p, Rng& q) { auto o = mkPolygons(q); p->addPolyElem(o->getPolyElem(0)); }});
  runKit(r, c, k);
}

// ------------------------------------------------------------------------------------------------ NeighMoving
inline std::string neighDigest(NeighMoving* n)
{
  return digOf([&](Dig& g) {
    g.i(n->getNMaxi()); g.i(n->getNMini()); g.i(n->getNSect()); g.i(n->getNSMax());
    g.d(n->getRadius()); g.i(n->getFlagXvalid()); g.i((long long)n->getBipts().size());
    digVD(g, n->getAnisoCoeffs());
    digVD(g, n->getAnisoRotMats());
    // answers: neighbourhoods of three fixed targets on the fixed probe Db
    static UDb in, out;
    if (!in)
    {
      Rng q(9001);
      DbSpec s;
      s.n    = 40;
      s.code = true;
      in     = mkDb(q, s);
      s.n    = 3;
      out    = mkDb(q, s);
    }
    n->attach(in.get(), out.get());
    for (int it = 0; it < 3; it++)
    {
      VectorInt ranks;
      n->select(it, ranks);
      digVI(g, ranks);
    }
  });
}
inline NeighMoving* buildNeigh(Rng& q, bool withBipts)
{
  bool aniso = q.coin(0.4);
  NeighMoving* n = NeighMoving::create(false, q.irange(3, 10), q.uni(25, 70), q.irange(1, 3), q.coin(0.4) ? q.irange(2, 6) : 1, q.irange(1, 3),
                                       aniso ? VectorDouble({1., q.uni(0.3, 0.9)}) : VectorDouble(),
                                       aniso ? VectorDouble({q.uni(10, 170), 0.}) : VectorDouble());
  if (withBipts) n->addBiTargetCheck(BiTargetCheckCode::create(1, 0.5));
  return n;
}
inline void objNeigh(Rng& r, Ctx& c)
{
  Kit<NeighMoving> k;
  k.cls      = "NeighMoving";
  k.build    = [](Rng& q) { return buildNeigh(q, false); };
  k.digest   = neighDigest;
  k.copyCtor = [](const NeighMoving* a) { return new NeighMoving(*a); };
  k.clone    = [](const NeighMoving* a) { return new NeighMoving(*a); }; // no clone() on NeighMoving
  k.assign   = [](NeighMoving* b, const NeighMoving* a) { *b = *a; };
  k.mut.push_back({"setNMaxi", [](NeighMoving* n, Rng& q) { n->setNMaxi(q.irange(2, 12)); }});
  k.mut.push_back({"setNMini", [](NeighMoving* n, Rng& q) { n->setNMini(q.irange(1, 4)); }});
  k.mut.push_back({"setNSect", [](NeighMoving* n, Rng& q) { n->setNSect(q.irange(1, 6)); }});
  k.mut.push_back({"setNSMax", [](NeighMoving* n, Rng& q) { n->setNSMax(q.irange(1, 3)); }});
  k.mut.push_back({"setFlagXvalid", [](NeighMoving* n, Rng& q) { n->setFlagXvalid(q.coin()); }});
  k.mut.push_back({"setBallSearch", [](NeighMoving* n, Rng& q) { n->setBallSearch(q.coin(), 5); }});
  runKit(r, c, k);

  // A neighbourhood that owns additional bi-point checks (addBiTargetCheck: the destructor deletes them).
  // Copy it, destroy both: run in a child because a shared ownership ends in a double free.
  if (r.coin(0.25))
  {
    uint64_t sub = r.next();
    int how      = r.irange(0, 1);
    c10::Child ch = c10::run_child([&]() -> std::string {
      Rng q(sub);
      std::unique_ptr<NeighMoving> a(buildNeigh(q, true));
      std::string d0 = neighDigest(a.get());
      std::unique_ptr<NeighMoving> b;
      if (how == 0) b.reset(new NeighMoving(*a));
      else { Rng q2(sub + 1); b.reset(buildNeigh(q2, false)); *b = *a; }
      std::string d1 = neighDigest(b.get());
      a.reset();
      std::string d2 = neighDigest(b.get());
      b.reset();
      return (d0 == d1 && d1 == d2) ? "OK" : "DIGEST";
    });
    c.truth("copy-owned", std::string("C10:copy:NeighMoving:") + (how == 0 ? "copy-ctor" : "assign") + ":added-bitarget-checks-shared-with-source",
            ch.ok && ch.data == "OK", ch.ok ? ch.data : ch.why());
  }
}

// ------------------------------------------------------------------------------------------------ VarioParam / CovAniso / AnamHermite
inline void objVarioParam(Rng& r, Ctx& c)
{
  Kit<VarioParam> k;
  k.cls    = "VarioParam";
  k.build  = [](Rng& q) { return new VarioParam(mkVarioParam(q)); };
  k.digest = [](VarioParam* v) {
    return digOf([&](Dig& g) {
      g.i(v->getDirectionNumber()); g.d(v->getScale()); digVD(g, v->getDates());
      for (int id = 0; id < v->getDirectionNumber(); id++)
      {
        const DirParam& d = v->getDirParam(id);
        g.i(d.getLagNumber()); g.d(d.getDPas()); g.d(d.getTolDist()); g.d(d.getTolAngle()); g.d(d.getBench()); g.d(d.getCylRad());
        g.i(d.getOptionCode()); digVD(g, d.getCodirs()); digVD(g, d.getBreaks()); digVI(g, d.getGrincrs());
      }
    });
  };
  k.copyCtor = [](const VarioParam* a) { return new VarioParam(*a); };
  k.clone    = [](const VarioParam* a) { return a->clone(); };
  k.assign   = [](VarioParam* b, const VarioParam* a) { *b = *a; };
  k.mut.push_back({"addDir", [](VarioParam* v, Rng& q) { v->addDir(DirParam(q.irange(2, 6), q.uni(5, 20), 0.5)); }});
  k.mut.push_back({"delDir", [](VarioParam* v, Rng& q) { if (v->getDirectionNumber() > 1) v->delDir(q.irange(0, v->getDirectionNumber() - 1)); }});
  k.mut.push_back({"setScale", [](VarioParam* v, Rng& q) { v->setScale(q.uni(0.1, 2)); }});
  k.mut.push_back({"setDates", [](VarioParam* v, Rng& q) { v->setDates(VectorDouble({q.uni(0, 1), q.uni(2, 3)})); }});
  k.mut.push_back({"delAllDirs+addDir", [](VarioParam* v, Rng& q) { v->delAllDirs(); v->addDir(DirParam(q.irange(2, 6), q.uni(5, 20), 0.5)); }});
  runKit(r, c, k);
}
inline void objCovAniso(Rng& r, Ctx& c)
{
  Kit<CovAniso> k;
  k.cls   = "CovAniso";
  k.build = [](Rng& q) {
    ModelSpec s;
    s.nugget = false;
    s.ncov   = 1;
    UModel m = mkModel(q, s);
    return new CovAniso(*m->getCova(0));
  };
  k.digest = [](CovAniso* cv) {
    return digOf([&](Dig& g) {
      g.i(cv->getType().getValue()); digVD(g, cv->getRanges()); digVD(g, cv->getAnisoAngles()); g.d(cv->getParam()); g.d(cv->getSill(0, 0));
      SpacePoint p1(VectorDouble({0., 0.})), p2(VectorDouble({7., -11.}));
      g.d(cv->eval(p1, p2)); // answers only: the state of the projection cache is not part of the verdict
    });
  };
  k.copyCtor = [](const CovAniso* a) { return new CovAniso(*a); };
  k.clone    = [](const CovAniso* a) { return a->clone(); };
  k.assign   = [](CovAniso* b, const CovAniso* a) { *b = *a; };
  k.mut.push_back({"setRanges", [](CovAniso* cv, Rng& q) { cv->setRanges(VectorDouble({q.uni(5, 50), q.uni(5, 50)})); }});
  k.mut.push_back({"setRangeIsotropic", [](CovAniso* cv, Rng& q) { cv->setRangeIsotropic(q.uni(5, 50)); }});
  k.mut.push_back({"setSill", [](CovAniso* cv, Rng& q) { cv->setSill(q.uni(0.5, 4)); }});
  k.mut.push_back({"setAnisoAngles", [](CovAniso* cv, Rng& q) { cv->setAnisoAngles(VectorDouble({q.uni(0, 180), 0.})); }});
  k.mut.push_back({"optimizationPreProcess", [](CovAniso* cv, Rng&) { cv->optimizationPreProcess(probeDb()); }});
  k.mut.push_back({"optimizationPostProcess", [](CovAniso* cv, Rng&) { cv->optimizationPostProcess(); }});
  runKit(r, c, k);
}
inline void objAnam(Rng& r, Ctx& c)
{
  Kit<AnamHermite> k;
  k.cls   = "AnamHermite";
  k.build = [](Rng& q) {
    AnamHermite* a = AnamHermite::create(q.irange(5, 12));
    VectorDouble t(q.irange(15, 30));
    for (auto& x : t) x = std::exp(q.normal() * 0.5);
    (void)a->fitFromArray(t);
    return a;
  };
  k.digest = [](AnamHermite* a) {
    return digOf([&](Dig& g) {
      digVD(g, a->getPsiHns()); g.d(a->getRCoef()); g.i(a->getFlagBound());
      for (double y : {-1.5, -0.3, 0.4, 2.1}) g.d(a->transformToRawValue(y));
      for (double z : {0.5, 1.0, 2.0}) g.d(a->rawToTransformValue(z));
    });
  };
  k.copyCtor = [](const AnamHermite* a) { return new AnamHermite(*a); };
  k.clone    = [](const AnamHermite* a) { return a->clone(); };
  k.assign   = [](AnamHermite* b, const AnamHermite* a) { *b = *a; };
  k.mut.push_back({"setPsiHn", [](AnamHermite* a, Rng& q) { a->setPsiHn(q.irange(0, a->getNbPoly() - 1), q.uni(-1, 1)); }});
  k.mut.push_back({"setRCoef", [](AnamHermite* a, Rng& q) { a->setRCoef(q.uni(0.5, 0.95)); }});
  k.mut.push_back({"setFlagBound", [](AnamHermite* a, Rng& q) { a->setFlagBound(q.coin()); }});
  k.mut.push_back({"fitFromArray", [](AnamHermite* a, Rng& q) {
    VectorDouble t(q.irange(15, 30));
    for (auto& x : t) x = std::exp(q.normal() * 0.7) + 1;
    (void)a->fitFromArray(t); }});
  runKit(r, c, k);
}

// ------------------------------------------------------------------------------------------------ copies taken inside the optimisation window
// A Model / ACovAnisoList / CovAniso copied while its source is between optimizationPreProcess(db) and
// optimizationPostProcess() (both public; this is the state of the covariance during any optimised request or kriging).
// The copy has never been pre-processed itself: whatever projection cache the source carries, the copy must answer
// every covariance-matrix request like an object built from scratch with the same parameters, also after the source
// has been post-processed or destroyed. The same experiment is run with the source outside the window (control).
// Answers only: the cache state of the copy is not looked at.
inline std::string acovAnswers(ACov* a, Db* dA, Db* dB, bool withOptimList)
{
  return digOf([&](Dig& g) {
    digMat(g, a->evalCovMatrixSymmetric(dB, -1, VectorInt(), nullptr));
    digMat(g, a->evalCovMatrix(dA, dB));
    ACovAnisoList* l = withOptimList ? dynamic_cast<ACovAnisoList*>(a) : nullptr;
    if (l != nullptr)
    {
      digMat(g, l->evalCovMatrixSymmetricOptim(dB));
      digMat(g, l->evalCovMatrixOptim(dB, dA));
      digMat(g, a->evalCovMatrixSymmetric(dA, -1, VectorInt(), nullptr));
    }
  });
}
inline void objOptimWindow(Rng& r, Ctx& c)
{
  int cls = r.irange(0, 2);  // 0 Model, 1 ACovAnisoList, 2 CovAniso
  int how = r.irange(0, 3);  // 0 copy-ctor, 1 clone, 2 assign (onto an object with other content), 3 assign onto an empty list (lists only)
  if (how == 3 && cls != 1) how = 2;
  bool inWindow    = r.coin(0.75);
  bool killSource  = r.coin();
  uint64_t sub     = r.next(), sub2 = r.next();
  static const char* CN[] = {"Model", "ACovAnisoList", "CovAniso"};
  static const char* HN[] = {"copy-ctor", "clone", "assign", "assign-onto-empty"};
  c.setSig(std::string("obj:window:") + CN[cls] + ":" + HN[how] + (inWindow ? ":inside" : ":outside"));
  std::string key = std::string("C10:copy:") + CN[cls] + ":" + HN[how] + (inWindow ? ":taken-inside-optimization-window" : ":taken-outside-optimization-window");
  // ACovAnisoList::operator= appends the source's structures to those the target already has (known open finding):
  // one key for that cause, inside or outside the window; the window itself is judged on the empty-target variant
  if (cls == 1 && how == 2) key = "C10:copy:ACovAnisoList:assign:appends-to-existing-structures";

  c10::Child ch = c10::run_child([&]() -> std::string {
    auto build = [](uint64_t sd) {
      Rng q(sd);
      ModelSpec s;
      s.nugget = false;
      s.ncov   = q.irange(1, 2);
      s.rscale = 25.; // ranges far from 1: a raw distance taken for a reduced one gives a covariance close to 0
      return mkModel(q, s);
    };
    Rng q(sub ^ 0x5555);
    DbSpec ds;
    ds.n   = q.irange(5, 10);
    UDb dA = mkDb(q, ds);
    ds.n   = q.irange(4, 9);
    UDb dB = mkDb(q, ds);
    UModel A = build(sub), T = build(sub), O = build(sub2); // source, never-copied twin, another content (assignment target)
    // reference answers: an object built from scratch
    std::string want;
    if (cls == 0) want = digOf([&](Dig& g) { digMat(g, T->evalCovMatrixSymmetric(dB.get())); digMat(g, T->evalCovMatrix(dA.get(), dB.get())); digMat(g, T->evalCovMatrixSymmetricOptim(dB.get())); digMat(g, T->evalCovMatrixOptim(dB.get(), dA.get())); });
    else if (cls == 1) want = acovAnswers(T->getCovAnisoListModify(), dA.get(), dB.get(), true);
    else want = acovAnswers(T->getCova(0), dA.get(), dB.get(), false);

    if (inWindow) A->getCovAnisoList()->optimizationPreProcess(dA.get());
    std::unique_ptr<Model> cm;
    std::unique_ptr<ACovAnisoList> cl;
    std::unique_ptr<CovAniso> cc;
    ACov* target = nullptr; // object asked (for lists / covariances)
    if (cls == 0)
    {
      if (how == 0) cm.reset(new Model(*A));
      else if (how == 1) cm.reset(A->clone());
      else { cm = std::move(O); *cm = *A; }
    }
    else if (cls == 1)
    {
      const ACovAnisoList* src = A->getCovAnisoList();
      if (how == 0) cl.reset(new ACovAnisoList(*src));
      else if (how == 1) cl.reset(src->clone());
      else if (how == 2) { cl.reset(new ACovAnisoList(*O->getCovAnisoList())); *cl = *src; }
      else { cl.reset(new ACovAnisoList(src->getSpace())); *cl = *src; }
      target = cl.get();
    }
    else
    {
      const CovAniso* src = A->getCova(0);
      if (how == 0) cc.reset(new CovAniso(*src));
      else if (how == 1) cc.reset(src->clone());
      else { cc.reset(new CovAniso(*O->getCova(0))); *cc = *src; }
      target = cc.get();
    }
    if (inWindow) A->getCovAnisoList()->optimizationPostProcess();
    if (killSource) A.reset();
    std::string got;
    if (cls == 0) got = digOf([&](Dig& g) { digMat(g, cm->evalCovMatrixSymmetric(dB.get())); digMat(g, cm->evalCovMatrix(dA.get(), dB.get())); digMat(g, cm->evalCovMatrixSymmetricOptim(dB.get())); digMat(g, cm->evalCovMatrixOptim(dB.get(), dA.get())); });
    else got = acovAnswers(target, dA.get(), dB.get(), cls == 1);
    std::string res = (got == want) ? "OK" : "DIFFERENT";
    // the source, once post-processed, answers as the twin too
    if (A && cls == 0)
    {
      std::string sa = digOf([&](Dig& g) { digMat(g, A->evalCovMatrixSymmetric(dB.get())); digMat(g, A->evalCovMatrix(dA.get(), dB.get())); digMat(g, A->evalCovMatrixSymmetricOptim(dB.get())); digMat(g, A->evalCovMatrixOptim(dB.get(), dA.get())); });
      if (sa != want) res += "+SOURCE";
    }
    return res;
  });
  bool okc = ch.ok && ch.data.find("DIFFERENT") == std::string::npos;
  c.truth("copy-window", key, okc, std::string(killSource ? "source destroyed before asking; " : "") + (ch.ok ? ch.data : ch.why()));
  if (ch.ok) c.truth("copy-window-source", std::string("C10:copy:") + CN[cls] + ":source-differs-after-optimization-window", ch.data.find("SOURCE") == std::string::npos, ch.data);
}
} // namespace c10o
