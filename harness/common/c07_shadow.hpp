// C07 — shadow table keyed by UID (the persistent identifier) + comparison of a live Db against it.
// The shadow never predicts a generated NAME: names are read back from the Db after every step and only
// constrained (radix of new names, names of untouched columns unchanged, uniqueness).
#pragma once
#include "c07_db_invariants.hpp"
#include "Db/Db.hpp"
#include "Db/DbGrid.hpp"
#include <functional>
#include <map>
#include <set>
#include <string>
#include <vector>

namespace c07
{
static const int NLOC = 29; // number of locator types (ELoc minus UNKNOWN); checked against Db::getNEloc() at start

struct SCol
{
  std::string name;
  std::vector<double> v;
};

struct Shadow
{
  bool grid = false;
  int nech  = 0;
  int nmax  = 0;                 // UIDs issued so far (getUIDMaxNumber)
  std::vector<int> order;        // column index -> UID
  std::map<int, SCol> cols;      // live columns by UID
  std::vector<int> loc[NLOC];    // per type: UIDs by rank

  int ncol() const { return (int)order.size(); }
  bool live(int uid) const { return cols.count(uid) > 0; }
  int colOf(int uid) const
  {
    for (int i = 0; i < ncol(); i++)
      if (order[i] == uid) return i;
    return -1;
  }
  int uidByName(const std::string& nm) const
  {
    for (int u : order)
      if (cols.at(u).name == nm) return u;
    return -1;
  }
  // (type, rank) of a column, (-1,-1) when it has no role
  std::pair<int, int> locOf(int uid) const
  {
    for (int t = 0; t < NLOC; t++)
      for (int r = 0; r < (int)loc[t].size(); r++)
        if (loc[t][r] == uid) return {t, r};
    return {-1, -1};
  }
  int selUid() const { return loc[10].empty() ? -1 : loc[10][0]; } // ELoc::SEL = 10
  static bool binary(const std::vector<double>& v)
  {
    for (double x : v)
      if (x != 0. && x != 1.) return false;
    return true;
  }
  bool selClean() const { return selUid() < 0 || !live(selUid()) || binary(cols.at(selUid()).v); }
  bool active(int iech) const
  {
    int u = selUid();
    if (u < 0) return true;
    return cols.at(u).v[iech] == 1.;
  }
  int nactive() const
  {
    int n = 0;
    for (int i = 0; i < nech; i++)
      if (active(i)) n++;
    return n;
  }
  // is some column's name, read as a pattern, matching another column's name ? (designation by name then undefined)
  bool namesAmbiguous() const
  {
    for (int u : order)
      for (int w : order)
        if (u != w && nameMatches(cols.at(u).name, cols.at(w).name) != 0) return true;
    return false;
  }

  // ---- model transformations ---------------------------------------------------------------------------------
  int addCol(const std::vector<double>& v)
  {
    int uid = nmax++;
    order.push_back(uid);
    cols[uid] = SCol{"", v};
    return uid;
  }
  void unloc(int uid)
  {
    for (int t = 0; t < NLOC; t++)
      for (int r = 0; r < (int)loc[t].size(); r++)
        if (loc[t][r] == uid) { loc[t].erase(loc[t].begin() + r); r--; }
  }
  void delCol(int uid)
  {
    if (!live(uid)) return;
    unloc(uid);
    order.erase(order.begin() + colOf(uid));
    cols.erase(uid);
  }
  // Role assignment as documented (Db.hpp class comment + setLocatorByUID): the column gets (type, idx); the column that
  // held (type, idx) loses its role; ranks of a type stay consecutive. Returns false when the documentation does not
  // settle the outcome (column already of that type, moved onto another occupied rank).
  bool setLoc(int uid, int type, int idx)
  {
    auto cur = locOf(uid);
    if (type < 0) { unloc(uid); return true; }
    if (cur.first == type)
    {
      if (idx == cur.second) return true; // re-assertion of its own role: nothing changes
      unloc(uid);
      if (idx >= (int)loc[type].size()) { loc[type].push_back(uid); return true; } // "next" rank: moves to the end
      loc[type][idx] = uid;
      return false;
    }
    unloc(uid);
    if (idx >= (int)loc[type].size()) loc[type].push_back(uid);
    else loc[type][idx] = uid;
    return true;
  }
};

// What the step is allowed to leave undetermined, and what it must have produced
struct Exp
{
  std::set<std::pair<int, int>> dcCell; // (uid, iech): value not settled by the documentation
  std::set<int> dcCol;                  // whole column undetermined
  std::map<int, std::string> newName;   // uid -> requested name / radix
  bool locWeak = false;                 // role outcome not settled by the documentation: weak checks only
  std::set<int> locTargets;             // columns addressed by a role assignment
  int locType = -2;                     // requested type for the targets (-1 = remove role, -2 = no role op)
  std::set<int> locInvolved;            // types whose lists the operation may reshuffle (weak mode)
  std::vector<std::pair<std::string, bool>> rets; // return-value checks (description, ok)
  std::string cls;                      // input-class override: all failures of the step get the key C07:<cls>
  bool replaced = false;                // the Db object itself was replaced (copy/clone/assign)
  void ret(const std::string& what, bool ok) { rets.push_back({what, ok}); }
};

// Rebuild the shadow from the Db through public getters (used at creation and after every step for the don't-care parts)
inline void resync(const Db* db, Shadow& s)
{
  s.grid = db->isGrid();
  s.nech = db->getSampleNumber(false);
  s.nmax = db->getUIDMaxNumber();
  s.order.clear();
  s.cols.clear();
  for (int t = 0; t < NLOC; t++) s.loc[t].clear();
  int ncol = db->getColumnNumber();
  for (int icol = 0; icol < ncol; icol++)
  {
    int uid = db->getUIDByColIdx(icol);
    s.order.push_back(uid);
    s.cols[uid] = SCol{db->getNameByColIdx(icol), db->getColumnByColIdx(icol, false, false).getVector()};
  }
  for (int t = 0; t < NLOC; t++)
  {
    int k = db->getLocatorNumber(ELoc::fromValue(t));
    for (int r = 0; r < k; r++) s.loc[t].push_back(db->getUIDByLocator(ELoc::fromValue(t), r));
  }
}

struct Fail
{
  std::string oracle, rule, detail;
};

inline bool nameFromRadix(const std::string& got, const std::string& radix)
{
  if (got == radix) return true;
  if (got.size() > radix.size() && got.compare(0, radix.size(), radix) == 0 && (got[radix.size()] == '.' || got[radix.size()] == '-'))
    return true;
  return false;
}

// Compare the Db with the model state `s` (already transformed by the step) under the expectations `e`.
// `before` is the shadow before the step (names / roles of untouched columns). Appends failures; returns per-oracle
// pass flags through `eval(oracle, ok)` so that statistics are kept for passing evaluations too.
inline void compareWithShadow(const Db* db, const Shadow& before, const Shadow& s, const Exp& e,
                              std::vector<Fail>& fails, const std::function<void(const char*, bool)>& eval)
{
  auto S = [](int v) { return std::to_string(v); };
  // ---- counts
  {
    bool ok = true;
    std::string d;
    if (db->getSampleNumber(false) != s.nech) { ok = false; d += "getSampleNumber()=" + S(db->getSampleNumber(false)) + " want " + S(s.nech) + "; "; }
    if (db->getColumnNumber() != s.ncol()) { ok = false; d += "getColumnNumber()=" + S(db->getColumnNumber()) + " want " + S(s.ncol()) + "; "; }
    if (db->getUIDMaxNumber() != s.nmax) { ok = false; d += "getUIDMaxNumber()=" + S(db->getUIDMaxNumber()) + " want " + S(s.nmax) + "; "; }
    eval("t.counts", ok);
    if (!ok) fails.push_back({"t.counts", "counts", d});
  }
  // ---- structure: which UIDs are live, in which column
  bool structOk = true;
  {
    std::string d;
    if (db->getColumnNumber() != s.ncol()) structOk = false;
    for (int icol = 0; structOk && icol < s.ncol(); icol++)
      if (db->getUIDByColIdx(icol) != s.order[icol])
      {
        structOk = false;
        d = "column " + S(icol) + " holds UID " + S(db->getUIDByColIdx(icol)) + " want UID " + S(s.order[icol]);
      }
    for (int uid = 0; structOk && uid < s.nmax && uid < db->getUIDMaxNumber(); uid++)
      if ((db->getColIdxByUID(uid) >= 0) != s.live(uid))
      {
        structOk = false;
        d = "UID " + S(uid) + (s.live(uid) ? " should be a live column" : " should be deleted") + ", getColIdxByUID=" + S(db->getColIdxByUID(uid));
      }
    eval("t.columns", structOk);
    if (!structOk) fails.push_back({"t.columns", "columns", d.empty() ? "column set differs from the model" : d});
  }
  if (!structOk || db->getSampleNumber(false) != s.nech) return;

  // ---- cells: addressed cells hold what was written, all the others are unchanged
  {
    bool ok = true;
    std::string d;
    for (int icol = 0; icol < s.ncol() && ok; icol++)
    {
      int uid = s.order[icol];
      if (e.dcCol.count(uid)) continue;
      std::vector<double> got = db->getColumnByUID(uid, false, false).getVector();
      const std::vector<double>& want = s.cols.at(uid).v;
      if ((int)got.size() != s.nech || (int)want.size() != s.nech) { ok = false; d = "column UID " + S(uid) + " has " + S((int)got.size()) + " values, model " + S((int)want.size()) + ", nech " + S(s.nech); break; }
      for (int iech = 0; iech < s.nech; iech++)
      {
        if (e.dcCell.count({uid, iech})) continue;
        if (!sameBits(got[iech], want[iech]))
        {
          ok = false;
          char b[200];
          snprintf(b, sizeof b, "cell (sample %d, UID %d, col %d '%s') = %.17g want %.17g", iech, uid, icol, s.cols.at(uid).name.c_str(), got[iech], want[iech]);
          d = b;
          break;
        }
      }
    }
    eval("t.cells", ok);
    if (!ok) fails.push_back({"t.cells", "cells", d});
  }
  // ---- names: new / renamed columns carry the requested radix, untouched columns keep their name
  {
    bool ok1 = true, ok2 = true;
    std::string d1, d2;
    for (int uid : s.order)
    {
      std::string got = db->getNameByUID(uid);
      auto it = e.newName.find(uid);
      if (it != e.newName.end())
      {
        if (ok1 && !nameFromRadix(got, it->second)) { ok1 = false; d1 = "UID " + S(uid) + " is named '" + got + "', requested '" + it->second + "'"; }
      }
      else if (before.live(uid) && ok2 && got != before.cols.at(uid).name)
      {
        ok2 = false;
        d2  = "UID " + S(uid) + " (not addressed) was '" + before.cols.at(uid).name + "' and is now '" + got + "'";
      }
    }
    eval("t.new-name", ok1);
    eval("t.names-frame", ok2);
    if (!ok1) fails.push_back({"t.new-name", "new-name", d1});
    if (!ok2) fails.push_back({"t.names-frame", "untouched-column-renamed", d2});
  }
  // ---- roles
  {
    bool ok = true;
    std::string rule, d;
    auto dbLoc = [&](int uid) {
      ELoc t;
      int r = -1;
      if (!db->getLocatorByUID(uid, &t, &r)) return std::pair<int, int>(-1, -1);
      return std::pair<int, int>(t.getValue(), r);
    };
    // 1. addressed columns got the requested type (and nobody else was given a role it did not have)
    if (e.locType > -2)
    {
      for (int uid : e.locTargets)
      {
        if (!s.live(uid)) continue;
        auto g = dbLoc(uid);
        auto m = s.locOf(uid);
        // the model may say that a target lost the role again (displaced by a later target of the same call)
        if ((g.first != m.first || (!e.locWeak && g != m)) && ok) { ok = false; rule = "wrong-column"; d = "addressed column UID " + S(uid) + " (col " + S(s.colOf(uid)) + ") has role " + locStr(g.first, g.second) + ", want " + locStr(m.first, m.second); }
      }
      for (int uid : s.order)
      {
        if (e.locTargets.count(uid) || !before.live(uid)) continue;
        auto g = dbLoc(uid);
        auto b = before.locOf(uid);
        if (ok && g.first >= 0 && g.first != b.first) { ok = false; rule = "wrong-column"; d = "column UID " + S(uid) + " (col " + S(s.colOf(uid)) + "), not addressed, went from " + locStr(b.first, b.second) + " to " + locStr(g.first, g.second); }
      }
    }
    // 2. full comparison with the model (strong mode), or frame condition on the types not involved (weak mode)
    for (int uid : s.order)
    {
      if (!ok) break;
      auto g = dbLoc(uid);
      auto m = s.locOf(uid);
      if (!e.locWeak)
      {
        if (g != m) { ok = false; rule = "role-mismatch"; d = "column UID " + S(uid) + " (col " + S(s.colOf(uid)) + ") has role " + locStr(g.first, g.second) + ", want " + locStr(m.first, m.second); }
      }
      else
      {
        if (e.locTargets.count(uid)) continue;
        bool involved = e.locInvolved.count(m.first) || e.locInvolved.count(g.first);
        if (!involved && g != m) { ok = false; rule = "role-mismatch"; d = "column UID " + S(uid) + " of a type not involved has role " + locStr(g.first, g.second) + ", want " + locStr(m.first, m.second); }
      }
    }
    if (ok && !e.locWeak)
      for (int t = 0; t < NLOC && ok; t++)
        if (db->getLocatorNumber(ELoc::fromValue(t)) != (int)s.loc[t].size())
        {
          ok = false; rule = "role-mismatch";
          d = std::string(ELoc::fromValue(t).getKey()) + " has " + S(db->getLocatorNumber(ELoc::fromValue(t))) + " ranks, want " + S((int)s.loc[t].size());
        }
    eval("t.roles", ok);
    if (!ok) fails.push_back({"t.roles", rule, d});
  }
  // ---- return values
  for (auto& r : e.rets)
  {
    eval("t.return", r.second);
    if (!r.second) fails.push_back({"t.return", "return-value", r.first});
  }
}

// canonical image of a Db (for copy / clone / assignment checks)
inline std::string snapshot(const Db* db)
{
  std::string o = db->isGrid() ? "G" : "P";
  o += "|" + std::to_string(db->getSampleNumber(false)) + "|" + std::to_string(db->getUIDMaxNumber()) + "|";
  for (int uid = 0; uid < db->getUIDMaxNumber(); uid++) o += std::to_string(db->getColIdxByUID(uid)) + ",";
  for (int icol = 0; icol < db->getColumnNumber(); icol++)
  {
    o += "|" + db->getNameByColIdx(icol) + ":";
    std::vector<double> v = db->getColumnByColIdx(icol, false, false).getVector();
    o.append((const char*)v.data(), v.size() * sizeof(double));
  }
  for (int t = 0; t < NLOC; t++)
  {
    o += "|L";
    for (int r = 0; r < db->getLocatorNumber(ELoc::fromValue(t)); r++) o += std::to_string(db->getUIDByLocator(ELoc::fromValue(t), r)) + ",";
  }
  const DbGrid* g = dynamic_cast<const DbGrid*>(db);
  if (g)
    for (int i = 0; i < g->getNDim(); i++)
    {
      char b[120];
      snprintf(b, sizeof b, "|%d;%.17g;%.17g;%.17g", g->getNX(i), g->getDX(i), g->getX0(i), g->getAngle(i));
      o += b;
    }
  return o;
}
} // namespace c07
