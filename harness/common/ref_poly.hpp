// ref_poly.hpp — exact point-in-polygon reference (property C20) and lattice polygon generators.
//
// All coordinates are integers ("half-units": polygon vertices are even numbers, query points any integer), so every
// orientation test below is exact in 64-bit arithmetic. The harness maps an integer k to the double  h * (k + offset)
// with h a power of two: the library's own arithmetic on those doubles is exact too (products < 2^53), hence any
// disagreement on a point that is not ON the boundary is a wrong decision, not round-off.
#pragma once
#include <algorithm>
#include <cstdint>
#include <cstdlib>
#include <cmath>
#include <map>
#include <set>
#include <vector>

namespace refp
{
typedef long long I64;
struct Pt
{
  I64 x, y;
  bool operator==(const Pt& o) const { return x == o.x && y == o.y; }
  bool operator<(const Pt& o) const { return x < o.x || (x == o.x && y < o.y); }
};
typedef std::vector<Pt> Ring; // vertices in order; the closing edge last -> first is implied (a repeated last vertex is fine)

inline I64 cross(const Pt& a, const Pt& b, const Pt& c) { return (b.x - a.x) * (c.y - a.y) - (b.y - a.y) * (c.x - a.x); }
inline bool onSegment(const Pt& a, const Pt& b, const Pt& q)
{
  if (cross(a, b, q) != 0) return false;
  return std::min(a.x, b.x) <= q.x && q.x <= std::max(a.x, b.x) && std::min(a.y, b.y) <= q.y && q.y <= std::max(a.y, b.y);
}

// +1 strictly inside, 0 on the boundary, -1 strictly outside. Winding number (non-zero rule); for a simple polygon this is
// the geometric interior whatever the orientation. 'parity' receives the crossing-number parity (even-odd rule).
inline int locate(const Ring& r, const Pt& q, int* parity = nullptr)
{
  int n  = (int)r.size();
  int wn = 0, cn = 0;
  for (int i = 0; i < n; i++)
  {
    const Pt& a = r[i];
    const Pt& b = r[(i + 1) % n];
    if (a == b) continue;
    if (onSegment(a, b, q)) return 0;
    if (a.y <= q.y)
    {
      if (b.y > q.y)
      {
        if (cross(a, b, q) > 0) wn++;
        if (cross(a, b, q) > 0) cn++;
      }
    }
    else if (b.y <= q.y)
    {
      if (cross(a, b, q) < 0) wn--;
      if (cross(a, b, q) < 0) cn++;
    }
  }
  if (parity) *parity = cn & 1;
  return wn != 0 ? 1 : -1;
}

// how the horizontal line through q meets the vertex set: 0 generic, 1 level with >= 1 vertex, 2 level with a
// horizontal edge, 3 level with >= 2 horizontal edges or >= 4 vertices
inline int alignment(const Ring& r, const Pt& q)
{
  int n = (int)r.size(), nv = 0, nh = 0;
  for (int i = 0; i < n; i++)
  {
    const Pt& a = r[i];
    const Pt& b = r[(i + 1) % n];
    if (a.y == q.y) nv++;
    if (!(a == b) && a.y == q.y && b.y == q.y) nh++;
  }
  if (nh >= 2 || nv >= 4) return 3;
  if (nh >= 1) return 2;
  if (nv >= 1) return 1;
  return 0;
}

inline int sgn(I64 v) { return v > 0 ? 1 : (v < 0 ? -1 : 0); }
inline bool segmentsIntersect(const Pt& a, const Pt& b, const Pt& c, const Pt& d)
{
  int d1 = sgn(cross(a, b, c)), d2 = sgn(cross(a, b, d)), d3 = sgn(cross(c, d, a)), d4 = sgn(cross(c, d, b));
  if (d1 * d2 < 0 && d3 * d4 < 0) return true;
  if (d1 == 0 && onSegment(a, b, c)) return true;
  if (d2 == 0 && onSegment(a, b, d)) return true;
  if (d3 == 0 && onSegment(c, d, a)) return true;
  if (d4 == 0 && onSegment(c, d, b)) return true;
  return false;
}
// simple = no two non-adjacent edges touch, adjacent edges share only their common vertex (collinear continuation in the
// same direction is allowed, folding back is not). O(n^2), exact. The ring must be given WITHOUT a repeated last vertex.
inline bool isSimple(const Ring& r)
{
  int n = (int)r.size();
  if (n < 3) return false;
  for (int i = 0; i < n; i++)
    if (r[i] == r[(i + 1) % n]) return false;
  for (int i = 0; i < n; i++)
  {
    const Pt &a = r[i], &b = r[(i + 1) % n], &c = r[(i + 2) % n];
    // fold-back: b between ... a and c on the same side of b along one line
    if (cross(a, b, c) == 0 && ((a.x - b.x) * (c.x - b.x) + (a.y - b.y) * (c.y - b.y)) > 0) return false;
  }
  for (int i = 0; i < n; i++)
    for (int j = i + 2; j < n; j++)
    {
      if (i == 0 && j == n - 1) continue; // adjacent through the closing vertex
      if (segmentsIntersect(r[i], r[(i + 1) % n], r[j], r[(j + 1) % n])) return false;
    }
  return true;
}
inline I64 area2(const Ring& r)
{
  I64 s = 0;
  int n = (int)r.size();
  for (int i = 0; i < n; i++) s += r[i].x * r[(i + 1) % n].y - r[(i + 1) % n].x * r[i].y;
  return s;
}

// convex hull (Andrew monotone chain), strict: collinear points on the edges are dropped. Counter-clockwise.
inline Ring convexHull(std::vector<Pt> p)
{
  std::sort(p.begin(), p.end());
  p.erase(std::unique(p.begin(), p.end()), p.end());
  int n = (int)p.size();
  if (n < 3) return p;
  Ring h(2 * n);
  int k = 0;
  for (int i = 0; i < n; i++)
  {
    while (k >= 2 && cross(h[k - 2], h[k - 1], p[i]) <= 0) k--;
    h[k++] = p[i];
  }
  for (int i = n - 2, t = k + 1; i >= 0; i--)
  {
    while (k >= t && cross(h[k - 2], h[k - 1], p[i]) <= 0) k--;
    h[k++] = p[i];
  }
  h.resize(k - 1);
  return h;
}

// ---------------------------------------------------------------------------------------------------------
// polyomino -> rectilinear ring. cells: set of (i,j) unit cells; the union must be hole-free and without diagonal
// pinches (see repair()). Vertices are returned in cell units (multiply by 2 for half-units), counter-clockwise.
// keepCollinear: keep every unit step as a vertex (consecutive collinear vertices).
// ---------------------------------------------------------------------------------------------------------
struct Cells
{
  int w = 0, h = 0;
  std::vector<char> c;
  void init(int W, int H) { w = W; h = H; c.assign((size_t)W * H, 0); }
  bool get(int i, int j) const { return i >= 0 && j >= 0 && i < w && j < h && c[(size_t)j * w + i]; }
  void set(int i, int j, bool v = true) { if (i >= 0 && j >= 0 && i < w && j < h) c[(size_t)j * w + i] = v; }
  int count() const { int n = 0; for (char v : c) n += v; return n; }
};
// fill holes and remove diagonal pinches by adding cells
inline void repair(Cells& g)
{
  for (int iter = 0; iter < 50; iter++)
  {
    bool changed = false;
    // holes: flood the complement from a one-cell frame outside
    int W = g.w + 2, H = g.h + 2;
    std::vector<char> seen((size_t)W * H, 0);
    std::vector<std::pair<int, int>> st;
    st.push_back({0, 0});
    seen[0] = 1;
    while (!st.empty())
    {
      auto [i, j] = st.back();
      st.pop_back();
      static const int di[4] = {1, -1, 0, 0}, dj[4] = {0, 0, 1, -1};
      for (int d = 0; d < 4; d++)
      {
        int a = i + di[d], b = j + dj[d];
        if (a < 0 || b < 0 || a >= W || b >= H) continue;
        if (seen[(size_t)b * W + a]) continue;
        if (g.get(a - 1, b - 1)) continue;
        seen[(size_t)b * W + a] = 1;
        st.push_back({a, b});
      }
    }
    for (int j = 0; j < g.h; j++)
      for (int i = 0; i < g.w; i++)
        if (!g.get(i, j) && !seen[(size_t)(j + 1) * W + (i + 1)]) { g.set(i, j); changed = true; }
    // pinches
    for (int j = 0; j + 1 < g.h; j++)
      for (int i = 0; i + 1 < g.w; i++)
      {
        bool a = g.get(i, j), b = g.get(i + 1, j), c = g.get(i, j + 1), d = g.get(i + 1, j + 1);
        if (a && d && !b && !c) { g.set(i + 1, j); changed = true; }
        if (b && c && !a && !d) { g.set(i, j); changed = true; }
      }
    if (!changed) return;
  }
}
// keep the connected component of the first cell found (4-connectivity)
inline void keepOneComponent(Cells& g)
{
  int si = -1, sj = -1;
  for (int j = 0; j < g.h && si < 0; j++)
    for (int i = 0; i < g.w; i++)
      if (g.get(i, j)) { si = i; sj = j; break; }
  if (si < 0) return;
  std::vector<char> keep(g.c.size(), 0);
  std::vector<std::pair<int, int>> st{{si, sj}};
  keep[(size_t)sj * g.w + si] = 1;
  while (!st.empty())
  {
    auto [i, j] = st.back();
    st.pop_back();
    static const int di[4] = {1, -1, 0, 0}, dj[4] = {0, 0, 1, -1};
    for (int d = 0; d < 4; d++)
    {
      int a = i + di[d], b = j + dj[d];
      if (!g.get(a, b) || keep[(size_t)b * g.w + a]) continue;
      keep[(size_t)b * g.w + a] = 1;
      st.push_back({a, b});
    }
  }
  g.c = keep;
}
inline Ring traceBoundary(const Cells& g, bool keepCollinear)
{
  // directed unit edges with the interior on the left
  std::map<Pt, Pt> next;
  for (int j = 0; j < g.h; j++)
    for (int i = 0; i < g.w; i++)
    {
      if (!g.get(i, j)) continue;
      if (!g.get(i, j - 1)) next[Pt{i, j}] = Pt{i + 1, j};             // bottom edge, going +x
      if (!g.get(i + 1, j)) next[Pt{i + 1, j}] = Pt{i + 1, j + 1};     // right edge, going +y
      if (!g.get(i, j + 1)) next[Pt{i + 1, j + 1}] = Pt{i, j + 1};     // top edge, going -x
      if (!g.get(i - 1, j)) next[Pt{i, j + 1}] = Pt{i, j};             // left edge, going -y
    }
  Ring r;
  if (next.empty()) return r;
  Pt start = next.begin()->first, cur = start;
  size_t guard = 0;
  do
  {
    r.push_back(cur);
    auto it = next.find(cur);
    if (it == next.end()) return Ring();
    cur = it->second;
    if (++guard > next.size() + 1) return Ring();
  } while (!(cur == start));
  if (r.size() != next.size()) return Ring(); // more than one boundary loop (hole or pinch left)
  if (!keepCollinear)
  {
    Ring s;
    int n = (int)r.size();
    for (int i = 0; i < n; i++)
      if (cross(r[(i + n - 1) % n], r[i], r[(i + 1) % n]) != 0) s.push_back(r[i]);
    r = s;
  }
  return r;
}

// Euclid distance^2 helpers in long double for the dilated-hull sandwich oracle
inline long double distToSegment(long double px, long double py, long double ax, long double ay, long double bx, long double by)
{
  long double dx = bx - ax, dy = by - ay, l2 = dx * dx + dy * dy;
  long double t = l2 > 0 ? ((px - ax) * dx + (py - ay) * dy) / l2 : 0;
  t             = std::max((long double)0, std::min((long double)1, t));
  long double qx = ax + t * dx - px, qy = ay + t * dy - py;
  return sqrtl(qx * qx + qy * qy);
}
} // namespace refp
