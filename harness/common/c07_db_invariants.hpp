// C07 — consistency rules of a Db seen as a rectangular table, evaluated through PUBLIC getters only.
//
// Reusable by any monitor that gets a Db/DbGrid from somewhere (edit histories, loaders, calculators):
//
//     std::string why = c07::checkDbInvariants(db);        // "" when consistent, else "<rule>: <detail>" (first rule broken)
//     auto all = c07::collectDbViolations(db, options);    // every broken rule (bounded), rule id + detail
//
// Rules (ids are stable, they are used inside violation keys):
//   count                 getColumnNumber / getAllNames / getAllUIDs / column lengths / getSampleNumber disagree
//   names-unique          two columns carry the same name            (Db.hpp: "by its name (unique in the Data Base)")
//   uid-col               column index <-> UID maps are not inverse of each other
//   isUIDDefined          isUIDDefined(uid) disagrees with getColIdxByUID(uid) >= 0
//   name-designation      a column's own name does not designate it (getColIdx/getUID/getNameBy*/getColumn/getLocator)
//   name-regex-ambiguous  same, but explained by the name being read as a regular expression that also matches ANOTHER
//                         column's name (names are patterns: String.cpp expandList/_protectRegexp)
//   locator-gap           a rank r <= k of a type with k roles designates no live column
//                         (Db.hpp: "for a given locator name, the ranks are always consecutive between 1 and N")
//   locator-two-roles     one column sits in two (type, rank) slots
//   locator-designation   getLocatorBy*, get*ByLocator, getLocators() disagree on (type, rank) <-> column
//   value-views           cell getters disagree (getColumnBy*, getArray, getValueByColIdx, getValue, getArrayBySample, ...)
//   selection-views       reading a column through a 0/1 selection (masked -> TEST, compressed) disagrees with the cells
//   active-count          getSampleNumber(true) / isActive() / compressed column length disagree
#pragma once
#include "Db/Db.hpp"
#include "Db/PtrGeos.hpp"
#include "Enum/ELoc.hpp"
#include <algorithm>
#include <cstring>
#include <map>
#include <regex>
#include <set>
#include <string>
#include <vector>

namespace c07
{
struct DbViolation
{
  std::string rule;
  std::string detail;
};

struct DbInvOptions
{
  bool names       = true; // name -> column designation (each lookup compiles O(ncol) regexes in the library: costly)
  bool nameSubset  = false; // when true, only the columns listed in nameCols are checked for designation by name
  std::vector<int> nameCols;
  bool values      = true; // cross-check of the cell getters, O(ncol * nech)
  bool activeCount = true;
  bool uidDefined  = true;
  size_t maxPerRule = 2;
};

inline bool sameBits(double a, double b) { return std::memcmp(&a, &b, sizeof(double)) == 0; }
inline bool sameVec(const std::vector<double>& a, const std::vector<double>& b)
{
  if (a.size() != b.size()) return false;
  for (size_t i = 0; i < a.size(); i++)
    if (!sameBits(a[i], b[i])) return false;
  return true;
}

// How the library reads a name used as a designation (String.cpp): std::regex_match(candidate, regex(pattern)) after
// inserting '.' before the first '*' not already preceded by '.'.  Returns 1 / 0, or -1 when the pattern is not a valid regex.
inline int nameMatches(const std::string& pattern, const std::string& cand)
{
  bool simple = true; // literal characters and '.' only -> no need for std::regex
  for (unsigned char ch : pattern)
    if (!(std::isalnum(ch) || ch == '_' || ch == '-' || ch == '.' || ch == ' ')) { simple = false; break; }
  if (simple)
  {
    if (pattern.size() != cand.size()) return 0;
    for (size_t i = 0; i < pattern.size(); i++)
      if (pattern[i] != '.' && pattern[i] != cand[i]) return 0;
    return 1;
  }
  try
  {
    std::string p     = pattern;
    std::size_t found = p.find('*');
    if (found != std::string::npos && (found == 0 || p[found - 1] != '.')) p.insert(found, ".");
    return std::regex_match(cand, std::regex(p)) ? 1 : 0;
  }
  catch (const std::regex_error&)
  {
    return -1;
  }
}

inline std::string locStr(int t, int r)
{
  if (t < 0) return "none";
  return std::string(ELoc::fromValue(t).getKey()) + "#" + std::to_string(r);
}

inline std::vector<DbViolation> collectDbViolations(const Db* db, const DbInvOptions& opt = DbInvOptions())
{
  std::vector<DbViolation> out;
  // at most `maxPerRule` witnesses per rule, so that one broken rule never hides the others
  std::map<std::string, size_t> perRule;
  auto bad = [&](const char* rule, const std::string& d) {
    if (perRule[rule]++ < opt.maxPerRule) out.push_back({rule, d});
  };
  auto full = [&]() { return false; };
  if (db == nullptr) { bad("count", "null Db"); return out; }

  const int ncol = db->getColumnNumber();
  const int nech = db->getSampleNumber(false);
  const int nmax = db->getUIDMaxNumber();
  const int NLOC = Db::getNEloc();
  const VectorString names = db->getAllNames();

  // ---- counts ------------------------------------------------------------------------------------------------
  if (ncol < 0 || nech < 0) bad("count", "negative dimension ncol=" + std::to_string(ncol) + " nech=" + std::to_string(nech));
  if ((int)names.size() != ncol)
    bad("count", "getAllNames has " + std::to_string(names.size()) + " entries, getColumnNumber=" + std::to_string(ncol));
  if (nmax < ncol) bad("count", "getUIDMaxNumber=" + std::to_string(nmax) + " < getColumnNumber=" + std::to_string(ncol));
  if (ncol < 0 || nech < 0 || (int)names.size() != ncol) return out; // nothing below is meaningful

  // ---- names unique ------------------------------------------------------------------------------------------
  for (int i = 0; i < ncol && !full(); i++)
    for (int j = i + 1; j < ncol; j++)
      if (names[i] == names[j])
      {
        bad("names-unique", "columns " + std::to_string(i) + " and " + std::to_string(j) + " are both named '" + names[i] + "'");
        break;
      }

  // ---- column index <-> UID ----------------------------------------------------------------------------------
  std::vector<int> uidOf(ncol, -1);
  {
    std::vector<int> live;
    for (int iuid = 0; iuid < nmax; iuid++)
    {
      int icol = db->getColIdxByUID(iuid);
      if (icol >= 0) live.push_back(iuid);
      if (icol < -1 || icol >= ncol)
        bad("uid-col", "getColIdxByUID(" + std::to_string(iuid) + ")=" + std::to_string(icol) + " outside [-1," + std::to_string(ncol) + ")");
      else if (icol >= 0)
      {
        if (uidOf[icol] >= 0)
          bad("uid-col", "UIDs " + std::to_string(uidOf[icol]) + " and " + std::to_string(iuid) + " both map to column " + std::to_string(icol));
        uidOf[icol] = iuid;
      }
      if (opt.uidDefined && icol >= -1 && icol < ncol)
      {
        bool def = db->isUIDDefined(iuid);
        if (def != (icol >= 0))
          bad("isUIDDefined", "isUIDDefined(" + std::to_string(iuid) + ")=" + (def ? "true" : "false") + " but getColIdxByUID=" + std::to_string(icol));
      }
    }
    for (int icol = 0; icol < ncol; icol++)
    {
      int iuid = db->getUIDByColIdx(icol);
      if (iuid != uidOf[icol] || iuid < 0)
        bad("uid-col", "getUIDByColIdx(" + std::to_string(icol) + ")=" + std::to_string(iuid) + " but the UID table maps UID " + std::to_string(uidOf[icol]) + " to that column");
    }
    VectorInt all = db->getAllUIDs();
    if (all.getVector() != live)
      bad("uid-col", "getAllUIDs() has " + std::to_string(all.size()) + " entries, " + std::to_string(live.size()) + " UIDs map to a column");
    if ((int)live.size() != ncol)
      bad("count", std::to_string(live.size()) + " live UIDs for getColumnNumber=" + std::to_string(ncol));
  }
  for (int icol = 0; icol < ncol; icol++)
    if (uidOf[icol] < 0) return out; // broken bijection: the rest would only repeat it

  // ---- cell views --------------------------------------------------------------------------------------------
  std::vector<std::vector<double>> col(ncol);
  for (int icol = 0; icol < ncol; icol++)
  {
    col[icol] = db->getColumnByColIdx(icol, false, false).getVector();
    if ((int)col[icol].size() != nech)
      bad("count", "column " + std::to_string(icol) + " has " + std::to_string(col[icol].size()) + " values, getSampleNumber=" + std::to_string(nech));
  }
  if (full()) return out;
  for (int icol = 0; icol < ncol; icol++)
    if ((int)col[icol].size() != nech) return out;
  if (opt.values)
  {
    const std::vector<double>& raw = db->getArrays();
    if ((long)raw.size() < (long)ncol * nech)
      bad("value-views", "getArrays() holds " + std::to_string(raw.size()) + " values < ncol*nech=" + std::to_string((long)ncol * nech));
    for (int icol = 0; icol < ncol && !full(); icol++)
    {
      int iuid = uidOf[icol];
      std::string w = "column " + std::to_string(icol) + " (UID " + std::to_string(iuid) + ", '" + names[icol] + "'): ";
      if (!sameVec(db->getColumnByUID(iuid, false, false).getVector(), col[icol])) bad("value-views", w + "getColumnByUID differs from getColumnByColIdx");
      if (!sameVec(db->getArrayByUID(iuid, false).getVector(), col[icol])) bad("value-views", w + "getArrayByUID differs from getColumnByColIdx");
      for (int iech = 0; iech < nech; iech++)
      {
        if (!sameBits(db->getArray(iech, iuid), col[icol][iech])) { bad("value-views", w + "getArray(" + std::to_string(iech) + ") differs"); break; }
        if (!sameBits(db->getValueByColIdx(iech, icol), col[icol][iech])) { bad("value-views", w + "getValueByColIdx(" + std::to_string(iech) + ") differs"); break; }
        if ((long)raw.size() >= (long)ncol * nech && !sameBits(raw[iech + (size_t)nech * icol], col[icol][iech])) { bad("value-views", w + "getArrays()[iech+nech*icol] differs at sample " + std::to_string(iech)); break; }
      }
    }
    if (nech > 0 && ncol > 0)
    {
      // getArrayBySample / getAllColumns list the columns by increasing UID
      std::vector<int> byuid;
      for (int iuid = 0; iuid < nmax; iuid++)
        if (db->getColIdxByUID(iuid) >= 0) byuid.push_back(db->getColIdxByUID(iuid));
      int probe[2] = {0, nech - 1};
      for (int k = 0; k < 2; k++)
      {
        std::vector<double> vals;
        db->getArrayBySample(vals, probe[k]);
        bool ok = vals.size() == byuid.size();
        for (size_t j = 0; ok && j < byuid.size(); j++) ok = sameBits(vals[j], col[byuid[j]][probe[k]]);
        if (!ok) bad("value-views", "getArrayBySample(" + std::to_string(probe[k]) + ") differs from the columns");
      }
      std::vector<double> allc = db->getAllColumns(false, false).getVector();
      bool ok = allc.size() == (size_t)ncol * nech;
      for (size_t j = 0; ok && j < byuid.size(); j++)
        for (int iech = 0; ok && iech < nech; iech++) ok = sameBits(allc[j * nech + iech], col[byuid[j]][iech]);
      if (!ok) bad("value-views", "getAllColumns() differs from the columns");
    }
  }

  // ---- locators ----------------------------------------------------------------------------------------------
  std::vector<int> ltype(ncol, -1), lrank(ncol, -1); // what the per-type lists say about each column
  for (int t = 0; t < NLOC && !full(); t++)
  {
    const ELoc& et = ELoc::fromValue(t);
    int k = db->getLocatorNumber(et);
    if (k != db->getFromLocatorNumber(et) || k != db->getLocNumber(et) || (k > 0) != db->hasLocator(et) || (k > 0) != db->hasLocVariable(et))
      bad("locator-designation", "getLocatorNumber/getFromLocatorNumber/getLocNumber/hasLocator disagree for " + std::string(et.getKey()));
    VectorInt us = db->getUIDsByLocator(et), cs = db->getColIdxsByLocator(et);
    VectorString ns = db->getNamesByLocator(et);
    if ((int)us.size() != k || (int)cs.size() != k || (int)ns.size() != k)
      bad("locator-designation", "vector getters by locator have a wrong length for " + std::string(et.getKey()));
    for (int r = 0; r < k && !full(); r++)
    {
      int iuid = db->getUIDByLocator(et, r);
      int icol = (iuid >= 0 && iuid < nmax) ? db->getColIdxByUID(iuid) : -2;
      std::string w = locStr(t, r) + " -> UID " + std::to_string(iuid) + ": ";
      if (icol < 0 || icol >= ncol)
      {
        bad("locator-gap", w + (icol == -2 ? "not a UID" : "UID of a deleted column") + ", so rank " + std::to_string(r + 1) + " of " + std::to_string(k) + " designates no column");
        continue;
      }
      if (ltype[icol] >= 0)
      {
        bad("locator-two-roles", "column " + std::to_string(icol) + " (UID " + std::to_string(iuid) + ", '" + names[icol] + "') is " + locStr(ltype[icol], lrank[icol]) + " and " + locStr(t, r));
        continue;
      }
      ltype[icol] = t;
      lrank[icol] = r;
      if (db->getColIdxByLocator(et, r) != icol) bad("locator-designation", w + "getColIdxByLocator=" + std::to_string(db->getColIdxByLocator(et, r)) + " want " + std::to_string(icol));
      if (db->getNameByLocator(et, r) != names[icol]) bad("locator-designation", w + "getNameByLocator='" + db->getNameByLocator(et, r) + "' want '" + names[icol] + "'");
      if ((int)us.size() == k && us[r] != iuid) bad("locator-designation", w + "getUIDsByLocator differs");
      if ((int)cs.size() == k && cs[r] != icol) bad("locator-designation", w + "getColIdxsByLocator differs");
      if ((int)ns.size() == k && ns[r] != names[icol]) bad("locator-designation", w + "getNamesByLocator differs");
      if (opt.values && !sameVec(db->getColumnByLocator(et, r, false, false).getVector(), col[icol])) bad("locator-designation", w + "getColumnByLocator differs from the column's values");
      if (opt.values && nech > 0 && !sameBits(db->getFromLocator(et, nech - 1, r), col[icol][nech - 1])) bad("locator-designation", w + "getFromLocator differs from the column's value");
    }
  }
  if (!full())
  {
    VectorString lnames = db->getLocators(true);
    if ((int)lnames.size() != ncol) bad("locator-designation", "getLocators() has " + std::to_string(lnames.size()) + " entries");
    for (int icol = 0; icol < ncol && !full(); icol++)
    {
      ELoc gt;
      int gr    = -7;
      bool has  = db->getLocatorByColIdx(icol, &gt, &gr);
      int gtv   = has ? gt.getValue() : -1;
      if (!has) gr = -1;
      std::string w = "column " + std::to_string(icol) + " (UID " + std::to_string(uidOf[icol]) + ", '" + names[icol] + "'): ";
      if (gtv != ltype[icol] || gr != lrank[icol])
        bad("locator-designation", w + "getLocatorByColIdx says " + locStr(gtv, gr) + ", the per-type lists say " + locStr(ltype[icol], lrank[icol]));
      ELoc ut;
      int ur   = -7;
      bool uh  = db->getLocatorByUID(uidOf[icol], &ut, &ur);
      if (uh != has || (has && (ut.getValue() != gtv || ur != gr))) bad("locator-designation", w + "getLocatorByUID differs from getLocatorByColIdx");
      if ((int)lnames.size() == ncol)
      {
        std::string want = has ? getLocatorName(gt, gr) : getLocatorName(ELoc::UNKNOWN, -1);
        if (lnames[icol] != want) bad("locator-designation", w + "getLocators()[icol]='" + lnames[icol] + "' want '" + want + "'");
      }
    }
  }

  // ---- a column's own name designates it ---------------------------------------------------------------------
  if (opt.names && !full())
  {
    VectorInt seq(ncol), sequ(ncol);
    for (int icol = 0; icol < ncol; icol++) { seq[icol] = icol; sequ[icol] = uidOf[icol]; }
    if (!(db->getNamesByColIdx(seq) == names)) bad("name-designation", "getNamesByColIdx(all) differs from getAllNames()");
    if (!(db->getNamesByUID(sequ) == names)) bad("name-designation", "getNamesByUID(all) differs from getAllNames()");
    for (int icol = 0; icol < ncol && !full(); icol++)
    {
      const std::string& nm = names[icol];
      if (opt.nameSubset && std::find(opt.nameCols.begin(), opt.nameCols.end(), icol) == opt.nameCols.end()) continue;
      int other = -1, valid = 1;
      for (int j = 0; j < ncol && other < 0; j++)
      {
        if (j == icol) continue;
        int m = nameMatches(nm, names[j]);
        if (m < 0) { valid = 0; break; }
        if (m > 0 && names[j] != nm) other = j;
      }
      if (!valid || nameMatches(nm, nm) != 1) continue; // the name is not a usable pattern: designation by name is undefined
      const char* rule = other >= 0 ? "name-regex-ambiguous" : "name-designation";
      std::string w = "column " + std::to_string(icol) + " (UID " + std::to_string(uidOf[icol]) + ") named '" + nm + "'";
      if (other >= 0) w += " (as a pattern it also matches column " + std::to_string(other) + " '" + names[other] + "')";
      w += ": ";
      bool dup = false;
      for (int j = 0; j < ncol; j++)
        if (j != icol && names[j] == nm) dup = true;
      if (dup) continue; // reported by names-unique; designation by name is undefined
      if (db->getNameByColIdx(icol) != nm) bad(rule, w + "getNameByColIdx='" + db->getNameByColIdx(icol) + "'");
      if (db->getNameByUID(uidOf[icol]) != nm) bad(rule, w + "getNameByUID='" + db->getNameByUID(uidOf[icol]) + "'");
      int gc = db->getColIdx(nm);
      if (gc != icol) bad(rule, w + "getColIdx(name)=" + std::to_string(gc));
      int gu = db->getUID(nm);
      if (gu != uidOf[icol]) bad(rule, w + "getUID(name)=" + std::to_string(gu));
      if (opt.values)
      {
        if (!sameVec(db->getColumn(nm, false, false).getVector(), col[icol])) bad(rule, w + "getColumn(name) differs from the column's values");
        if (nech > 0)
        {
          int iech = (icol * 7 + 3) % nech;
          if (!sameBits(db->getValue(nm, iech), col[icol][iech])) bad(rule, w + "getValue(name," + std::to_string(iech) + ") differs");
        }
      }
      ELoc nt;
      int nr  = -7;
      bool nh = db->getLocator(nm, &nt, &nr);
      int ntv = nh ? nt.getValue() : -1;
      if (!nh) nr = -1;
      if (ntv != ltype[icol] || nr != lrank[icol]) bad(rule, w + "getLocator(name) says " + locStr(ntv, nr) + " want " + locStr(ltype[icol], lrank[icol]));
      if (ltype[icol] >= 0 && !db->hasLocatorDefined(nm, ELoc::fromValue(ltype[icol]), lrank[icol])) bad(rule, w + "hasLocatorDefined(name, own locator) is false");
    }
  }

  // ---- reading through the selection -------------------------------------------------------------------------
  // Db.hpp (DB_2): useSel TRUE -> "the contents of the masked samples is set to TEST"; flagCompress TRUE -> "the returned
  // array is compressed to the only non-masked samples". Only evaluated when the selection column is 0/1.
  if (opt.values && db->getLocatorNumber(ELoc::SEL) > 0 && db->getColIdxByLocator(ELoc::SEL, 0) >= 0 &&
      db->getColIdxByLocator(ELoc::SEL, 0) < ncol)
  {
    const std::vector<double>& sel = col[db->getColIdxByLocator(ELoc::SEL, 0)];
    bool bin = true;
    for (double x : sel) bin = bin && (x == 0. || x == 1.);
    if (bin)
    {
      if (!sameVec(db->getSelections().getVector(), sel)) bad("selection-views", "getSelections() differs from the SEL column");
      for (int icol = 0; icol < ncol; icol++)
      {
        std::vector<double> wantM, wantC;
        for (int iech = 0; iech < nech; iech++)
        {
          wantM.push_back(sel[iech] == 1. ? col[icol][iech] : TEST);
          if (sel[iech] == 1.) wantC.push_back(col[icol][iech]);
        }
        std::string w = "column " + std::to_string(icol) + " '" + names[icol] + "': ";
        if (!sameVec(db->getColumnByColIdx(icol, true, false).getVector(), wantM)) bad("selection-views", w + "getColumnByColIdx(useSel, not compressed) differs");
        if (!sameVec(db->getColumnByUID(uidOf[icol], true, true).getVector(), wantC)) bad("selection-views", w + "getColumnByUID(useSel, compressed) differs");
        if (!sameVec(db->getArrayByUID(uidOf[icol], true).getVector(), wantC)) bad("selection-views", w + "getArrayByUID(useSel) differs");
      }
    }
  }

  // ---- active samples ----------------------------------------------------------------------------------------
  if (opt.activeCount && !full())
  {
    int nact = db->getSampleNumber(true);
    int cnt  = 0;
    for (int iech = 0; iech < nech; iech++)
      if (db->isActive(iech)) cnt++;
    std::string w = "getSampleNumber(true)=" + std::to_string(nact);
    if (cnt != nact) bad("active-count", w + " but isActive() holds for " + std::to_string(cnt) + " samples");
    VectorBool act = db->getActiveArray();
    int cnt2       = 0;
    for (int iech = 0; iech < (int)act.size(); iech++)
      if (act[iech]) cnt2++;
    if ((int)act.size() != nech || cnt2 != cnt) bad("active-count", "getActiveArray() disagrees with isActive()");
    if (ncol > 0)
    {
      int nc = (int)db->getColumnByColIdx(0, true, true).size();
      if (nc != nact) bad("active-count", w + " but a compressed column has " + std::to_string(nc) + " values");
    }
    if (db->getLocatorNumber(ELoc::SEL) == 0 && nact != nech) bad("active-count", w + " without selection, getSampleNumber()=" + std::to_string(nech));
    if (nact < 0 || nact > nech) bad("active-count", w + " outside [0," + std::to_string(nech) + "]");
  }
  return out;
}

/// "" when every rule holds, else "<rule>: <detail>" for the first rule broken.
inline std::string checkDbInvariants(const Db* db)
{
  DbInvOptions o;
  o.maxPerRule = 1;
  auto v       = collectDbViolations(db, o);
  if (v.empty()) return "";
  return v[0].rule + ": " + v[0].detail;
}
} // namespace c07
