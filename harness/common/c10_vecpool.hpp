// C10 part 3a: pool of VectorT / VectorNumT handles mirrored by std::vector models.
//
// Every non-const accessor of include/Basic/VectorT.hpp and VectorNumT.hpp is driven on handles that (most of the
// time) share their storage with other handles (copy-on-write). After each step every live handle must equal its
// model: an accessor that writes without _detach() changes a sibling and is reported under the name of that accessor.
//
// NOT driven (deliberate escape hatches, see DESIGN C10 "Limits"): VectorT::getVector() / getVectorPtr() /
// operator const Vector&() are const methods; getVector()/getVectorPtr() hand out the shared storage mutable.
// getVectorPtr() is used here read-only (pointer identity) to know whether two handles share storage.
//
// Rules of use the harness respects (what std::vector itself would require):
//  * references / pointers / iterators obtained from a non-const accessor are used immediately, before any other
//    operation on any handle;
//  * a moved-from handle is only assigned to or destroyed;
//  * ranges inserted into a handle come from ANOTHER handle object (which may share the storage).
#pragma once
#include "common/vh.hpp"
#include "common/c10_util.hpp"
#include "Basic/VectorT.hpp"
#include "Basic/VectorNumT.hpp"
#include <memory>
#include <type_traits>

namespace c10v
{
using vh::Rng;
using vh::Ctx;

template<class T> struct Tr;
template<> struct Tr<int>
{
  using ME = int;
  static const char* name() { return "int"; }
  static ME gen(Rng& r) { return r.irange(-9, 9); }
  static int toH(const ME& m) { return m; }
  static bool eq(const int& a, const ME& b) { return a == b; }
};
template<> struct Tr<double>
{
  using ME = double;
  static const char* name() { return "double"; }
  static ME gen(Rng& r) { return r.irange(-40, 40) / 8.0; }
  static double toH(const ME& m) { return m; }
  static bool eq(const double& a, const ME& b)
  {
    if (std::isnan(a) || std::isnan(b)) return std::isnan(a) && std::isnan(b);
    return memcmp(&a, &b, 8) == 0;
  }
};
template<> struct Tr<String>
{
  using ME = std::string;
  static const char* name() { return "String"; }
  static ME gen(Rng& r)
  {
    std::string s;
    int n = r.irange(0, 5);
    for (int i = 0; i < n; i++) s += (char)('a' + r.irange(0, 25));
    if (r.coin(0.1)) s += std::string(40, 'L'); // beyond the small-string buffer
    return s;
  }
  static String toH(const ME& m) { return m; }
  static bool eq(const String& a, const ME& b) { return a == b; }
};
template<> struct Tr<VectorDouble>
{
  using ME = std::vector<double>;
  static const char* name() { return "VectorDouble"; }
  static ME gen(Rng& r)
  {
    ME m(r.irange(0, 4));
    for (auto& x : m) x = Tr<double>::gen(r);
    return m;
  }
  static VectorDouble toH(const ME& m) { return VectorDouble(m); }
  static bool eq(const VectorDouble& a, const ME& b)
  {
    if (a.size() != b.size()) return false;
    for (size_t i = 0; i < b.size(); i++)
      if (!Tr<double>::eq(a[i], b[i])) return false;
    return true;
  }
};

template<class H> struct IsNum : std::false_type {};
template<class T> struct IsNum<VectorNumT<T>> : std::true_type {};

template<class H, class T> struct Pool
{
  using ME = typename Tr<T>::ME;
  using M  = std::vector<ME>;
  struct Slot
  {
    std::unique_ptr<H> h;
    M m;
    bool moved = false;
  };
  std::vector<Slot> s;
  Rng& r;
  Ctx& c;
  std::string hname;
  static constexpr int MAXPOOL = 7;
  static constexpr int MAXLEN  = 12;

  Pool(Rng& r_, Ctx& c_, const std::string& hn) : r(r_), c(c_), hname(hn) {}

  // ----- construction helpers
  M genModel(int n = -1)
  {
    if (n < 0) n = r.coin(0.1) ? 0 : r.irange(1, 8);
    M m(n);
    for (auto& x : m) x = Tr<T>::gen(r);
    return m;
  }
  static std::vector<T> toStd(const M& m)
  {
    std::vector<T> v;
    v.reserve(m.size());
    for (auto& x : m) v.push_back(Tr<T>::toH(x));
    return v;
  }
  static H fromModel(const M& m) { return H(toStd(m)); }

  static bool same(const H& h, const M& m)
  {
    if (h.size() != m.size()) return false;
    for (size_t k = 0; k < m.size(); k++)
      if (!Tr<T>::eq(h[k], m[k])) return false; // const operator[]: no detach
    return true;
  }
  // first slot that differs from its model, -1 if none
  int firstBad() const
  {
    for (size_t k = 0; k < s.size(); k++)
      if (!s[k].moved && !same(*s[k].h, s[k].m)) return (int)k;
    return -1;
  }
  bool shared(int i) const
  {
    for (size_t k = 0; k < s.size(); k++)
      if ((int)k != i && s[k].h && s[k].h->getVectorPtr() == s[i].h->getVectorPtr()) return true; // moved-from VectorNumT handles are copies: count them
    return false;
  }
  int live() const
  {
    int n = 0;
    for (auto& x : s) n += !x.moved;
    return n;
  }
  int pickLive()
  {
    std::vector<int> v;
    for (size_t k = 0; k < s.size(); k++)
      if (!s[k].moved) v.push_back((int)k);
    return v.empty() ? -1 : r.pick(v);
  }
  int pickMoved()
  {
    std::vector<int> v;
    for (size_t k = 0; k < s.size(); k++)
      if (s[k].moved) v.push_back((int)k);
    return v.empty() ? -1 : r.pick(v);
  }
  // slot for a new handle (append, or replace a random one which is destroyed first)
  int newSlot(int keep1, int keep2 = -1)
  {
    if ((int)s.size() < MAXPOOL) { s.emplace_back(); return (int)s.size() - 1; }
    for (;;)
    {
      int k = r.irange(0, (int)s.size() - 1);
      if (k == keep1 || k == keep2) continue;
      s[k].h.reset();
      s[k].m.clear();
      s[k].moved = false;
      return k;
    }
  }
  void makeShared(int i)
  {
    // make sure slot i shares its storage with some other live handle (copy-construct a sibling)
    if (shared(i)) return;
    int j  = newSlot(i);
    s[j].h = std::make_unique<H>(*s[i].h);
    s[j].m = s[i].m;
  }

  void seed()
  {
    int n0 = r.irange(1, 3);
    for (int k = 0; k < n0; k++)
    {
      s.emplace_back();
      s.back().m = genModel();
      s.back().h = std::make_unique<H>(fromModel(s.back().m));
    }
  }

  // ----- one random step; returns the name of the accessor exercised
  std::string step();
  std::string numStep(int i);

  // ----- hazard probes: run in a forked child because a defect there corrupts memory
  //   returns (name, child report)
  std::pair<std::string, c10::Child> hazard(int which);
};

template<class H, class T> std::string Pool<H, T>::numStep(int i)
{
  if constexpr (IsNum<H>::value)
  {
    H& h  = *s[i].h;
    M& m  = s[i].m;
    int n = (int)m.size();
    double amax = 0;
    for (auto& x : m) amax = std::max(amax, std::fabs((double)x));
    int op = r.irange(0, 8);
    if (amax > 3000 && (op == 2 || op == 6)) op = 0; // keep int products far from overflow
    if (op <= 3)
    {
      // element-wise with another handle of the same size: a sibling sharing the storage, a fresh one, or itself
      int how = r.irange(0, 2);
      H tmp;
      const H* o = nullptr;
      M om;
      if (how == 0) { tmp = h; om = m; o = &tmp; }                        // shares storage with h
      else if (how == 1) { om = genModel(n); tmp = fromModel(om); o = &tmp; }
      else { om = m; o = &h; }                                            // itself
      if (op == 3)
      {
        // divide: the documented guard throws on |v| < 1e-10. NOTE: VectorNumT.hpp calls unqualified abs(), which is
        // the INTEGER abs for doubles, so any |v| < 1 is refused (a C11 matter, reported there): keep |divisor| >= 1.
        bool small = false;
        for (auto& x : om) small |= (std::fabs((double)x) < 1);
        if (small)
        {
          if (how != 1) op = 0;
          else
          {
            for (auto& x : om) if (std::fabs((double)x) < 1) x = 2;
            tmp = fromModel(om);
          }
        }
      }
      for (int k = 0; k < n; k++)
      {
        if (op == 0) m[k] = m[k] + om[k];
        if (op == 1) m[k] = m[k] - om[k];
        if (op == 2) m[k] = m[k] * om[k];
        if (op == 3) m[k] = m[k] / om[k];
      }
      if (op == 0) { h.add(*o); return "add(vector)"; }
      if (op == 1) { h.subtract(*o); return "subtract(vector)"; }
      if (op == 2) { h.multiply(*o); return "multiply(vector)"; }
      h.divide(*o);
      return "divide(vector)";
    }
    T v = (T)(r.irange(1, 4) * (r.coin() ? 1 : -1));
    if (op == 4) { for (auto& x : m) x += v; h.add(v); return "add(scalar)"; }
    if (op == 5) { for (auto& x : m) x -= v; h.subtract(v); return "subtract(scalar)"; }
    if (op == 6) { for (auto& x : m) x *= v; h.multiply(v); return "multiply(scalar)"; }
    if (op == 7) { for (auto& x : m) x /= v; h.divide(v); return "divide(scalar)"; }
    // documented failures: wrong size / division by zero throw (const char*) and leave everything as it was
    {
      H other = fromModel(genModel(n + 1));
      try { if (r.coin()) h.add(other); else h.divide((T)0); }
      catch (const char*) { return "throwing-arith"; }
      c.truth("vec-throw", std::string("C10:vector:arith-wrong-size-does-not-throw"), false, hname);
      return "throwing-arith";
    }
  }
  return "none";
}

template<class H, class T> std::string Pool<H, T>::step()
{
  // revive / use moved-from handles first (only assignment or destruction is allowed on them)
  int mv = pickMoved();
  if (mv >= 0 && (live() == 0 || r.coin(0.35)))
  {
    int how = r.irange(0, 2);
    if (how == 0 || live() == 0)
    {
      s[mv].m     = genModel();
      *s[mv].h    = fromModel(s[mv].m); // move-assignment from a temporary (copy-assignment for VectorNumT)
      s[mv].moved = false;
      return "assign-temporary(to moved-from)";
    }
    if (how == 1)
    {
      s[mv].h.reset();
      s.erase(s.begin() + mv);
      return "destroy(moved-from)";
    }
    int j = pickLive();
    *s[mv].h    = std::move(*s[j].h);
    s[mv].m     = s[j].m;
    s[mv].moved = false;
    s[j].moved  = true;
    return "move-assign(to moved-from)";
  }
  int i = pickLive();
  H& h  = *s[i].h;
  M& m  = s[i].m;
  int n = (int)m.size();
  bool grow = n < MAXLEN;
  ME v  = Tr<T>::gen(r);
  int k = n > 0 ? r.irange(0, n - 1) : 0;

  for (int attempt = 0; attempt < 50; attempt++)
  {
    int op = r.irange(0, 47);
    switch (op)
    {
      case 0:
      {
        int j  = newSlot(i);
        s[j].h = std::make_unique<H>(*s[i].h);
        s[j].m = s[i].m;
        return "copy-ctor";
      }
      case 1:
      {
        int j = pickLive(); // may be i: self-assignment
        *s[j].h = *s[i].h;
        s[j].m  = M(s[i].m);
        return j == i ? "copy-assign(self)" : "copy-assign";
      }
      case 2:
      {
        int j  = newSlot(i);
        s[j].h = std::make_unique<H>(std::move(*s[i].h));
        s[j].m = s[i].m;
        s[i].moved = true;
        return "move-ctor";
      }
      case 3:
      {
        int j = pickLive();
        if (j == i) break;
        *s[j].h    = std::move(*s[i].h);
        s[j].m     = s[i].m;
        s[i].moved = true;
        return "move-assign";
      }
      case 4:
      {
        m = genModel();
        h = fromModel(m);
        return "assign-temporary";
      }
      case 5:
      {
        m = genModel();
        std::vector<T> sv = toStd(m);
        h.VectorT<T>::operator=(sv);
        return "assign(std::vector)";
      }
      case 6:
      {
        ME a = Tr<T>::gen(r), b = Tr<T>::gen(r);
        m = M{a, b, v};
        h.VectorT<T>::operator=({Tr<T>::toH(a), Tr<T>::toH(b), Tr<T>::toH(v)});
        return "assign(initializer_list)";
      }
      case 7: if (!n) break; m[k] = v; h[k] = Tr<T>::toH(v); return "operator[]";
      case 8: if (!n) break; m[k] = v; h.at(k) = Tr<T>::toH(v); return "at";
      case 9: if (!n) break; m[k] = v; h.setAt(k, Tr<T>::toH(v)); return "setAt";
      case 10: if (!n) break; m.front() = v; h.front() = Tr<T>::toH(v); return "front";
      case 11: if (!n) break; m.back() = v; h.back() = Tr<T>::toH(v); return "back";
      case 12: if (!n) break; m[k] = v; h.data()[k] = Tr<T>::toH(v); return "data";
      case 13:
      {
        if (!n) break;
        int k0 = r.irange(0, k);
        m[k]   = v;
        h.subdata(k0)[k - k0] = Tr<T>::toH(v);
        return "subdata";
      }
      case 14: if (!n) break; m[k] = v; *(h.begin() + k) = Tr<T>::toH(v); return "begin";
      case 15: if (!n) break; m[n - 1 - k] = v; *(h.end() - 1 - k) = Tr<T>::toH(v); return "end";
      case 16: if (!n) break; m[n - 1 - k] = v; h.rbegin()[k] = Tr<T>::toH(v); return "rbegin";
      case 17: if (!n) break; m[k] = v; *(h.rend() - 1 - k) = Tr<T>::toH(v); return "rend";
      case 18:
      {
        for (auto& x : m) x = Tr<T>::gen(r);
        size_t q = 0;
        for (auto& x : h) x = Tr<T>::toH(m[q++]); // non-const begin()/end()
        return "range-for";
      }
      case 19: if (!grow) break; m.push_back(v); { T t = Tr<T>::toH(v); h.push_back(t); } return "push_back(const&)";
      case 20: if (!grow) break; m.push_back(v); h.push_back(Tr<T>::toH(v)); return "push_back(&&)";
      case 21: if (!grow) break; m.insert(m.begin(), v); { T t = Tr<T>::toH(v); h.push_front(t); } return "push_front(const&)";
      case 22: if (!grow) break; m.insert(m.begin(), v); h.push_front(Tr<T>::toH(v)); return "push_front(&&)";
      case 23:
      {
        if (!grow) break;
        int p = r.irange(0, n);
        m.insert(m.begin() + p, v);
        h.insert((size_t)p, Tr<T>::toH(v));
        return "insert(i,value)";
      }
      case 24:
      {
        if (!grow) break;
        int p = r.irange(0, n), cnt = r.irange(0, 3);
        m.insert(m.begin() + p, (size_t)cnt, v);
        h.insert((size_t)p, (size_t)cnt, Tr<T>::toH(v));
        return "insert(i,count,value)";
      }
      case 25:
      case 26:
      {
        // insert(pos, first, last): range from another handle object (may share the storage)
        if (!grow) break;
        int j = pickLive();
        if (j == i) break;
        const H& o  = *s[j].h;
        const M& om = s[j].m;
        int a = r.irange(0, (int)om.size()), b = r.irange(0, (int)om.size());
        if (a > b) std::swap(a, b);
        if (b - a > 4) b = a + 4;
        int p = r.irange(0, n);
        M ins(om.begin() + a, om.begin() + b);
        bool cpos = (op == 26);
        if (cpos && shared(i)) break; // const-iterator position on shared storage: hazard probe only
        typename H::iterator ret = cpos ? h.insert(h.cbegin() + p, o.cbegin() + a, o.cbegin() + b)
                                        : h.insert(h.begin() + p, o.cbegin() + a, o.cbegin() + b);
        m.insert(m.begin() + p, ins.begin(), ins.end());
        const H& ch = h;
        c.truth("vec-retval", "C10:vector:insert(pos,first,last):returned-iterator", (ret - ch.begin()) == p, hname);
        return cpos ? "insert(cpos,first,last)" : "insert(pos,first,last)";
      }
      case 27: if (!n) break; m.erase(m.begin() + k); h.remove((size_t)k); return "remove(i)";
      case 28:
      {
        if (!n) break;
        int cnt = r.irange(0, n - k);
        m.erase(m.begin() + k, m.begin() + k + cnt);
        h.remove((size_t)k, (size_t)cnt);
        return "remove(i,count)";
      }
      case 29:
      case 30:
      {
        if (!n) break;
        bool cpos = (op == 30);
        if (cpos && shared(i)) break;
        typename H::iterator ret = cpos ? h.erase(h.cbegin() + k) : h.erase(h.begin() + k);
        m.erase(m.begin() + k);
        const H& ch = h;
        c.truth("vec-retval", "C10:vector:erase(pos):returned-iterator", (ret - ch.begin()) == k, hname);
        return cpos ? "erase(cpos)" : "erase(pos)";
      }
      case 31:
      case 32:
      {
        int a = r.irange(0, n), b = r.irange(0, n);
        if (a > b) std::swap(a, b);
        bool cpos = (op == 32);
        if (cpos && shared(i)) break;
        if (cpos) h.erase(h.cbegin() + a, h.cbegin() + b);
        else
        {
          typename H::iterator f = h.begin(); // detaches once; both positions from the same storage
          h.erase(f + a, f + b);
        }
        m.erase(m.begin() + a, m.begin() + b);
        return cpos ? "erase(cfirst,clast)" : "erase(first,last)";
      }
      case 33:
      {
        int nn = r.coin(0.3) ? n : r.irange(0, MAXLEN);
        m.resize(nn);
        h.resize((size_t)nn);
        return "resize(n)";
      }
      case 34:
      {
        int nn = r.coin(0.3) ? n : r.irange(0, MAXLEN);
        m.resize(nn, v);
        h.resize((size_t)nn, Tr<T>::toH(v));
        return "resize(n,value)";
      }
      case 35: if (!r.coin(0.3)) break; m.clear(); h.clear(); return "clear";
      case 36: std::fill(m.begin(), m.end(), v); h.fill(Tr<T>::toH(v)); return "fill(value)";
      case 37:
      {
        // fill(value, size): "if (size > 0) resize(size)" then fill
        int nn = r.irange(0, MAXLEN);
        if (nn > 0) m.resize(nn);
        std::fill(m.begin(), m.end(), v);
        h.fill(Tr<T>::toH(v), (size_t)nn);
        return "fill(value,size)";
      }
      case 38:
      {
        int j = pickLive();
        h.swap(*s[j].h);
        if (j != i) std::swap(s[i].m, s[j].m);
        return "swap";
      }
      case 39: if (!grow) break; m.push_back(v); h << Tr<T>::toH(v); return "operator<<(value)";
      case 40:
      {
        if (!grow) break;
        int j = pickLive(); // may be itself: a << a appends a copy of the original content
        M om  = s[j].m;
        if (om.size() > 6) break;
        h << *s[j].h;
        m.insert(m.end(), om.begin(), om.end());
        return j == i ? "operator<<(self)" : "operator<<(vector)";
      }
      case 41:
      {
        int j = pickLive();
        if (j == i) break;
        const H& o  = *s[j].h;
        const M& om = s[j].m;
        int a = r.irange(0, (int)om.size()), b = r.irange(0, (int)om.size());
        if (a > b) std::swap(a, b);
        M nm(om.begin() + a, om.begin() + b);
        h.assign(o.cbegin() + a, o.cbegin() + b);
        m = nm;
        return "assign(first,last)";
      }
      case 42: h.reserve((size_t)(n + r.irange(0, 20))); return "reserve";
      case 43:
      {
        // const reads must not change anything (and must not detach)
        const H& ch = h;
        auto p0     = ch.getVectorPtr();
        bool ok     = ch.size() == (size_t)n && ch.empty() == (n == 0) && ch.length() == n;
        if (n) ok = ok && Tr<T>::eq(ch.at(k), m[k]) && Tr<T>::eq(ch.front(), m.front()) && Tr<T>::eq(ch.back(), m.back()) &&
                    Tr<T>::eq(ch.data()[k], m[k]) && Tr<T>::eq(ch.constData()[k], m[k]) && Tr<T>::eq(*(ch.begin() + k), m[k]) &&
                    Tr<T>::eq(*(ch.cend() - 1), m.back()) && Tr<T>::eq(ch.getAt(k), m[k]) && Tr<T>::eq(ch.subdata(k)[0], m[k]) &&
                    Tr<T>::eq(*ch.crbegin(), m.back()) && ch.contains(ch[k]);
        ok = ok && (ch == ch) && !(ch != ch) && !(ch < ch);
        if constexpr (IsNum<H>::value)
        {
          double sm = 0;
          for (auto& x : m) sm += (double)x * (double)x;
          ok = ok && ch.innerProduct(ch) == sm && ch.isSame(ch);
        }
        c.truth("vec-const", "C10:vector:const-accessor-wrong-value", ok, hname);
        c.truth("vec-const", "C10:vector:const-accessor-detached", p0 == ch.getVectorPtr(), hname);
        return "const-reads";
      }
      case 44:
      {
        // documented failure: out-of-range at()/getAt()/setAt() throw (AException) and leave everything as it was
        int which = r.irange(0, 2);
        try
        {
          if (which == 0) h.at((size_t)n) = Tr<T>::toH(v);
          else if (which == 1) h.setAt(r.coin() ? -1 : n, Tr<T>::toH(v));
          else { const H& ch = h; (void)ch.getAt(n); }
        }
        catch (const AException&) { return "throwing-access"; }
        c.truth("vec-throw", "C10:vector:out-of-range-does-not-throw", false, hname);
        return "throwing-access";
      }
      case 45:
      {
        if (s.size() < 2 || !r.coin(0.5)) break;
        s[i].h.reset();
        s.erase(s.begin() + i);
        return "destroy";
      }
      case 46:
      case 47:
      {
        if constexpr (IsNum<H>::value) return numStep(i);
        break;
      }
    }
  }
  return "none";
}

// Hazard probes. Each one is a use the signatures invite and std::vector supports; run in a forked child.
template<class H, class T> std::pair<std::string, c10::Child> Pool<H, T>::hazard(int which)
{
  int i = pickLive();
  std::string name;
  std::function<void()> act;
  H& h  = *s[i].h;
  M& m  = s[i].m;
  int n = (int)m.size();
  switch (which)
  {
    case 0:
    {
      if (n == 0) { m = genModel(4); h = fromModel(m); n = 4; }
      makeShared(i);
      int k = r.irange(0, n - 1);
      name  = "erase(const_iterator)-on-shared-storage";
      act   = [this, i, k]() { H& hh = *s[i].h; hh.erase(hh.cbegin() + k); s[i].m.erase(s[i].m.begin() + k); };
      break;
    }
    case 1:
    {
      if (n < 2) { m = genModel(5); h = fromModel(m); n = 5; }
      makeShared(i);
      int a = r.irange(0, n - 1), b = r.irange(a + 1, n);
      name  = "erase(const_iterator,const_iterator)-on-shared-storage";
      act   = [this, i, a, b]() { H& hh = *s[i].h; hh.erase(hh.cbegin() + a, hh.cbegin() + b); s[i].m.erase(s[i].m.begin() + a, s[i].m.begin() + b); };
      break;
    }
    case 2:
    {
      makeShared(i);
      int j = i;
      for (size_t q = 0; q < s.size(); q++) if ((int)q != i && !s[q].moved) j = (int)q;
      if (s[j].m.empty()) { s[j].m = genModel(3); *s[j].h = fromModel(s[j].m); makeShared(i); }
      int p = r.irange(0, (int)s[i].m.size());
      name  = "insert(const_iterator,first,last)-on-shared-storage";
      act   = [this, i, j, p]() {
        H& hh = *s[i].h; const H& o = *s[j].h; M om = s[j].m;
        hh.insert(hh.cbegin() + p, o.cbegin(), o.cend());
        s[i].m.insert(s[i].m.begin() + p, om.begin(), om.end());
      };
      break;
    }
    case 3:
    case 4:
    {
      // assignment to a moved-from handle
      int j  = newSlot(i);
      s[j].h = std::make_unique<H>(std::move(*s[i].h));
      s[j].m = s[i].m;
      s[i].moved = true;
      bool vec = (which == 4);
      name = vec ? "assign(std::vector)-to-moved-from" : "copy-assign-to-moved-from";
      act  = [this, i, j, vec]() {
        if (vec) { std::vector<T> sv = toStd(s[j].m); s[i].h->VectorT<T>::operator=(sv); }
        else *s[i].h = *s[j].h;
        s[i].m = s[j].m; s[i].moved = false;
      };
      break;
    }
  }
  c10::Child ch = c10::run_child([&]() -> std::string {
    act();
    int bad = firstBad();
    return bad < 0 ? "OK" : "MISMATCH slot " + std::to_string(bad);
  }, 60.0);
  return {name, ch};
}
} // namespace c10v
