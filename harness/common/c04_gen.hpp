// C04 shared generators: point sets, data bases (heterotopy, selections, measurement error), nested anisotropic
// models. Owner: C04 author. Everything is drawn from the case PRNG (vh::Rng); the library generator is never used.
#pragma once
#include "vh.hpp"
#include "ref_linalg.hpp"

#include "Basic/VectorNumT.hpp"
#include "Basic/VectorHelper.hpp"
#include "Basic/OptDbg.hpp"
#include "Covariances/CovAniso.hpp"
#include "Covariances/CovCalcMode.hpp"
#include "Covariances/ACovAnisoList.hpp"
#include "Db/Db.hpp"
#include "Db/DbGrid.hpp"
#include "Enum/ECov.hpp"
#include "Enum/ELoadBy.hpp"
#include "Enum/ELoc.hpp"
#include "Model/Model.hpp"
#include "Space/ASpaceObject.hpp"
#include "Space/SpacePoint.hpp"

#include <memory>
#include <string>
#include <vector>

namespace c04
{
using vh::Rng;
static const double EPS   = 2.220446049250313e-16;
static const double UNDEF = 1.234e30; // TEST

// ---------------------------------------------------------------------------------------------------------------
// points
// ---------------------------------------------------------------------------------------------------------------
struct Pts
{
  int ndim = 0, n = 0;
  std::vector<std::vector<double>> x; // x[idim][i]
  double coord(int i, int d) const { return x[d][i]; }
  double dist(int i, int j) const
  {
    double s = 0;
    for (int d = 0; d < ndim; d++) s += (x[d][i] - x[d][j]) * (x[d][i] - x[d][j]);
    return std::sqrt(s);
  }
  double maxabs() const
  {
    double m = 0;
    for (auto& c : x)
      for (double v : c) m = std::max(m, std::fabs(v));
    return m;
  }
};
inline double distPP(const Pts& a, int i, const Pts& b, int j)
{
  double s = 0;
  for (int d = 0; d < a.ndim; d++) s += (a.x[d][i] - b.x[d][j]) * (a.x[d][i] - b.x[d][j]);
  return std::sqrt(s);
}

// layout: 0 uniform, 1 clustered, 2 jittered lattice. Minimum separation minsep*L enforced against every point of
// 'self' and (optionally) of 'other' ("distinct locations"; duplicates are added on purpose by the callers).
inline Pts genPoints(Rng& r, int ndim, int n, double L, const std::vector<double>& origin, int layout,
                     double minsep = 2e-3, const Pts* other = nullptr)
{
  Pts p;
  p.ndim = ndim;
  p.x.assign(ndim, {});
  std::vector<std::vector<double>> centres;
  int nc = 1 + (int)(r.next() % 3);
  for (int k = 0; k < nc; k++)
  {
    std::vector<double> c(ndim);
    for (auto& v : c) v = r.uni(0.15, 0.85) * L;
    centres.push_back(c);
  }
  int side = std::max(2, (int)std::ceil(std::pow((double)n, 1.0 / ndim)) + 1);
  int guard = 0;
  while (p.n < n && guard++ < 100 * n + 1000)
  {
    std::vector<double> c(ndim);
    if (layout == 1)
    {
      const auto& ctr = centres[r.next() % centres.size()];
      for (int d = 0; d < ndim; d++) c[d] = ctr[d] + 0.08 * L * r.normal();
    }
    else if (layout == 2)
    {
      for (int d = 0; d < ndim; d++) c[d] = ((double)(r.next() % side) + 0.5 + r.uni(-0.3, 0.3)) * L / side;
    }
    else
      for (int d = 0; d < ndim; d++) c[d] = r.uni(0, L);
    for (int d = 0; d < ndim; d++) c[d] += origin[d];
    bool ok = true;
    for (int i = 0; i < p.n && ok; i++)
    {
      double s = 0;
      for (int d = 0; d < ndim; d++) s += (p.x[d][i] - c[d]) * (p.x[d][i] - c[d]);
      if (std::sqrt(s) < minsep * L) ok = false;
    }
    if (other)
      for (int i = 0; i < other->n && ok; i++)
      {
        double s = 0;
        for (int d = 0; d < ndim; d++) s += (other->x[d][i] - c[d]) * (other->x[d][i] - c[d]);
        if (std::sqrt(s) < minsep * L) ok = false;
      }
    if (!ok) continue;
    for (int d = 0; d < ndim; d++) p.x[d].push_back(c[d]);
    p.n++;
  }
  if (p.n < n) throw vh::SkipCase {"pointgen"};
  return p;
}

// ---------------------------------------------------------------------------------------------------------------
// data base description and construction
// ---------------------------------------------------------------------------------------------------------------
struct DbSpec
{
  Pts pts;
  int nvar = 0;
  std::vector<std::vector<double>> z;    // z[ivar][i], UNDEF when missing
  std::vector<double> sel;               // empty = no selection column; else 0/1
  std::vector<std::vector<double>> verr; // empty or verr[ivar][i]
  std::vector<std::vector<double>> fext; // external drift columns f[k][i]
  std::vector<std::pair<std::string, std::vector<double>>> extra; // plain columns without locator (after the others)
  bool active(int i) const { return sel.empty() || sel[i] > 0; }
  bool defined(int i, int iv) const { return z[iv][i] < 1e29; }
  int nactive() const
  {
    int m = 0;
    for (int i = 0; i < pts.n; i++) m += active(i);
    return m;
  }
};

inline std::unique_ptr<Db> buildDb(const DbSpec& s)
{
  int n = s.pts.n, ndim = s.pts.ndim;
  VectorDouble tab;
  VectorString names;
  for (int d = 0; d < ndim; d++)
  {
    for (int i = 0; i < n; i++) tab.push_back(s.pts.x[d][i]);
    names.push_back("x" + std::to_string(d + 1));
  }
  for (int v = 0; v < s.nvar; v++)
  {
    for (int i = 0; i < n; i++) tab.push_back(s.z[v][i]);
    names.push_back("z" + std::to_string(v + 1));
  }
  for (size_t v = 0; v < s.verr.size(); v++)
  {
    for (int i = 0; i < n; i++) tab.push_back(s.verr[v][i]);
    names.push_back("v" + std::to_string(v + 1));
  }
  for (size_t v = 0; v < s.fext.size(); v++)
  {
    for (int i = 0; i < n; i++) tab.push_back(s.fext[v][i]);
    names.push_back("f" + std::to_string(v + 1));
  }
  for (auto& e : s.extra)
  {
    for (int i = 0; i < n; i++) tab.push_back(e.second[i]);
    names.push_back(e.first);
  }
  if (!s.sel.empty())
  {
    for (int i = 0; i < n; i++) tab.push_back(s.sel[i]);
    names.push_back("sel");
  }
  std::unique_ptr<Db> db(Db::createFromSamples(n, ELoadBy::COLUMN, tab, names, VectorString(), true));
  if (!db) throw std::runtime_error("Db::createFromSamples returned null");
  VectorString nx, nz, nv, nf;
  for (int d = 0; d < ndim; d++) nx.push_back("x" + std::to_string(d + 1));
  for (int v = 0; v < s.nvar; v++) nz.push_back("z" + std::to_string(v + 1));
  for (size_t v = 0; v < s.verr.size(); v++) nv.push_back("v" + std::to_string(v + 1));
  for (size_t v = 0; v < s.fext.size(); v++) nf.push_back("f" + std::to_string(v + 1));
  db->setLocators(nx, ELoc::X, 0);
  if (!nz.empty()) db->setLocators(nz, ELoc::Z, 0);
  if (!nv.empty()) db->setLocators(nv, ELoc::V, 0);
  if (!nf.empty()) db->setLocators(nf, ELoc::F, 0);
  if (!s.sel.empty()) db->setLocator("sel", ELoc::SEL, 0);
  return db;
}

// values: smooth trend + noise (so that kriging estimates are non-trivial); hetero = probability that a cell is
// undefined; heteroMode 0 none, 1 random cells, 2 whole samples undefined, 3 one variable missing at most samples.
inline void genValues(Rng& r, DbSpec& s, int nvar, int heteroMode, double L)
{
  int n  = s.pts.n;
  s.nvar = nvar;
  s.z.assign(nvar, std::vector<double>(n, 0.0));
  for (int v = 0; v < nvar; v++)
  {
    std::vector<double> g(s.pts.ndim);
    for (auto& a : g) a = r.uni(-2, 2) / L;
    double c0 = r.uni(-3, 3);
    for (int i = 0; i < n; i++)
    {
      double t = c0;
      for (int d = 0; d < s.pts.ndim; d++) t += g[d] * s.pts.x[d][i];
      s.z[v][i] = t + r.normal();
    }
  }
  if (heteroMode == 1)
  {
    double p = r.uni(0.1, 0.5);
    for (int v = 0; v < nvar; v++)
      for (int i = 0; i < n; i++)
        if (r.coin(p)) s.z[v][i] = UNDEF;
  }
  else if (heteroMode == 2)
  {
    double p = r.uni(0.1, 0.4);
    for (int i = 0; i < n; i++)
      if (r.coin(p))
        for (int v = 0; v < nvar; v++) s.z[v][i] = UNDEF;
  }
  else if (heteroMode == 3 && nvar > 1)
  {
    int v = (int)(r.next() % nvar);
    for (int i = 0; i < n; i++)
      if (r.coin(0.8)) s.z[v][i] = UNDEF;
  }
}
// selMode 0 none, 1 random, 2 nearly empty (1-2 kept), 3 full (all ones), 4 empty (all masked)
inline void genSel(Rng& r, DbSpec& s, int selMode)
{
  int n = s.pts.n;
  s.sel.clear();
  if (selMode == 0) return;
  s.sel.assign(n, 0.0);
  if (selMode == 1)
  {
    double p = r.uni(0.4, 0.9);
    for (auto& v : s.sel) v = r.coin(p) ? 1.0 : 0.0;
  }
  else if (selMode == 2)
  {
    int k = 1 + (int)(r.next() % 2);
    for (int j = 0; j < k; j++) s.sel[r.next() % n] = 1.0;
  }
  else if (selMode == 3)
    for (auto& v : s.sel) v = 1.0;
}

// ---------------------------------------------------------------------------------------------------------------
// models
// ---------------------------------------------------------------------------------------------------------------
struct StructSpec
{
  ECov type = ECov::NUGGET;
  double param = 1.;
  std::vector<double> ranges, angles, sills; // sills: nvar*nvar (symmetric)
};
struct ModelSpec
{
  int ndim = 2, nvar = 1;
  std::vector<StructSpec> st;
  std::vector<double> means; // size nvar (known means; only used when no drift)
  double field = 1.;         // Model::setField (used by the intrinsic structures LINEAR / POWER / ORDERx_GC)
  int driftOrder = -1;       // -1: no drift (simple kriging), 0,1,2: IRF order
  int nfex       = 0;
  std::string sig() const
  {
    std::string s;
    for (auto& t : st) s += std::string(s.empty() ? "" : "+") + std::string(t.type.getKey());
    return s;
  }
  double maxSill() const
  {
    double t = 0;
    for (int v = 0; v < nvar; v++)
    {
      double a = 0;
      for (auto& s : st) a += std::fabs(s.sills[v * nvar + v]);
      t = std::max(t, a);
    }
    return t;
  }
  double minRange() const
  {
    double m = 1e300;
    for (auto& s : st)
      if (s.type != ECov::NUGGET)
        for (double v : s.ranges) m = std::min(m, v);
    return m;
  }
};

// random symmetric positive definite sill matrix (A A^T + delta I), scaled
inline std::vector<double> genSills(Rng& r, int nvar, double scale)
{
  std::vector<double> a(nvar * nvar), s(nvar * nvar, 0.0);
  for (auto& v : a) v = r.uni(-1, 1);
  for (int i = 0; i < nvar; i++)
    for (int j = 0; j < nvar; j++)
    {
      double t = 0;
      for (int k = 0; k < nvar; k++) t += a[i * nvar + k] * a[j * nvar + k];
      s[i * nvar + j] = t;
    }
  for (int i = 0; i < nvar; i++) s[i * nvar + i] += 0.3;
  for (int i = 0; i < nvar; i++)
    for (int j = 0; j < i; j++) s[i * nvar + j] = s[j * nvar + i];
  for (auto& v : s) v *= scale;
  return s;
}

// palette of structure types: 0 = "kriging-safe" (strictly PD, well conditioned at the separations we generate),
// 1 = wide (everything stationary the factory offers in 1..3 D plus a few intrinsic ones; for pure evaluation).
inline std::vector<ECov> palette(int which, int ndim)
{
  (void)ndim;
  // (one Gaussian in eight: without a nugget it yields genuinely ill-conditioned systems, which exercise the kappa
  //  scaling of the tolerances and the "illcond" exclusion)
  if (which == 0)
    return {ECov::EXPONENTIAL, ECov::SPHERICAL, ECov::CUBIC, ECov::MATERN, ECov::EXPONENTIAL, ECov::SPHERICAL, ECov::CUBIC, ECov::GAUSSIAN};
  return {ECov::EXPONENTIAL, ECov::SPHERICAL, ECov::GAUSSIAN, ECov::CUBIC,  ECov::SINCARD, ECov::BESSELJ,
          ECov::MATERN,      ECov::GAMMA,     ECov::CAUCHY,   ECov::STABLE, ECov::LINEAR,  ECov::POWER,
          ECov::ORDER1_GC,   ECov::WENDLAND1, ECov::NUGGET};
}
inline double genParam(Rng& r, const ECov& t)
{
  if (t == ECov::MATERN) return r.uni(0.4, 2.5);
  if (t == ECov::STABLE) return r.uni(0.6, 1.9);
  if (t == ECov::BESSELJ) return r.uni(1.0, 3.0);
  if (t == ECov::GAMMA) return r.uni(0.5, 3.0);
  if (t == ECov::CAUCHY) return r.uni(0.5, 3.0);
  if (t == ECov::POWER) return r.uni(0.5, 1.8);
  return 1.0;
}
inline ModelSpec genModel(Rng& r, int ndim, int nvar, int ncov, double L, int pal, bool allowNugget)
{
  ModelSpec m;
  m.ndim = ndim;
  m.nvar = nvar;
  auto P = palette(pal, ndim);
  for (int k = 0; k < ncov; k++)
  {
    StructSpec s;
    s.type = r.pick(P);
    if (s.type == ECov::NUGGET && !allowNugget) s.type = ECov::EXPONENTIAL;
    s.param   = genParam(r, s.type);
    double r0 = L * r.loguni(0.15, 1.5);
    s.ranges.resize(ndim);
    s.angles.assign(ndim, 0.0);
    int anis = (int)(r.next() % 3); // 0 isotropic, 1 anisotropic, 2 anisotropic + rotation far from 0
    for (int d = 0; d < ndim; d++) s.ranges[d] = anis == 0 ? r0 : r0 * r.loguni(0.2, 5.0);
    // K-Bessel: std::cyl_bessel_k throws "Argument x too large" for h/scale beyond ~1e3 (an exception escaping
    // CovMatern::_evaluateCov: reported, C03's business); keep h/scale moderate so that C04 is not blinded by it
    if (s.type == ECov::MATERN)
      for (int d = 0; d < ndim; d++) s.ranges[d] = std::max(s.ranges[d], 0.25 * L);
    if (anis == 2 && ndim >= 2)
    {
      s.angles[0] = r.uni(15, 165);
      if (ndim == 3)
      {
        s.angles[1] = r.uni(-70, 70);
        s.angles[2] = r.uni(-70, 70);
      }
    }
    s.sills = genSills(r, nvar, r.loguni(0.3, 3.0));
    m.st.push_back(s);
  }
  if (allowNugget && r.coin(0.4))
  {
    StructSpec s;
    s.type = ECov::NUGGET;
    s.ranges.assign(ndim, 1.0);
    s.angles.assign(ndim, 0.0);
    s.sills = genSills(r, nvar, r.loguni(0.05, 0.5));
    m.st.push_back(s);
  }
  m.means.assign(nvar, 0.0);
  m.field = 2.0 * L * std::sqrt((double)ndim);
  return m;
}

inline std::unique_ptr<Model> buildModel(const ModelSpec& m)
{
  std::unique_ptr<Model> model;
  for (size_t k = 0; k < m.st.size(); k++)
  {
    const auto& s = m.st[k];
    VectorDouble ranges(s.ranges), sills(s.sills), angles(s.angles);
    if (k == 0)
    {
      model.reset(Model::createFromParam(s.type, 1., 1., s.param, ranges, sills, angles, nullptr, true));
      if (!model) throw std::runtime_error("Model::createFromParam returned null");
    }
    else
      model->addCovFromParam(s.type, 1., 1., s.param, ranges, sills, angles, true);
  }
  if ((int)model->getCovaNumber() != (int)m.st.size()) throw std::runtime_error("model lost a structure");
  model->setField(m.field);
  if (m.driftOrder >= 0 || m.nfex > 0)
    model->setDriftIRF(std::max(0, m.driftOrder), m.nfex);
  else
    model->setMeans(VectorDouble(m.means));
  return model;
}

// names of the columns added to a Db between two snapshots of getAllNames()
inline VectorString newNames(const VectorString& before, const Db* db)
{
  VectorString after = db->getAllNames();
  VectorString out;
  for (auto& a : after)
  {
    bool found = false;
    for (auto& b : before)
      if (a == b) found = true;
    if (!found) out.push_back(a);
  }
  return out;
}
inline bool endsWith(const std::string& s, const std::string& suf)
{
  return s.size() >= suf.size() && s.compare(s.size() - suf.size(), suf.size(), suf) == 0;
}
inline std::vector<double> col(const Db* db, const std::string& name)
{
  return db->getColumn(name, false, false).getVector();
}
inline bool undef(double v) { return !(std::fabs(v) < 1e29); }

// |a-b| <= tol * (1 + max(|a|,|b|)/scale): 'tol' is the absolute tolerance c*eps*kappa*scale for quantities of the
// natural magnitude 'scale'; results far above that magnitude (estimates / variances extrapolated by a drift) carry
// the same RELATIVE round-off, hence the second term.
inline bool closeRel(vh::Ctx& c, const std::string& oracle, const std::string& key, double a, double b, double tol, double scale,
                     const std::string& detail = "")
{
  double m = std::max(std::fabs(a), std::fabs(b));
  if (std::isfinite(m) && m < 1e29 && scale > 0) tol *= (1.0 + m / scale);
  return c.close(oracle, key, a, b, tol, detail);
}
} // namespace c04
