// C15 helpers (owned by the C15 author): sparse triplet mirror of a library matrix, own products in long
// double, mesh mirrors read through the public AMesh getters, mesh generators (jittered simplicial lattices).
// No gstlearn numerical kernel is used for the reference computations in this file.
#pragma once
#include "vh.hpp"
#include "ref_linalg.hpp"

#include "Matrix/MatrixSparse.hpp"
#include "Matrix/MatrixRectangular.hpp"
#include "Matrix/MatrixInt.hpp"
#include "Matrix/NF_Triplet.hpp"
#include "Mesh/AMesh.hpp"

#include <vector>
#include <cmath>
#include <array>

namespace c15
{
using ref::LD;
static const double EPS = 2.220446049250313e-16;

// ---------------------------------------------------------------------------------------------
// Sparse matrix mirrored as triplets (entries read once through MatrixSparse::getMatrixToTriplet)
// ---------------------------------------------------------------------------------------------
struct Sp
{
  int nr = 0, nc = 0;
  std::vector<int> r, c;
  std::vector<double> v;
  size_t nnz() const { return v.size(); }
};
inline Sp mirror(const MatrixSparse* m)
{
  Sp s;
  s.nr         = m->getNRows();
  s.nc         = m->getNCols();
  NF_Triplet t = m->getMatrixToTriplet();
  int n        = t.getNumber();
  s.r.reserve(n); s.c.reserve(n); s.v.reserve(n);
  for (int k = 0; k < n; k++)
  {
    double val = t.getValue(k);
    if (val == 0.) continue; // explicit zeros (forced dimension entries) carry no information
    s.r.push_back(t.getRow(k));
    s.c.push_back(t.getCol(k));
    s.v.push_back(val);
  }
  return s;
}
// y = A x  (or A^T x), optional absolute values (for round-off bounds)
inline std::vector<LD> mulv(const Sp& a, const std::vector<LD>& x, bool transpose = false, bool absval = false)
{
  std::vector<LD> y(transpose ? a.nc : a.nr, 0);
  for (size_t k = 0; k < a.v.size(); k++)
  {
    LD v = absval ? std::fabs((LD)a.v[k]) : (LD)a.v[k];
    if (transpose) y[a.c[k]] += v * x[a.r[k]];
    else y[a.r[k]] += v * x[a.c[k]];
  }
  return y;
}
inline ref::Mat dense(const Sp& a)
{
  ref::Mat m(a.nr, a.nc);
  for (size_t k = 0; k < a.v.size(); k++) m(a.r[k], a.c[k]) += a.v[k];
  return m;
}
inline int maxRowCount(const Sp& a)
{
  std::vector<int> cnt(a.nr, 0);
  int m = 0;
  for (size_t k = 0; k < a.v.size(); k++) m = std::max(m, ++cnt[a.r[k]]);
  return m;
}
inline std::vector<LD> toLD(const std::vector<double>& x) { return std::vector<LD>(x.begin(), x.end()); }
inline LD norm2(const std::vector<LD>& x)
{
  LD s = 0;
  for (LD v : x) s += v * v;
  return std::sqrt(s);
}
inline LD normInf(const std::vector<LD>& x)
{
  LD s = 0;
  for (LD v : x) s = std::max(s, std::fabs(v));
  return s;
}

// Lambda P(S) Lambda x evaluated term by term (power basis), either with the signed entries or with absolute
// values everywhere (the latter is the round-off magnitude bound used for tolerances).
inline std::vector<LD> applyLPL(const Sp& S, const std::vector<double>& lambda, const std::vector<double>& coef,
                                const std::vector<LD>& x, bool absval)
{
  int n = (int)x.size();
  std::vector<LD> w(n), acc(n, 0);
  for (int i = 0; i < n; i++) w[i] = (absval ? std::fabs(x[i]) : x[i]) * (LD)lambda[i];
  for (size_t k = 0; k < coef.size(); k++)
  {
    LD ck = absval ? std::fabs((LD)coef[k]) : (LD)coef[k];
    for (int i = 0; i < n; i++) acc[i] += ck * w[i];
    if (k + 1 < coef.size()) w = mulv(S, w, false, absval);
  }
  for (int i = 0; i < n; i++) acc[i] *= (LD)lambda[i];
  return acc;
}

// ---------------------------------------------------------------------------------------------
// Mesh mirror read through the public getters of AMesh
// ---------------------------------------------------------------------------------------------
struct MeshMirror
{
  int ndim = 0, nv = 0, ne = 0, nc = 0;
  std::vector<double> xy;  // nv * ndim
  std::vector<int> el;     // ne * nc
  double coordMag = 0;     // max |coordinate|
  double hmin = 0, hmax = 0; // min / max edge length over elements
  double x(int i, int d) const { return xy[(size_t)i * ndim + d]; }
  int apex(int e, int k) const { return el[(size_t)e * nc + k]; }
};
inline MeshMirror mirrorMesh(const AMesh* m)
{
  MeshMirror mm;
  mm.ndim = m->getNDim();
  mm.nv   = m->getNApices();
  mm.ne   = m->getNMeshes();
  mm.nc   = m->getNApexPerMesh();
  mm.xy.resize((size_t)mm.nv * mm.ndim);
  for (int i = 0; i < mm.nv; i++)
    for (int d = 0; d < mm.ndim; d++)
    {
      double v                      = m->getApexCoor(i, d);
      mm.xy[(size_t)i * mm.ndim + d] = v;
      mm.coordMag                    = std::max(mm.coordMag, std::fabs(v));
    }
  mm.el.resize((size_t)mm.ne * mm.nc);
  mm.hmin = INFINITY;
  mm.hmax = 0;
  for (int e = 0; e < mm.ne; e++)
  {
    for (int k = 0; k < mm.nc; k++) mm.el[(size_t)e * mm.nc + k] = m->getApex(e, k);
    for (int k = 0; k < mm.nc; k++)
      for (int l = k + 1; l < mm.nc; l++)
      {
        double s = 0;
        int a = mm.apex(e, k), b = mm.apex(e, l);
        if (a < 0 || b < 0 || a >= mm.nv || b >= mm.nv) continue;
        for (int d = 0; d < mm.ndim; d++) s += (mm.x(a, d) - mm.x(b, d)) * (mm.x(a, d) - mm.x(b, d));
        s       = std::sqrt(s);
        mm.hmin = std::min(mm.hmin, s);
        mm.hmax = std::max(mm.hmax, s);
      }
  }
  return mm;
}
// signed volume * ndim! of element e (determinant of edge vectors)
inline LD elemDet(const MeshMirror& mm, int e)
{
  int d = mm.ndim;
  ref::Mat a(d, d);
  for (int k = 0; k < d; k++)
    for (int j = 0; j < d; j++) a(j, k) = (LD)mm.x(mm.apex(e, k + 1), j) - (LD)mm.x(mm.apex(e, 0), j);
  if (d == 1) return a(0, 0);
  if (d == 2) return a(0, 0) * a(1, 1) - a(0, 1) * a(1, 0);
  return a(0, 0) * (a(1, 1) * a(2, 2) - a(1, 2) * a(2, 1)) - a(0, 1) * (a(1, 0) * a(2, 2) - a(1, 2) * a(2, 0)) +
         a(0, 2) * (a(1, 0) * a(2, 1) - a(1, 1) * a(2, 0));
}
// barycentric coordinates of p in element e (long double, Cramer through LU)
inline std::vector<LD> barycentric(const MeshMirror& mm, int e, const std::vector<double>& p)
{
  int d = mm.ndim;
  ref::Mat a(d + 1, d + 1);
  std::vector<LD> b(d + 1);
  for (int k = 0; k <= d; k++)
  {
    for (int j = 0; j < d; j++) a(j, k) = (LD)mm.x(mm.apex(e, k), j) - (LD)p[j]; // shift by p: better conditioned
    a(d, k) = 1;
  }
  for (int j = 0; j < d; j++) b[j] = 0;
  b[d] = 1;
  ref::LU lu(a);
  if (!lu.ok) return std::vector<LD>(d + 1, NAN);
  return lu.solve(b);
}

// ---------------------------------------------------------------------------------------------
// Jittered simplicial lattice in the unit-spacing frame, then an affine map (rotation, stretch, offset).
// Returns vertices (nv x ndim) and elements (ne x (ndim+1)); every element has |det| >= qmin (in lattice units)
// ---------------------------------------------------------------------------------------------
struct RawMesh
{
  int ndim = 0;
  std::vector<std::array<double, 3>> v;
  std::vector<std::array<int, 4>> e;
};
static const int KUHN[6][3] = {{0, 1, 2}, {0, 2, 1}, {1, 0, 2}, {1, 2, 0}, {2, 0, 1}, {2, 1, 0}};

inline RawMesh latticeMesh(vh::Rng& r, int ndim, const int nx[3], double jitter, bool randomDiag)
{
  RawMesh m;
  m.ndim    = ndim;
  int n[3]  = {nx[0], ndim > 1 ? nx[1] : 1, ndim > 2 ? nx[2] : 1};
  auto id   = [&](int i, int j, int k) { return (k * n[1] + j) * n[0] + i; };
  m.v.resize((size_t)n[0] * n[1] * n[2]);
  for (int k = 0; k < n[2]; k++)
    for (int j = 0; j < n[1]; j++)
      for (int i = 0; i < n[0]; i++)
      {
        std::array<double, 3> p = {(double)i, (double)j, (double)k};
        for (int d = 0; d < ndim; d++) p[d] += jitter * r.uni(-1, 1);
        m.v[id(i, j, k)] = p;
      }
  if (ndim == 1)
  {
    for (int i = 0; i + 1 < n[0]; i++) m.e.push_back({id(i, 0, 0), id(i + 1, 0, 0), -1, -1});
  }
  else if (ndim == 2)
  {
    for (int j = 0; j + 1 < n[1]; j++)
      for (int i = 0; i + 1 < n[0]; i++)
      {
        int a = id(i, j, 0), b = id(i + 1, j, 0), c = id(i + 1, j + 1, 0), d = id(i, j + 1, 0);
        if (randomDiag && r.coin())
        {
          m.e.push_back({a, b, d, -1});
          m.e.push_back({b, c, d, -1});
        }
        else
        {
          m.e.push_back({a, b, c, -1});
          m.e.push_back({a, c, d, -1});
        }
      }
  }
  else
  {
    // Kuhn subdivision: 6 tetrahedra per cube sharing the main diagonal (conforming across cubes)
    for (int k = 0; k + 1 < n[2]; k++)
      for (int j = 0; j + 1 < n[1]; j++)
        for (int i = 0; i + 1 < n[0]; i++)
          for (int t = 0; t < 6; t++)
          {
            int c[3] = {i, j, k};
            std::array<int, 4> el;
            el[0] = id(c[0], c[1], c[2]);
            for (int s = 0; s < 3; s++)
            {
              c[KUHN[t][s]] += 1;
              el[s + 1] = id(c[0], c[1], c[2]);
            }
            m.e.push_back(el);
          }
  }
  return m;
}
} // namespace c15
