// C08/C09 — generators, comparators and post-load exercisers of each serialisable class (included by c08_registry.hpp)
#pragma once

#include "Db/DbLine.hpp"
#include "Db/DbGraphO.hpp"

namespace c08
{
// ============================================================================================================
// Db family
// ============================================================================================================
struct LocPlan
{
  ELoc type;
  bool unique; // PtrGeos.cpp DEF_LOCATOR IREF == 1: at most one column
};
inline const std::vector<LocPlan>& allLocators()
{
  // every ELoc but UNKNOWN and X (coordinates are laid out explicitly); 'unique' copied from DEF_LOCATOR[].IREF
  static const std::vector<LocPlan> L = {
    {ELoc::Z, false},      {ELoc::V, false},      {ELoc::F, false},     {ELoc::G, false},     {ELoc::L, false},
    {ELoc::U, false},      {ELoc::P, false},      {ELoc::W, true},      {ELoc::C, true},      {ELoc::SEL, true},
    {ELoc::DOM, true},     {ELoc::BLEX, false},   {ELoc::ADIR, true},   {ELoc::ADIP, true},   {ELoc::SIZE, true},
    {ELoc::BU, true},      {ELoc::BD, true},      {ELoc::TIME, false},  {ELoc::LAYER, true},  {ELoc::NOSTAT, false},
    {ELoc::TGTE, false},   {ELoc::SIMU, false},   {ELoc::FACIES, false},{ELoc::GAUSFAC, false},{ELoc::DATE, true},
    {ELoc::RKLOW, false},  {ELoc::RKUP, false},   {ELoc::SUM, false}};
  return L;
}

// Adds 'nextra' attribute columns to a Db that already has its coordinates; returns a signature fragment
inline std::string addDbColumns(Db* db, Rng& r, bool thorough, int firstNameIdx = 0)
{
  int nech = db->getSampleNumber();
  int nz   = r.irange(0, 3);
  int nx   = r.irange(0, thorough ? 8 : 5);
  double pHard = r.coin(0.5) ? 0.0 : r.pick(std::vector<double>{0.05, 0.3, 1.0});
  std::map<int, int> used; // locator value -> count
  std::string locs;
  int inam = firstNameIdx;
  auto values = [&](bool binary) {
    VectorDouble t(nech);
    for (int i = 0; i < nech; i++) t[i] = binary ? (r.coin(0.7) ? 1. : 0.) : anyValue(r, pHard);
    return t;
  };
  for (int i = 0; i < nz; i++)
  {
    db->addColumns(values(false), pickName(r, inam++), ELoc::Z, used[ELoc::Z.getValue()]++);
  }
  for (int i = 0; i < nx; i++)
  {
    if (r.coin(0.3))
    {
      db->addColumns(values(false), pickName(r, inam++), ELoc::UNKNOWN, 0);
      continue;
    }
    const LocPlan& lp = r.pick(allLocators());
    int& cnt          = used[lp.type.getValue()];
    if (lp.unique && cnt > 0) continue;
    bool binary = (lp.type == ELoc::SEL || lp.type == ELoc::DOM);
    db->addColumns(values(binary), pickName(r, inam++), lp.type, cnt++);
    locs += std::string(lp.type.getKey()) + ",";
  }
  // a deleted column leaves a hole in the UID table (the file stores columns, not UIDs)
  bool hole = false;
  if (db->getColumnNumber() > 2 && r.coin(0.2))
  {
    int icol = r.irange(0, db->getColumnNumber() - 1);
    ELoc t; int k;
    db->getLocatorByColIdx(icol, &t, &k);
    if (t != ELoc::X) // keep coordinates
    {
      db->deleteColumnByColIdx(icol);
      hole = true;
    }
  }
  return fmt("nz=%d:hard=%g:hole=%d", nz, pHard, (int)hole);
}

inline void cmpDbTable(const Db& a, const Db& b, Cmp& c, double coordScale = 0.)
{
  Cmp::Owner own(c, "Db"); // table part: Db::_serialize / Db::_deserialize whatever the derived class
  bool locDiff = false;
  std::vector<std::pair<std::string, std::string>> locDiffs;
  c.setSection("getters");
  c.integer("ncol", a.getColumnNumber(), b.getColumnNumber());
  c.integer("nech", a.getSampleNumber(), b.getSampleNumber());
  int ncol = std::min(a.getColumnNumber(), b.getColumnNumber());
  int nech = std::min(a.getSampleNumber(), b.getSampleNumber());
  for (int icol = 0; icol < ncol; icol++)
  {
    c.str("name", a.getNameByColIdx(icol), b.getNameByColIdx(icol), fmt("col %d", icol));
    ELoc ta, tb;
    int ka = -1, kb = -1;
    bool ha = a.getLocatorByColIdx(icol, &ta, &ka);
    bool hb = b.getLocatorByColIdx(icol, &tb, &kb);
    std::string la = ha ? std::string(ta.getKey()) : "none", lb = hb ? std::string(tb.getKey()) : "none";
    // the field id carries the locator type of the ORIGINAL so that one lost locator kind = one key
    if (la != lb) locDiff = true;
    if (la != lb) locDiffs.push_back({la, fmt("col %d '%s': %s vs %s", icol, a.getNameByColIdx(icol).c_str(), la.c_str(), lb.c_str())});
    if (false) c.fail("locator-type:" + la, fmt("col %d '%s': %s vs %s", icol, a.getNameByColIdx(icol).c_str(), la.c_str(), lb.c_str()));
    else c.st("locator-type").n++;
    if (la == lb && ha) c.integer("locator-rank", ka, kb, fmt("col %d (%s)", icol, la.c_str()));
    for (int iech = 0; iech < nech; iech++)
      c.num("values", a.getValueByColIdx(iech, icol), b.getValueByColIdx(iech, icol), fmt("[%d,%d]", iech, icol));
  }
  {
    // FACIES / GAUSFAC names collide with the shorter locator names "f" / "g" in locatorIdentify (prefix match): the
    // column re-labelled F/G then evicts the genuine f1/g1 column. Those evictions are consequences: when a
    // FACIES/GAUSFAC difference is present only it is reported.
    bool collision = false;
    for (auto& d : locDiffs) collision = collision || d.first == "FACIES" || d.first == "GAUSFAC";
    for (auto& d : locDiffs)
      if (!collision) c.fail("locator-type:" + d.first, d.second);
      else if (d.first == "FACIES" || d.first == "GAUSFAC") c.fail("locator-type:FACIES-GAUSFAC-read-as-F-G", d.second);
  }
  if (!c.setSection("behaviour")) return;
  c.integer("getNDim", a.getNDim(), b.getNDim());
  c.integer("nactive", a.getSampleNumber(true), b.getSampleNumber(true));
  c.boolean("isGrid", a.isGrid(), b.isGrid());
  c.boolean("isLine", a.isLine(), b.isLine());
  auto it = ELoc::getIterator();
  while (it.hasNext())
  {
    if (*it != ELoc::UNKNOWN && !locDiff) c.integer("getLocNumber", a.getLocNumber(*it), b.getLocNumber(*it), std::string((*it).getKey()));
    it.toNext();
  }
  int ndim = std::min(a.getNDim(), b.getNDim());
  for (int iech = 0; iech < nech; iech += std::max(1, nech / 7))
  {
    for (int idim = 0; idim < ndim; idim++)
    {
      if (locDiff) break;
      if (coordScale > 0) // grid: x0 + i*dx through the rotation matrix, a few operations on terms of size coordScale
        c.numScaled("getCoordinate", a.getCoordinate(iech, idim), b.getCoordinate(iech, idim), coordScale, 8., fmt("[%d,%d]", iech, idim));
      else
        c.num("getCoordinate", a.getCoordinate(iech, idim), b.getCoordinate(iech, idim), fmt("[%d,%d]", iech, idim));
    }
    c.boolean("isActive", a.isActive(iech), b.isActive(iech), fmt("[%d]", iech));
  }
}

// basic queries + consistency of a Db returned by a loader (C09); the C07 rules are applied by the C09 harness itself
inline void exerciseDb(const Db& d, Cmp& c)
{
  c.setSection("invariant");
  int ncol = d.getColumnNumber(), nech = d.getSampleNumber();
  c.truth("dims-nonneg", ncol >= 0 && nech >= 0, fmt("ncol=%d nech=%d", ncol, nech));
  if (ncol < 0 || nech < 0) return;
  VectorString names = d.getAllNames();
  c.truth("names-count", (int)names.size() == ncol, fmt("getAllNames %zu vs ncol %d", names.size(), ncol));
  long cells = 0;
  for (int icol = 0; icol < ncol && icol < 64; icol++)
  {
    VectorDouble col = d.getColumnByColIdx(icol, false);
    c.truth("column-size", (int)col.size() == nech, fmt("column %d has %zu values, nech=%d", icol, col.size(), nech));
    cells += (long)col.size();
  }
  (void)d.getSampleNumber(true);
  (void)d.getNDim();
  (void)d.getLocators(true);
  if (nech > 0 && d.getNDim() > 0) (void)d.getSampleCoordinates(0);
  (void)d.toString();
}

inline Db* makeDb(Rng& r, bool thorough, std::string& sig)
{
  int ndim = r.irange(1, 3);
  setSpace(ndim);
  int nech = r.coin(0.1) ? r.irange(1, 2) : r.irange(3, thorough ? 120 : 30);
  Db* db   = Db::create();
  bool empty = r.coin(0.03);
  if (empty)
  {
    sig += ":empty";
    return db;
  }
  bool rank = r.coin(0.3);
  if (rank)
  {
    VectorDouble t(nech);
    for (int i = 0; i < nech; i++) t[i] = i + 1;
    db->addColumns(t, "rank");
  }
  bool hardCoord = r.coin(0.15);
  for (int idim = 0; idim < ndim; idim++)
  {
    VectorDouble t(nech);
    for (int i = 0; i < nech; i++) t[i] = hardCoord ? anyValue(r, 0.3, true) : r.uni(-100, 100);
    db->addColumns(t, fmt("x%d", idim + 1), ELoc::X, idim);
  }
  std::string s = addDbColumns(db, r, thorough);
  sig += fmt(":ndim=%d:rank=%d:hc=%d:", ndim, (int)rank, (int)hardCoord) + s;
  return db;
}

inline double gridScale(const DbGrid& a)
{
  double scale = 0;
  for (int i = 0; i < a.getGrid().getNDim(); i++) scale = std::max(scale, std::fabs(a.getX0(i)) + std::fabs(a.getDX(i)) * a.getNX(i));
  return scale;
}
inline void cmpGridGeom(const DbGrid& a, const DbGrid& b, Cmp& c)
{
  Cmp::Owner own(c, "DbGrid");
  c.setSection("getters");
  c.integer("grid.ndim", a.getGrid().getNDim(), b.getGrid().getNDim());
  int ndim = std::min(a.getGrid().getNDim(), b.getGrid().getNDim());
  for (int i = 0; i < ndim; i++)
  {
    c.integer("grid.nx", a.getNX(i), b.getNX(i), fmt("[%d]", i));
    c.num("grid.x0", a.getX0(i), b.getX0(i), fmt("[%d]", i));
    c.num("grid.dx", a.getDX(i), b.getDX(i), fmt("[%d]", i));
    c.num("grid.angle", a.getAngle(i), b.getAngle(i), fmt("[%d]", i));
  }
  if (!c.setSection("behaviour")) return;
  c.boolean("grid.isRotated", a.getGrid().isRotated(), b.getGrid().isRotated());
  // cell centres computed from the grid definition (rotation included). Error amplification: x0 + i*dx rotated:
  // each term carries 1e-14 relative, the scale is the largest |x0| + extent.
  double scale = gridScale(a);
  int ntot = std::min(a.getNTotal(), b.getNTotal());
  for (int k = 0; k < 6 && ntot > 0; k++)
  {
    int rank          = (int)(((long)k * 7919 + 13) % ntot);
    if (k == 5) rank  = ntot - 1;
    VectorDouble ca = a.getGrid().getCoordinatesByRank(rank, true), cb = b.getGrid().getCoordinatesByRank(rank, true);
    for (int i = 0; i < ndim && i < (int)ca.size() && i < (int)cb.size(); i++)
      c.numScaled("grid.cellcentre", ca[i], cb[i], scale, 8., fmt("rank %d dim %d", rank, i));
  }
}

inline DbGrid* makeDbGrid(Rng& r, bool thorough, std::string& sig)
{
  int ndim = r.irange(1, 3);
  setSpace(ndim);
  int maxn = thorough ? 200 : 36;
  VectorInt nx(ndim);
  VectorDouble dx(ndim), x0(ndim), angles;
  int ntot = 1;
  for (int i = 0; i < ndim; i++)
  {
    int cap = std::max(1, (int)std::floor(std::pow((double)maxn, 1. / ndim) + 1));
    nx[i]   = r.irange(1, cap + 1);
    if (ntot * nx[i] > maxn) nx[i] = std::max(1, maxn / ntot);
    ntot *= nx[i];
    dx[i] = r.coin(0.2) ? r.loguni(1e-6, 1e6) : r.uni(0.1, 10);
    x0[i] = r.coin(0.2) ? r.uni(-1, 1) * std::pow(10., r.irange(-3, 7)) : r.uni(-100, 100);
  }
  int rot = (ndim == 1) ? 0 : r.irange(0, 2); // 0 none, 1 first angle only, 2 all angles
  if (rot > 0)
  {
    angles.resize(ndim, 0.);
    angles[0] = r.uni(-180, 180);
    if (rot == 2 && ndim == 3)
    {
      angles[1] = r.uni(-90, 90);
      angles[2] = r.uni(-180, 180);
    }
  }
  bool addRank = r.coin(0.4), addCoor = r.coin(0.5);
  DbGrid* g = DbGrid::create(nx, dx, x0, angles, ELoadBy::SAMPLE, VectorDouble(), VectorString(), VectorString(), addRank, addCoor);
  if (g == nullptr) return nullptr;
  std::string s = addDbColumns(g, r, thorough);
  sig += fmt(":ndim=%d:rot=%d:rank=%d:coor=%d:", ndim, rot, (int)addRank, (int)addCoor) + s;
  return g;
}

inline void registerDbFamily(std::vector<Entry>& reg)
{
  reg.push_back(mkEntry<Db>(
    "Db", "Db", makeDb, [](const Db& a, const Db& b, Cmp& c) { cmpDbTable(a, b, c); },
    [](const Db& a, Cmp& c) { exerciseDb(a, c); }, [](const Db& a) { return a.getNDim(); }));
  reg.push_back(mkEntry<DbGrid>(
    "DbGrid", "DbGrid", makeDbGrid,
    [](const DbGrid& a, const DbGrid& b, Cmp& c) {
      cmpGridGeom(a, b, c);
      cmpDbTable(a, b, c, gridScale(a));
    },
    [](const DbGrid& a, Cmp& c) {
      exerciseDb(a, c);
      c.truth("grid-consistent", a.isConsistent(), fmt("grid has %d nodes, table has %d samples", a.getNTotal(), a.getSampleNumber()));
    },
    [](const DbGrid& a) { return a.getNDim(); }));
}


// ============================================================================================================
// probe data shared by the behavioural comparisons (deterministic, independent of the case PRNG)
// ============================================================================================================
inline Db* probeDb(int ndim, int nech = 40, uint64_t seed = 77)
{
  Rng r(seed + (uint64_t)ndim * 1000 + (uint64_t)nech);
  Db* db = Db::create();
  for (int idim = 0; idim < ndim; idim++)
  {
    VectorDouble t(nech);
    for (int i = 0; i < nech; i++) t[i] = r.uni(-10, 10);
    db->addColumns(t, fmt("x%d", idim + 1), ELoc::X, idim);
  }
  VectorDouble z(nech);
  for (int i = 0; i < nech; i++) z[i] = r.normal();
  db->addColumns(z, "z", ELoc::Z, 0);
  for (int k = 0; k < 3; k++)
  {
    VectorDouble f(nech);
    for (int i = 0; i < nech; i++) f[i] = r.uni(0, 5);
    db->addColumns(f, fmt("f%d", k + 1), ELoc::F, k);
  }
  return db;
}
inline DbGrid* probeGrid(int ndim, int n = 5)
{
  VectorInt nx(ndim, n);
  VectorDouble dx(ndim, 20. / n), x0(ndim, -10. + 10. / n);
  DbGrid* g = DbGrid::create(nx, dx, x0);
  Rng r(4242 + ndim);
  VectorDouble z(g->getSampleNumber());
  for (auto& v : z) v = r.normal();
  g->addColumns(z, "z", ELoc::Z, 0);
  return g;
}

// ============================================================================================================
// Model
// ============================================================================================================
} // namespace c08
#include "Model/Model.hpp"
#include "Covariances/CovAniso.hpp"
#include "Covariances/CovContext.hpp"
#include "Covariances/CovFactory.hpp"
#include "Drifts/ADrift.hpp"
#include "Neigh/NeighUnique.hpp"
#include "Neigh/NeighMoving.hpp"
#include "Neigh/NeighBench.hpp"
#include "Neigh/NeighCell.hpp"
#include "Neigh/NeighImage.hpp"
#include "Geometry/BiTargetCheckDistance.hpp"
namespace c08
{
inline Model* makeModel(Rng& r, bool thorough, std::string& sig)
{
  int ndim = r.irange(1, 3), nvar = r.irange(1, 3);
  setSpace(ndim);
  CovContext ctxt(nvar, ndim);
  Model* m = Model::create(ctxt);
  // every structure the library itself offers for this context (CovFactory::getCovList)
  VectorString names = CovFactory::getCovList(ctxt);
  std::vector<ECov> types;
  for (auto& n : names)
  {
    ECov t = CovFactory::identifyCovariance(n, ctxt);
    if (t == ECov::UNKNOWN || t == ECov::FUNCTION) continue;
    if (t == ECov::MARKOV) continue; // defined by Markov coefficients, which the neutral file has no field for
    types.push_back(t);
  }
  int ncov = r.coin(0.05) ? 0 : r.irange(1, thorough ? 4 : 3);
  std::string covs;
  for (int ic = 0; ic < ncov && !types.empty(); ic++)
  {
    ECov t = r.pick(types);
    CovAniso probe(t, ctxt);
    double param = 1.;
    if (probe.hasParam())
    {
      double pmax = probe.getParMax();
      if (!(pmax > 0) || pmax > 3.) pmax = 3.;
      param = r.uni(0.15, 1.) * pmax;
    }
    int aniso = (ndim == 1) ? 0 : r.irange(0, 2); // 0 isotropic, 1 anisotropic, 2 anisotropic + rotation
    double range = r.loguni(0.05, 500.);
    VectorDouble ranges, angles, sills(nvar * nvar);
    if (aniso > 0)
    {
      ranges.resize(ndim);
      for (int i = 0; i < ndim; i++) ranges[i] = range * r.uni(0.2, 5.);
      if (aniso == 2)
      {
        angles.resize(ndim, 0.);
        angles[0] = r.uni(-180, 180);
        if (ndim == 3 && r.coin(0.7))
        {
          angles[1] = r.uni(-90, 90);
          angles[2] = r.uni(-180, 180);
        }
      }
    }
    // sills = A A^T (full rank or rank deficient), magnitude 10^[-3,3]
    std::vector<double> A(nvar * nvar);
    bool deficient = nvar > 1 && r.coin(0.2);
    for (int i = 0; i < nvar; i++)
      for (int j = 0; j < nvar; j++) A[i * nvar + j] = (deficient && j > 0) ? 0. : r.uni(-1, 1);
    double mag = std::pow(10., r.irange(-3, 3));
    for (int i = 0; i < nvar; i++)
      for (int j = 0; j < nvar; j++)
      {
        double v = 0;
        for (int k = 0; k < nvar; k++) v += A[i * nvar + k] * A[j * nvar + k];
        sills[i * nvar + j] = v * mag;
      }
    m->addCovFromParam(t, range, sills[0], param, ranges, sills, angles, true);
    covs += std::string(t.getKey()) + fmt("/%d,", aniso);
  }
  int order = r.irange(-1, 2), nfex = r.coin(0.25) ? r.irange(1, 2) : 0;
  if (order >= 0) m->setDriftIRF(order, nfex);
  if (m->getDriftNumber() == 0)
  {
    // the file stores the means only when there is no drift function (Model::_serialize)
    VectorDouble means(nvar);
    for (auto& v : means) v = r.coin(0.3) ? 0. : anyValue(r, 0.3, false);
    m->setMeans(means);
  }
  if (r.coin(0.4)) m->setField(r.loguni(1e-3, 1e6));
  if (r.coin(0.3))
  {
    VectorDouble c0(nvar * nvar);
    for (int i = 0; i < nvar; i++)
      for (int j = 0; j <= i; j++) c0[i * nvar + j] = c0[j * nvar + i] = r.uni(-5, 5);
    m->setCovar0s(c0);
  }
  sig += fmt(":ndim=%d:nvar=%d:order=%d:nfex=%d:covs=", ndim, nvar, order, nfex) + covs;
  return m;
}

inline void cmpModel(const Model& a, const Model& b, Cmp& c)
{
  c.setSection("getters");
  c.integer("ndim", a.getDimensionNumber(), b.getDimensionNumber());
  c.integer("nvar", a.getVariableNumber(), b.getVariableNumber());
  c.integer("ncov", a.getCovaNumber(), b.getCovaNumber());
  c.integer("ndrift", a.getDriftNumber(), b.getDriftNumber());
  c.num("field", a.getField(), b.getField());
  int ndim = std::min(a.getDimensionNumber(), b.getDimensionNumber());
  int nvar = std::min(a.getVariableNumber(), b.getVariableNumber());
  int ncov = std::min(a.getCovaNumber(), b.getCovaNumber());
  for (int i = 0; i < std::min(a.getDriftNumber(), b.getDriftNumber()); i++)
    c.str("drift-name", a.getDrift(i)->getDriftName(), b.getDrift(i)->getDriftName(), fmt("[%d]", i));
  if (a.getDriftNumber() == 0)
    for (int i = 0; i < nvar; i++) c.num("mean", a.getMean(i), b.getMean(i), fmt("[%d]", i));
  for (int i = 0; i < nvar; i++)
    for (int j = 0; j < nvar; j++) c.num("covar0", a.getCovar0(i, j), b.getCovar0(i, j), fmt("[%d,%d]", i, j));
  double totalSill = 0;
  for (int ic = 0; ic < ncov; ic++)
  {
    const CovAniso* ca = a.getCova(ic);
    const CovAniso* cb = b.getCova(ic);
    std::string w      = fmt("cov %d (%s)", ic, ca->getType().getKey().data());
    c.integer("cov.type", ca->getType().getValue(), cb->getType().getValue(), w);
    if (ca->getType() != cb->getType()) continue;
    c.num("cov.param", ca->getParam(), cb->getParam(), w);
    c.boolean("cov.flagAniso", ca->getFlagAniso(), cb->getFlagAniso(), w);
    c.boolean("cov.flagRotation", ca->getFlagRotation(), cb->getFlagRotation(), w);
    // stored fields: isotropic range (= largest range) and the anisotropy coefficients
    if (ca->hasRange() > 0)
    {
      c.num("cov.range", ca->getRange(), cb->getRange(), w);
      VectorDouble ka = ca->getAnisoCoeffs(), kb = cb->getAnisoCoeffs();
      for (int i = 0; i < ndim && i < (int)ka.size() && i < (int)kb.size(); i++)
        c.numScaled("cov.anisoCoeff", ka[i], kb[i], 0., 3., w + fmt(" dim %d", i));
      // derived: ranges = coefficient * range, i.e. two rounded factors and a product
      VectorDouble ra = ca->getRanges(), rb = cb->getRanges();
      for (int i = 0; i < ndim && i < (int)ra.size() && i < (int)rb.size(); i++)
        c.numScaled("cov.ranges", ra[i], rb[i], 0., 4., w + fmt(" dim %d", i));
    }
    if (ca->getFlagRotation() && cb->getFlagRotation())
    {
      for (int i = 0; i < ndim; i++)
        for (int j = 0; j < ndim; j++)
          c.numScaled("cov.rotmat", ca->getAnisoRotMat(i, j), cb->getAnisoRotMat(i, j), 1., 4., w + fmt(" [%d,%d]", i, j));
    }
    for (int i = 0; i < nvar; i++)
      for (int j = 0; j < nvar; j++)
      {
        c.num("cov.sill", ca->getSill(i, j), cb->getSill(i, j), w + fmt(" [%d,%d]", i, j));
        totalSill += std::fabs(ca->getSill(i, j));
      }
  }

  // behaviour: the covariance function itself on probe pairs (Model::eval between two SpacePoints)
  if (!c.setSection("behaviour")) return;
  if (a.getDimensionNumber() != b.getDimensionNumber() || a.getVariableNumber() != b.getVariableNumber()) return;
  if (ncov > 0 && a.getCovaNumber() == b.getCovaNumber())
  {
    Rng pr(9001);
    SpaceRN space(ndim);
    // structures whose value depends on the 'field' of their context (CovLinear, CovPower, CovGC1/3/5, CovGCspline:
    // _evaluateCov reads getContext().getField()) get their own key
    std::string fieldDep;
    for (int ic = 0; ic < ncov; ic++)
    {
      const ECov& t = a.getCova(ic)->getType();
      if (t == ECov::LINEAR || t == ECov::POWER || t == ECov::ORDER1_GC || t == ECov::ORDER3_GC || t == ECov::ORDER5_GC ||
          t == ECov::SPLINE_GC)
        fieldDep = ":field-dependent-structure";
    }
    for (int k = 0; k < 10; k++)
    {
      // increments at the scale of each structure's range, in random directions (rotation and anisotropy matter)
      const CovAniso* ca = a.getCova(k % ncov);
      double h           = (ca->hasRange() > 0 ? ca->getRange() : 1.) * pr.pick(std::vector<double>{0.05, 0.3, 0.7, 1.5});
      VectorDouble x1(ndim), x2(ndim);
      double nrm = 0;
      VectorDouble u(ndim);
      for (int i = 0; i < ndim; i++) { u[i] = pr.normal(); nrm += u[i] * u[i]; }
      nrm = std::sqrt(nrm);
      for (int i = 0; i < ndim; i++)
      {
        x1[i] = pr.uni(-1, 1);
        x2[i] = x1[i] + h * u[i] / (nrm > 0 ? nrm : 1);
      }
      SpacePoint p1(x1, -1, &space), p2(x2, -1, &space);
      for (int i = 0; i < nvar; i++)
        for (int j = 0; j < nvar; j++)
        {
          // d C / d(log range) = sill * x f'(x), x = scadef * h / range: a few units for the monotone structures, but
          // ~ x = 30 for the oscillating ones (sine cardinal has scadef 20.4, J-Bessel, cosine-exponential) at h = 1.5
          // ranges, times the two roundings of range and coefficient: amplification 1000 (calibrated max 0.09)
          double va = a.eval(p1, p2, i, j), vb = b.eval(p1, p2, i, j);
          c.numScaled("eval" + fieldDep, va, vb, totalSill, 1000., fmt("pair %d var (%d,%d)", k, i, j));
        }
    }
    // C(0): a sum of sills for the bounded structures; for the field-dependent ones sill x f(field) with
    // field = scadef x largest range = coefficient x range (four rounded factors), and for POWER field^alpha with a
    // model-level field that may be as large as 1.234e30: d(field^a)/field^a = ln(field) da = 69 da -> same budget as
    // the probe pairs (x1000, i.e. 1e-11 relative; calibrated max 0.03)
    for (int i = 0; i < nvar; i++)
      for (int j = 0; j < nvar; j++) c.numScaled("eval" + fieldDep, a.eval0(i, j), b.eval0(i, j), totalSill, 1000., fmt("h=0 var (%d,%d)", i, j));
  }
  if (a.getDriftNumber() == b.getDriftNumber() && a.getDriftNumber() > 0)
  {
    std::unique_ptr<Db> pdb(probeDb(ndim, 6));
    for (int iech = 0; iech < 6; iech++)
    {
      VectorDouble da = a.evalDriftBySample(pdb.get(), iech), db = b.evalDriftBySample(pdb.get(), iech);
      c.vec("evalDrift", da, db);
    }
  }
}

inline void exerciseModel(const Model& m, Cmp& c)
{
  c.setSection("invariant");
  int ndim = m.getDimensionNumber(), nvar = m.getVariableNumber();
  c.truth("dims", ndim >= 0 && nvar >= 0, fmt("ndim=%d nvar=%d", ndim, nvar));
  (void)m.toString();
  if (ndim < 1 || ndim > 5 || nvar < 1 || nvar > 10) return;
  SpaceRN space(ndim);
  VectorDouble x1(ndim, 0.), x2(ndim, 0.7);
  SpacePoint p1(x1, -1, &space), p2(x2, -1, &space);
  if (m.getCovaNumber() > 0)
    for (int i = 0; i < nvar; i++)
      for (int j = 0; j < nvar; j++) (void)m.eval(p1, p2, i, j);
}

// ============================================================================================================
// Neighbourhoods
// ============================================================================================================
// selection of every neighbourhood on a probe data set: targets = a few probe samples and a few other points
inline void cmpNeighSelection(ANeigh& a, ANeigh& b, int ndim, bool gridBoth, Cmp& c)
{
  // the selection is a function of the parameters: when one of them already differs it is not probed again
  if (c.differs({"flagXvalid", "anisotropy", "flagAniso", "radius", "nmini", "nmaxi", "nsect", "nsmax",
                 "width", "skip", "imageRadius", "ndim"}))
    return;
  if (!c.setSection("behaviour")) return;
  std::unique_ptr<Db> din, dout;
  if (gridBoth)
  {
    din.reset(probeGrid(ndim));
    dout.reset(probeGrid(ndim));
  }
  else
  {
    din.reset(probeDb(ndim, 40, 11));
    dout.reset(probeDb(ndim, 12, 12));
  }
  int ea = a.attach(din.get(), dout.get());
  int eb = b.attach(din.get(), dout.get());
  c.integer("attach", ea, eb);
  if (ea != 0 || eb != 0) return;
  c.integer("getMaxSampleNumber", a.getMaxSampleNumber(din.get()), b.getMaxSampleNumber(din.get()));
  int nout = dout->getSampleNumber();
  for (int it = 0; it < nout; it += std::max(1, nout / 12))
  {
    VectorInt ra, rb;
    a.select(it, ra);
    b.select(it, rb);
    std::vector<int> sa(ra.begin(), ra.end()), sb(rb.begin(), rb.end());
    std::sort(sa.begin(), sa.end());
    std::sort(sb.begin(), sb.end());
    c.st("select").n++;
    if (sa != sb) c.fail("select", fmt("target %d: %zu vs %zu samples selected", it, sa.size(), sb.size()));
  }
  // leave no dangling pointers to the probe data inside the objects
  a.reset();
  b.reset();
}

inline void cmpANeigh(const ANeigh& a, const ANeigh& b, Cmp& c)
{
  Cmp::Owner own(c, "ANeigh");
  c.setSection("getters");
  c.integer("ndim", a.getNDim(), b.getNDim());
  c.integer("type", a.getType().getValue(), b.getType().getValue());
  c.boolean("flagXvalid", a.getFlagXvalid(), b.getFlagXvalid());
}

inline void registerModelNeigh(std::vector<Entry>& reg)
{
  reg.push_back(mkEntry<Model>(
    "Model", "Model", makeModel, cmpModel, exerciseModel, [](const Model& m) { return m.getDimensionNumber(); }));

  reg.push_back(mkEntry<NeighUnique>(
    "NeighUnique", "NeighUnique",
    [](Rng& r, bool, std::string& sig) {
      int ndim = r.irange(1, 3);
      setSpace(ndim);
      bool xv = r.coin(0.3);
      sig += fmt(":ndim=%d:xvalid=%d", ndim, (int)xv);
      return NeighUnique::create(xv);
    },
    [](const NeighUnique& a, const NeighUnique& b, Cmp& c) {
      cmpANeigh(a, b, c);
      if (a.getNDim() == b.getNDim() && a.getNDim() >= 1 && a.getNDim() <= 3)
        cmpNeighSelection(const_cast<NeighUnique&>(a), const_cast<NeighUnique&>(b), a.getNDim(), false, c);
    },
    [](const NeighUnique& a, Cmp& c) { (void)a.toString(); (void)c; }, [](const NeighUnique& a) { return (int)a.getNDim(); }));

  reg.push_back(mkEntry<NeighMoving>(
    "NeighMoving", "NeighMoving",
    [](Rng& r, bool, std::string& sig) {
      int ndim = r.irange(1, 3);
      setSpace(ndim);
      bool xv    = r.coin(0.2);
      int nmaxi  = r.irange(1, 20);
      int nmini  = r.irange(1, std::min(nmaxi, 4));
      // sectors are a 2-D notion (NeighMoving::getFlagSector: getNDim() > 1 && nsect > 1); in 1-D the count is
      // normalised to 1 on reload without any effect on the selection, so it is only drawn for ndim >= 2
      int nsect  = (ndim == 1 || r.coin(0.5)) ? 1 : r.irange(2, 8);
      int nsmax  = (nsect > 1 && r.coin(0.7)) ? r.irange(1, 5) : ITEST;
      double rad = r.coin(0.1) ? TEST : r.uni(2., 15.);
      int aniso  = (ndim == 1) ? r.irange(0, 1) : r.irange(0, 2);
      VectorDouble coeffs, angles;
      if (aniso > 0)
      {
        coeffs.resize(ndim);
        for (auto& v : coeffs) v = r.uni(0.3, 3.);
        if (aniso == 2)
        {
          angles.resize(ndim, 0.);
          angles[0] = r.uni(-180, 180);
          if (ndim == 3 && r.coin()) { angles[1] = r.uni(-90, 90); angles[2] = r.uni(-180, 180); }
        }
      }
      sig += fmt(":ndim=%d:xvalid=%d:nsect=%d:nsmax=%d:rad=%d:aniso=%d", ndim, (int)xv, nsect > 1, nsmax != ITEST, rad != TEST, aniso);
      return NeighMoving::create(xv, nmaxi, rad, nmini, nsect, nsmax, coeffs, angles);
    },
    [](const NeighMoving& a, const NeighMoving& b, Cmp& c) {
      cmpANeigh(a, b, c);
      c.integer("nmini", a.getNMini(), b.getNMini());
      c.integer("nmaxi", a.getNMaxi(), b.getNMaxi());
      c.integer("nsect", a.getNSect(), b.getNSect());
      c.integer("nsmax", a.getNSMax(), b.getNSMax());
      c.boolean("flagSector", a.getFlagSector(), b.getFlagSector());
      c.num("radius", a.getRadius(), b.getRadius());
      c.boolean("flagAniso", a.getFlagAniso(), b.getFlagAniso());
      c.boolean("anisotropy", a.getFlagRotation(), b.getFlagRotation(), "flagRotation");
      if (a.getFlagAniso() && b.getFlagAniso()) c.vec("anisotropy", a.getAnisoCoeffs(), b.getAnisoCoeffs());
      if (a.getFlagRotation() && b.getFlagRotation())
      {
        const VectorDouble &ma = a.getAnisoRotMats(), &mb = b.getAnisoRotMats();
        c.integer("anisotropy", (long)ma.size(), (long)mb.size(), "rotation matrix size");
        for (size_t i = 0; i < std::min(ma.size(), mb.size()); i++) c.numScaled("anisotropy", ma[i], mb[i], 1., 4., fmt("rotmat[%zu]", i));
      }
      if (a.getNDim() == b.getNDim() && a.getNDim() >= 1 && a.getNDim() <= 3)
        cmpNeighSelection(const_cast<NeighMoving&>(a), const_cast<NeighMoving&>(b), a.getNDim(), false, c);
    },
    [](const NeighMoving& a, Cmp& c) { (void)a.toString(); (void)c; }, [](const NeighMoving& a) { return (int)a.getNDim(); }));

  reg.push_back(mkEntry<NeighBench>(
    "NeighBench", "NeighBench",
    [](Rng& r, bool, std::string& sig) {
      int ndim = r.irange(1, 3);
      setSpace(ndim);
      bool xv = r.coin(0.2);
      sig += fmt(":ndim=%d:xvalid=%d", ndim, (int)xv);
      return NeighBench::create(xv, r.coin(0.1) ? hardValue(r, false) : r.uni(0.5, 8.));
    },
    [](const NeighBench& a, const NeighBench& b, Cmp& c) {
      cmpANeigh(a, b, c);
      c.num("width", a.getWidth(), b.getWidth());
      if (a.getNDim() == b.getNDim() && a.getNDim() >= 1 && a.getNDim() <= 3)
        cmpNeighSelection(const_cast<NeighBench&>(a), const_cast<NeighBench&>(b), a.getNDim(), false, c);
    },
    [](const NeighBench& a, Cmp& c) { (void)a.toString(); (void)c; }, [](const NeighBench& a) { return (int)a.getNDim(); }));

  reg.push_back(mkEntry<NeighCell>(
    "NeighCell", "NeighCell",
    [](Rng& r, bool, std::string& sig) {
      int ndim = r.irange(1, 3);
      setSpace(ndim);
      bool xv = r.coin(0.2);
      sig += fmt(":ndim=%d:xvalid=%d", ndim, (int)xv);
      return NeighCell::create(xv, r.irange(1, 6));
    },
    [](const NeighCell& a, const NeighCell& b, Cmp& c) {
      cmpANeigh(a, b, c);
      c.integer("nmini", a.getNMini(), b.getNMini());
    },
    [](const NeighCell& a, Cmp& c) { (void)a.toString(); (void)c; }, [](const NeighCell& a) { return (int)a.getNDim(); }));

  reg.push_back(mkEntry<NeighImage>(
    "NeighImage", "NeighImage",
    [](Rng& r, bool, std::string& sig) {
      int ndim = r.irange(1, 3);
      setSpace(ndim);
      VectorInt rad(ndim);
      for (auto& v : rad) v = r.irange(0, 3);
      int skip = r.irange(0, 3);
      sig += fmt(":ndim=%d:skip=%d", ndim, skip > 0);
      return NeighImage::create(rad, skip);
    },
    [](const NeighImage& a, const NeighImage& b, Cmp& c) {
      cmpANeigh(a, b, c);
      c.integer("skip", a.getSkip(), b.getSkip());
      c.ivec("imageRadius", a.getImageRadius(), b.getImageRadius());
      if (a.getNDim() == b.getNDim() && a.getNDim() >= 1 && a.getNDim() <= 3 && a.getImageRadius().size() == b.getImageRadius().size())
        cmpNeighSelection(const_cast<NeighImage&>(a), const_cast<NeighImage&>(b), a.getNDim(), true, c);
    },
    [](const NeighImage& a, Cmp& c) { (void)a.toString(); (void)c; }, [](const NeighImage& a) { return (int)a.getNDim(); }));
}


// ============================================================================================================
// Vario
// ============================================================================================================
} // namespace c08
#include "Variogram/Vario.hpp"
#include "Variogram/VarioParam.hpp"
#include "Variogram/DirParam.hpp"
#include "Enum/ECalcVario.hpp"
#include "Polygon/Polygons.hpp"
#include "Polygon/PolyElem.hpp"
#include "Basic/PolyLine2D.hpp"
#include "Faults/Faults.hpp"
#include "Matrix/Table.hpp"
namespace c08
{
inline Vario* makeVario(Rng& r, bool thorough, std::string& sig)
{
  int ndim = r.irange(1, 3), nvar = r.irange(1, 3);
  setSpace(ndim);
  int nech = r.irange(15, thorough ? 120 : 40);
  bool onGrid = (ndim >= 2) && r.coin(0.2);
  std::unique_ptr<Db> db;
  std::unique_ptr<DbGrid> grid;
  if (onGrid)
  {
    VectorInt nx(ndim, ndim == 2 ? 6 : 3);
    VectorDouble dx(ndim);
    for (auto& v : dx) v = r.uni(0.5, 2.);
    grid.reset(DbGrid::create(nx, dx));
  }
  else
  {
    db.reset(Db::create());
    for (int idim = 0; idim < ndim; idim++)
    {
      VectorDouble t(nech);
      for (auto& v : t) v = r.uni(0, 10);
      db->addColumns(t, fmt("x%d", idim + 1), ELoc::X, idim);
    }
  }
  Db* d = onGrid ? (Db*)grid.get() : db.get();
  int n = d->getSampleNumber();
  bool hetero = r.coin(0.3);
  for (int iv = 0; iv < nvar; iv++)
  {
    VectorDouble z(n);
    for (auto& v : z) v = (hetero && r.coin(0.15)) ? TEST : r.normal() * 3. + 1.;
    d->addColumns(z, pickName(r, iv), ELoc::Z, iv);
  }
  bool code = !onGrid && r.coin(0.15);
  if (code)
  {
    VectorDouble cd(n);
    for (auto& v : cd) v = r.irange(1, 3);
    d->addColumns(cd, "code", ELoc::C, 0);
  }
  int ndir = (ndim == 1) ? 1 : r.irange(1, 3);
  double scale = r.coin(0.2) ? r.uni(0.1, 5) : 0.;
  VarioParam vp(scale);
  int optFlags = 0;
  for (int idir = 0; idir < ndir; idir++)
  {
    int npas = r.irange(2, thorough ? 12 : 6);
    if (onGrid)
    {
      VectorInt grincr(ndim, 0);
      grincr[idir % ndim] = 1;
      if (r.coin(0.3)) grincr[(idir + 1) % ndim] = r.irange(-1, 1);
      DirParam* dp = DirParam::createFromGrid(grid.get(), npas, grincr);
      vp.addDir(*dp);
      delete dp;
      continue;
    }
    double dpas   = r.uni(0.5, 2.5);
    double toldis = r.coin(0.5) ? 0.5 : r.uni(0.1, 0.5);
    double tolang = (ndir == 1 && r.coin(0.5)) ? 90. : r.uni(10., 60.);
    int optcode   = code ? r.irange(1, 2) : 0;
    double tolcode = code ? (double)r.irange(0, 1) : 0.;
    double bench = TEST, cylrad = TEST;
    VectorDouble breaks, codir(ndim);
    // options the neutral file has no field for: drawn rarely, so that most instances stay inside the format
    if (ndim == 3 && r.coin(0.08)) { bench = r.uni(1, 4); optFlags |= 1; }
    if (ndim >= 2 && r.coin(0.08)) { cylrad = r.uni(1, 4); optFlags |= 2; }
    if (r.coin(0.08))
    {
      double h = 0;
      for (int k = 0; k <= npas; k++) { breaks.push_back(h); h += r.uni(0.3, 2.); }
      optFlags |= 4;
    }
    double nrm = 0;
    for (auto& v : codir) { v = r.normal(); nrm += v * v; }
    for (auto& v : codir) v /= std::sqrt(nrm);
    DirParam dp(npas, dpas, toldis, tolang, optcode, 0, bench, cylrad, tolcode, breaks, codir);
    vp.addDir(dp);
  }
  static const std::vector<const char*> calcs = {"VARIOGRAM", "VARIOGRAM", "VARIOGRAM", "COVARIANCE", "COVARIOGRAM", "MADOGRAM",
                                                 "RODOGRAM", "POISSON", "GENERAL1", "GENERAL2", "GENERAL3", "COVARIANCE_NC",
                                                 "ORDER4", "TRANS1", "TRANS2", "BINORMAL"};
  std::string calc = r.pick(calcs);
  // on a grid the pairs are formed along the grid increments: the generalized variograms and the two basic modes
  if (onGrid && calc.compare(0, 7, "GENERAL") != 0) calc = r.coin(0.7) ? "VARIOGRAM" : "COVARIANCE";
  if (getenv("C08_STATS")) fprintf(stderr, "makeVario ndim=%d nvar=%d ndir=%d grid=%d code=%d opt=%d calc=%s nech=%d\n", ndim, nvar, ndir, (int)onGrid, (int)code, optFlags, calc.c_str(), n);
  Vario* v = Vario::computeFromDb(vp, d, ECalcVario::fromKey(calc));
  if (v == nullptr)
  {
    calc = "VARIOGRAM(fallback)";
    v    = Vario::computeFromDb(vp, d, ECalcVario::VARIOGRAM);
  }
  sig += fmt(":ndim=%d:nvar=%d:ndir=%d:grid=%d:code=%d:opt=%d:scale=%d:calc=", ndim, nvar, ndir, (int)onGrid, (int)code, optFlags, scale > 0) + calc;
  return v;
}

inline void cmpVario(const Vario& a, const Vario& b, Cmp& c)
{
  c.setSection("getters");
  c.integer("nvar", a.getVariableNumber(), b.getVariableNumber());
  c.integer("ndir", a.getDirectionNumber(), b.getDirectionNumber());
  c.num("scale", a.getScale(), b.getScale());
  c.str("calcul", std::string(a.getCalcul().getKey()), std::string(b.getCalcul().getKey()));
  if (!c.differs({"calcul"})) c.boolean("flagAsym", a.getFlagAsym(), b.getFlagAsym()); // a function of the calculation mode
  int nvar = std::min(a.getVariableNumber(), b.getVariableNumber());
  int ndir = std::min(a.getDirectionNumber(), b.getDirectionNumber());
  for (int i = 0; i < nvar; i++) c.str("variableName", a.getVariableName(i), b.getVariableName(i), fmt("[%d]", i));
  if (a.getVariableNumber() == b.getVariableNumber())
  {
    c.vec("vars", a.getVars(), b.getVars());
    c.vec("means", a.getMeans(), b.getMeans());
  }
  bool sameLayout = (a.getVariableNumber() == b.getVariableNumber());
  for (int idir = 0; idir < ndir; idir++)
  {
    const DirParam &da = a.getDirParam(idir), &db = b.getDirParam(idir);
    std::string w = fmt("dir %d", idir);
    c.integer("dir.ndim", da.getNDim(), db.getNDim(), w);
    c.integer("dir.npas", da.getLagNumber(), db.getLagNumber(), w);
    c.num("dir.dpas", da.getDPas(), db.getDPas(), w);
    c.num("dir.toldis", da.getTolDist(), db.getTolDist(), w);
    c.integer("dir.optcode", da.getOptionCode(), db.getOptionCode(), w);
    c.num("dir.tolcode", da.getTolCode(), db.getTolCode(), w);
    c.boolean("dir.definedForGrid", da.isDefinedForGrid(), db.isDefinedForGrid(), w);
    if (!da.isDefinedForGrid()) c.num("dir.tolangle", da.getTolAngle(), db.getTolAngle(), w);
    c.vec("dir.codir", da.getCodirs(), db.getCodirs());
    c.ivec("dir.grincr", da.getGrincrs(), db.getGrincrs());
    c.num("dir.option-without-field", da.getBench(), db.getBench(), w + " bench");
    c.num("dir.option-without-field", da.getCylRad(), db.getCylRad(), w + " cylrad");
    c.integer("dir.option-without-field", (long)da.getBreaks().size(), (long)db.getBreaks().size(), w + " number of breaks");
    c.integer("dir.idate", da.getIdate(), db.getIdate(), w);
    if (!c.differs({"calcul"})) c.integer("dirSize", a.getDirSize(idir), b.getDirSize(idir), w);
    if (a.getDirSize(idir) != b.getDirSize(idir)) sameLayout = false;
    int n = std::min(a.getDirSize(idir), b.getDirSize(idir));
    if (sameLayout)
      for (int i = 0; i < n; i++)
      {
        c.num("sw", a.getSwByIndex(idir, i), b.getSwByIndex(idir, i), w + fmt(" [%d]", i));
        c.num("lag-values", a.getHhByIndex(idir, i), b.getHhByIndex(idir, i), w + fmt(" hh[%d]", i));
        c.num("lag-values", a.getGgByIndex(idir, i), b.getGgByIndex(idir, i), w + fmt(" gg[%d]", i));
      }
  }
  if (!c.setSection("behaviour")) return;
  if (!sameLayout || a.getDirectionNumber() != b.getDirectionNumber()) return;
  if (c.differs({"sw", "lag-values", "dir.npas", "dir.dpas"})) return; // the array views below repeat those differences
  for (int idir = 0; idir < ndir; idir++)
    for (int i = 0; i < nvar; i++)
      for (int j = 0; j <= i; j++)
      {
        c.vec("getGgVec", a.getGgVec(idir, i, j, false, false, false), b.getGgVec(idir, i, j, false, false, false));
        c.vec("getHhVec", a.getHhVec(idir, i, j, false), b.getHhVec(idir, i, j, false));
        c.vec("getSwVec", a.getSwVec(idir, i, j, false), b.getSwVec(idir, i, j, false));
        c.vec("getGgVec-compressed", a.getGgVec(idir, i, j), b.getGgVec(idir, i, j));
      }
  c.num("getHmax", a.getHmax(), b.getHmax());
  c.num("getGmax", a.getGmax(), b.getGmax());
}

inline void exerciseVario(const Vario& v, Cmp& c)
{
  c.setSection("invariant");
  int nvar = v.getVariableNumber(), ndir = v.getDirectionNumber();
  c.truth("dims", nvar >= 0 && ndir >= 0, fmt("nvar=%d ndir=%d", nvar, ndir));
  (void)v.toString();
  for (int idir = 0; idir < ndir && idir < 8; idir++)
  {
    int n = v.getDirSize(idir);
    c.truth("dirsize-nonneg", n >= 0, fmt("getDirSize(%d)=%d", idir, n));
    c.truth("arrays-size", (int)v.getAllGg(idir).size() == n && (int)v.getAllSw(idir).size() == n && (int)v.getAllHh(idir).size() == n,
            fmt("dir %d: gg %zu sw %zu hh %zu, getDirSize %d", idir, v.getAllGg(idir).size(), v.getAllSw(idir).size(), v.getAllHh(idir).size(), n));
    for (int i = 0; i < nvar && i < 4; i++)
      for (int j = 0; j <= i; j++) (void)v.getGgVec(idir, i, j);
  }
  if (ndir > 0 && nvar > 0) { (void)v.getHmax(); (void)v.getGmax(); }
}

// ============================================================================================================
// Polygons, PolyLine2D, Faults, Table
// ============================================================================================================
inline void genLine(Rng& r, int n, double pHard, VectorDouble& x, VectorDouble& y)
{
  x.resize(n);
  y.resize(n);
  for (int i = 0; i < n; i++)
  {
    x[i] = r.coin(pHard) ? hardValue(r, false) : r.uni(-50, 50);
    y[i] = r.coin(pHard) ? hardValue(r, false) : r.uni(-50, 50);
  }
}

inline void cmpLine(const PolyLine2D& a, const PolyLine2D& b, Cmp& c, const std::string& pre)
{
  Cmp::Owner own(c, "PolyLine2D");
  (void)pre;
  c.integer("npoints", a.getNPoints(), b.getNPoints());
  c.vec("x", a.getX(), b.getX());
  c.vec("y", a.getY(), b.getY());
}

inline Polygons* makePolygons(Rng& r, bool thorough, std::string& sig)
{
  setSpace(2);
  Polygons* p = new Polygons();
  int npol    = r.coin(0.05) ? 0 : r.irange(1, thorough ? 6 : 3);
  bool hard   = r.coin(0.1);
  int zlim    = 0;
  for (int ip = 0; ip < npol; ip++)
  {
    // star-shaped polygon around a centre: simple (no self intersection), optionally closed explicitly
    int nv    = r.irange(3, thorough ? 40 : 12);
    double cx = r.uni(-30, 30), cy = r.uni(-30, 30);
    VectorDouble x, y;
    std::vector<double> ang(nv);
    for (auto& a : ang) a = r.uni(0, 6.283185307179586);
    std::sort(ang.begin(), ang.end());
    for (int i = 0; i < nv; i++)
    {
      double rad = r.uni(2, 15);
      x.push_back(cx + rad * std::cos(ang[i]));
      y.push_back(cy + rad * std::sin(ang[i]));
    }
    if (hard)
      for (int i = 0; i < nv; i++)
        if (r.coin(0.2)) x[i] = hardValue(r, false);
    if (r.coin(0.5)) { x.push_back(x[0]); y.push_back(y[0]); }
    double zmin = TEST, zmax = TEST;
    int zl = r.irange(0, 3);
    if (zl & 1) zmin = r.uni(-10, 0);
    if (zl & 2) zmax = r.uni(0, 10);
    zlim |= zl;
    PolyElem pe(x, y, zmin, zmax);
    p->addPolyElem(pe);
  }
  sig += fmt(":npol=%d:hard=%d:zlim=%d", std::min(npol, 2), (int)hard, zlim);
  return p;
}

inline void cmpPolygons(const Polygons& a, const Polygons& b, Cmp& c)
{
  c.setSection("getters");
  c.integer("npol", a.getPolyElemNumber(), b.getPolyElemNumber());
  int np = std::min(a.getPolyElemNumber(), b.getPolyElemNumber());
  bool same = a.getPolyElemNumber() == b.getPolyElemNumber();
  for (int ip = 0; ip < np; ip++)
  {
    const PolyElem &ea = a.getPolyElem(ip), &eb = b.getPolyElem(ip);
    cmpLine(ea, eb, c, "elem.");
    c.num("elem.zmin", ea.getZmin(), eb.getZmin(), fmt("[%d]", ip));
    c.num("elem.zmax", ea.getZmax(), eb.getZmax(), fmt("[%d]", ip));
    if (ea.getNPoints() != eb.getNPoints()) same = false;
  }
  if (!c.setSection("behaviour")) return;
  if (!same || np == 0) return;
  // inside() on probe points; a point closer to an edge than the 15-digit rounding of the vertices is excluded
  // by construction: probes are drawn on a coarse lattice (multiples of 0.37) while vertices are generic reals
  double xmin, xmax, ymin, ymax;
  a.getExtension(&xmin, &xmax, &ymin, &ymax);
  bool finite = std::isfinite(xmin) && std::isfinite(xmax) && std::isfinite(ymin) && std::isfinite(ymax) &&
                std::fabs(xmin) < 1e6 && std::fabs(xmax) < 1e6 && std::fabs(ymin) < 1e6 && std::fabs(ymax) < 1e6;
  if (finite)
  {
    Rng pr(31337);
    for (int k = 0; k < 60; k++)
    {
      VectorDouble pt = {std::round(pr.uni(xmin - 2, xmax + 2) / 0.37) * 0.37, std::round(pr.uni(ymin - 2, ymax + 2) / 0.37) * 0.37};
      c.boolean("inside", a.inside(pt, false), b.inside(pt, false), fmt("(%g,%g)", pt[0], pt[1]));
      c.boolean("inside-nested", a.inside(pt, true), b.inside(pt, true), fmt("(%g,%g)", pt[0], pt[1]));
      VectorDouble pt3 = {pt[0], pt[1], pr.uni(-12, 12)};
      c.boolean("inside-3D", a.inside(pt3, false), b.inside(pt3, false), fmt("(%g,%g,%g)", pt3[0], pt3[1], pt3[2]));
    }
    c.numScaled("getSurface", a.getSurface(), b.getSurface(), (xmax - xmin) * (ymax - ymin), 20.);
  }
}

inline void exercisePolygons(const Polygons& p, Cmp& c)
{
  c.setSection("invariant");
  (void)p.toString();
  int np = p.getPolyElemNumber();
  for (int i = 0; i < np && i < 50; i++)
  {
    const PolyElem& e = p.getPolyElem(i);
    c.truth("xy-same-size", e.getX().size() == e.getY().size(), fmt("elem %d: %zu x, %zu y", i, e.getX().size(), e.getY().size()));
  }
  if (np > 0)
  {
    (void)p.inside({0.5, 0.5}, false);
    (void)p.getSurface();
  }
}

inline void registerVarioPoly(std::vector<Entry>& reg)
{
  reg.push_back(mkEntry<Vario>(
    "Vario", "Vario", makeVario, cmpVario, exerciseVario,
    [](const Vario& v) { return v.getDirectionNumber() > 0 ? v.getDimensionNumber() : 0; },
    []() { return new Vario(VarioParam()); }));

  reg.push_back(mkEntry<Polygons>("Polygons", "Polygon", makePolygons, cmpPolygons, exercisePolygons, [](const Polygons&) { return 2; }));

  reg.push_back(mkEntry<PolyLine2D>(
    "PolyLine2D", "PolyLine2D",
    [](Rng& r, bool thorough, std::string& sig) {
      setSpace(2);
      // an empty polyline is refused by dumpToNF (PolyLine2D::_serialize returns false): outside 'can be written'
      int n       = r.coin(0.05) ? 1 : r.irange(2, thorough ? 100 : 25);
      double hard = r.coin(0.2) ? 0.3 : 0.;
      VectorDouble x, y;
      genLine(r, n, hard, x, y);
      sig += fmt(":n=%d:hard=%d", std::min(n, 2), hard > 0);
      return new PolyLine2D(x, y);
    },
    [](const PolyLine2D& a, const PolyLine2D& b, Cmp& c) {
      c.setSection("getters");
      cmpLine(a, b, c, "");
      if (!c.setSection("behaviour")) return;
      if (a.getNPoints() == b.getNPoints() && a.getNPoints() >= 2)
      {
        bool tame = true;
        for (int i = 0; i < a.getNPoints(); i++) tame = tame && std::fabs(a.getX(i)) < 1e6 && std::fabs(a.getY(i)) < 1e6;
        if (tame)
        {
          c.num("xmin", a.getXmin(), b.getXmin());
          c.num("ymax", a.getYmax(), b.getYmax());
          Rng pr(555);
          for (int k = 0; k < 5; k++)
          {
            VectorDouble t = {pr.uni(-60, 60), pr.uni(-60, 60)};
            PolyPoint2D pa = a.getPLIndex(t), pb = b.getPLIndex(t);
            c.integer("getPLIndex.rank", pa.rank, pb.rank);
            c.numScaled("getPLIndex.dist", pa.dist, pb.dist, 100., 20.);
          }
        }
      }
    },
    [](const PolyLine2D& a, Cmp& c) {
      c.setSection("invariant");
      c.truth("xy-same-size", a.getX().size() == a.getY().size(), fmt("%zu x, %zu y", a.getX().size(), a.getY().size()));
      (void)a.toString();
      if (a.getNPoints() >= 2) (void)a.getPLIndex({0., 0.});
    },
    [](const PolyLine2D&) { return 2; }));

  reg.push_back(mkEntry<Faults>(
    "Faults", "Faults",
    [](Rng& r, bool thorough, std::string& sig) {
      setSpace(2);
      Faults* f = new Faults();
      int nf    = r.coin(0.05) ? 0 : r.irange(1, thorough ? 8 : 4);
      for (int i = 0; i < nf; i++)
      {
        VectorDouble x, y;
        genLine(r, r.irange(2, 8), 0., x, y);
        f->addFault(PolyLine2D(x, y));
      }
      sig += fmt(":nf=%d", std::min(nf, 2));
      return f;
    },
    [](const Faults& a, const Faults& b, Cmp& c) {
      c.setSection("getters");
      c.integer("nfaults", a.getNFaults(), b.getNFaults());
      int n = std::min(a.getNFaults(), b.getNFaults());
      bool same = a.getNFaults() == b.getNFaults();
      for (int i = 0; i < n; i++)
      {
        cmpLine(a.getFault(i), b.getFault(i), c, "fault.");
        if (a.getFault(i).getNPoints() != b.getFault(i).getNPoints()) same = false;
      }
      if (!c.setSection("behaviour")) return;
      if (same)
      {
        // segments between lattice points (multiples of 0.37): generic w.r.t. the fault vertices
        Rng pr(808);
        for (int k = 0; k < 40; k++)
        {
          double x1 = std::round(pr.uni(-55, 55) / 0.37) * 0.37, y1 = std::round(pr.uni(-55, 55) / 0.37) * 0.37;
          double x2 = std::round(pr.uni(-55, 55) / 0.37) * 0.37, y2 = std::round(pr.uni(-55, 55) / 0.37) * 0.37;
          c.boolean("isSplitByFault", a.isSplitByFault(x1, y1, x2, y2), b.isSplitByFault(x1, y1, x2, y2));
        }
      }
    },
    [](const Faults& a, Cmp& c) {
      c.setSection("invariant");
      (void)a.toString();
      for (int i = 0; i < a.getNFaults() && i < 50; i++)
        c.truth("xy-same-size", a.getFault(i).getX().size() == a.getFault(i).getY().size(), fmt("fault %d", i));
      if (a.getNFaults() > 0) (void)a.isSplitByFault(0., 0., 1., 1.);
    },
    [](const Faults&) { return 2; }));

  reg.push_back(mkEntry<Table>(
    "Table", "Table",
    [](Rng& r, bool thorough, std::string& sig) {
      int nrow = r.coin(0.05) ? 0 : r.irange(1, thorough ? 40 : 10);
      int ncol = r.coin(0.05) ? 0 : r.irange(1, thorough ? 12 : 5);
      Table* t = Table::create(nrow, ncol);
      double pHard = r.coin(0.5) ? 0. : 0.4;
      for (int i = 0; i < nrow; i++)
        for (int j = 0; j < ncol; j++) t->setValue(i, j, anyValue(r, pHard));
      int deco = r.coin(0.25) ? r.irange(1, 7) : 0; // decoration the neutral file has no field for
      if (deco & 1)
      {
        VectorString cn;
        for (int j = 0; j < ncol; j++) cn.push_back(fmt("col%d", j));
        t->setColumnNames(cn);
      }
      if (deco & 2)
      {
        VectorString rn;
        for (int i = 0; i < nrow; i++) rn.push_back(fmt("row%d", i));
        t->setRowNames(rn);
      }
      if (deco & 4) t->setTitle("My title");
      sig += fmt(":nrow=%d:ncol=%d:hard=%d:deco=%d", std::min(nrow, 2), std::min(ncol, 2), pHard > 0, deco);
      return t;
    },
    [](const Table& a, const Table& b, Cmp& c) {
      c.setSection("getters");
      c.integer("nrows", a.getNRows(), b.getNRows());
      c.integer("ncols", a.getNCols(), b.getNCols());
      int nr = std::min(a.getNRows(), b.getNRows()), nc = std::min(a.getNCols(), b.getNCols());
      for (int i = 0; i < nr; i++)
        for (int j = 0; j < nc; j++) c.num("values", a.getValue(i, j), b.getValue(i, j), fmt("[%d,%d]", i, j));
      c.str("decoration", a.getTitle(), b.getTitle(), "title");
      c.integer("decoration", (long)a.getColumnNames().size(), (long)b.getColumnNames().size(), "number of column names");
      c.integer("decoration", (long)a.getRowNames().size(), (long)b.getRowNames().size(), "number of row names");
      if (!c.setSection("behaviour")) return;
      if (a.getNRows() == b.getNRows() && a.getNCols() == b.getNCols() && nr > 0)
        for (int j = 0; j < nc; j++) c.vec("getRange", a.getRange(j), b.getRange(j));
    },
    [](const Table& a, Cmp& c) {
      c.setSection("invariant");
      c.truth("dims", a.getNRows() >= 0 && a.getNCols() >= 0, fmt("%d x %d", a.getNRows(), a.getNCols()));
      (void)a.toString();
      if (a.getNRows() > 0 && a.getNCols() > 0) (void)a.getRange(0);
    }));
}


// ============================================================================================================
// Anamorphoses
// ============================================================================================================
} // namespace c08
#include "Anamorphosis/AnamHermite.hpp"
#include "Anamorphosis/AnamEmpirical.hpp"
#include "Anamorphosis/AnamDiscreteDD.hpp"
#include "Anamorphosis/AnamDiscreteIR.hpp"
#include "Mesh/MeshETurbo.hpp"
#include "Mesh/MeshEStandard.hpp"
#include "Matrix/MatrixInt.hpp"
#include "Matrix/MatrixRectangular.hpp"
#include "Matrix/NF_Triplet.hpp"
#include "LithoRule/Rule.hpp"
#include "LithoRule/RuleShift.hpp"
#include "LithoRule/RuleShadow.hpp"
#include "Fractures/FracEnviron.hpp"
#include "Fractures/FracFamily.hpp"
#include "Fractures/FracFault.hpp"
#include "Db/DbMeshTurbo.hpp"
#include "Db/DbMeshStandard.hpp"
namespace c08
{
inline VectorDouble skewedSample(Rng& r, int n)
{
  VectorDouble t(n);
  for (auto& v : t) v = std::exp(0.6 * r.normal()) * 3. + r.uni(0, 0.01);
  return t;
}

inline void cmpAnamContinuous(const AnamContinuous& a, const AnamContinuous& b, Cmp& c, bool moments = true, double momentAmp = 1.)
{
  Cmp::Owner own(c, "AnamContinuous");
  c.num("azmin", a.getAzmin(), b.getAzmin());
  c.num("azmax", a.getAzmax(), b.getAzmax());
  c.num("aymin", a.getAymin(), b.getAymin());
  c.num("aymax", a.getAymax(), b.getAymax());
  c.num("pzmin", a.getPzmin(), b.getPzmin());
  c.num("pzmax", a.getPzmax(), b.getPzmax());
  c.num("pymin", a.getPymin(), b.getPymin());
  c.num("pymax", a.getPymax(), b.getPymax());
  if (!moments) return; // recomputed from coefficients that already differ
  // AnamHermite recomputes mean and variance from the reloaded coefficients (setRCoef -> calculateMeanAndVariance):
  // variance = sum psi_n^2 carries twice the relative rounding of a coefficient, plus the summation -> budget x 4
  c.numScaled("mean", a.getMean(), b.getMean(), 0., momentAmp);
  c.numScaled("variance", a.getVariance(), b.getVariance(), 0., momentAmp);
}
// transforms on probe values; 'scale' = magnitude of the raw values. The Hermite expansion sums ~nbpoly terms whose
// coefficients carry 1e-14 each, the inverse is a bisection on it: amplification 1e3 (documented, generous, and
// still 1e8 times finer than any field lost or permuted)
inline void cmpAnamTransforms(const AAnam& a, const AAnam& b, double zlo, double zhi, Cmp& c)
{
  Rng pr(2468);
  double scale = std::max(std::fabs(zlo), std::fabs(zhi));
  for (int k = 0; k < 12; k++)
  {
    double y = pr.uni(-2.5, 2.5);
    c.numScaled("transformToRawValue", a.transformToRawValue(y), b.transformToRawValue(y), scale, 1e3, fmt("y=%g", y));
    double z = pr.uni(zlo, zhi);
    c.numScaled("rawToTransformValue", a.rawToTransformValue(z), b.rawToTransformValue(z), 3., 1e3, fmt("z=%g", z));
  }
}

inline void registerAnam(std::vector<Entry>& reg)
{
  reg.push_back(mkEntry<AnamHermite>(
    "AnamHermite", "AnamHermite",
    [](Rng& r, bool thorough, std::string& sig) {
      int nbpoly = r.irange(2, thorough ? 60 : 25);
      bool bound = r.coin(0.7);
      int how    = r.irange(0, 2); // 0 fitted, 1 fitted + change of support, 2 reset() with explicit fields
      AnamHermite* a = AnamHermite::create(nbpoly, bound, 1.);
      if (how < 2)
      {
        a->fitFromArray(skewedSample(r, r.irange(30, 100)));
        if (how == 1) a->updatePointToBlock(r.uni(0.3, 0.95));
      }
      else
      {
        VectorDouble psi(nbpoly);
        for (int i = 0; i < nbpoly; i++) psi[i] = (i == 0 ? 5. : r.normal() / (i * i));
        a->reset(-2.5, 0.5, 2.5, 20., -4., 0., 4., 50., r.coin() ? 1. : r.uni(0.3, 0.95), psi);
      }
      sig += fmt(":how=%d:bound=%d", how, (int)bound);
      return a;
    },
    [](const AnamHermite& a, const AnamHermite& b, Cmp& c) {
      c.setSection("getters");
      c.num("rcoef", a.getRCoef(), b.getRCoef());
      c.integer("nbpoly", a.getNbPoly(), b.getNbPoly());
      c.vec("psiHn", a.getPsiHns(), b.getPsiHns());
      cmpAnamContinuous(a, b, c, !c.differs({"psiHn", "rcoef", "nbpoly"}), 4.);
      c.boolean("flagBound", a.getFlagBound(), b.getFlagBound());
      if (!c.setSection("behaviour")) return;
      if (a.getNbPoly() == b.getNbPoly() && !c.differs({"psiHn", "rcoef", "flagBound", "p", "a"})) cmpAnamTransforms(a, b, a.getPzmin(), a.getPzmax(), c);
    },
    [](const AnamHermite& a, Cmp& c) {
      (void)c;
      (void)a.toString();
      (void)a.transformToRawValue(0.3);
      (void)a.rawToTransformValue(1.);
    }));

  reg.push_back(mkEntry<AnamEmpirical>(
    "AnamEmpirical", "AnamEmpirical",
    [](Rng& r, bool thorough, std::string& sig) {
      int ndisc   = r.irange(5, thorough ? 200 : 40);
      bool dilute = r.coin(0.5), gaus = r.coin(0.5);
      double s2e  = r.coin(0.5) ? TEST : r.uni(0.01, 0.5);
      AnamEmpirical* a = new AnamEmpirical(ndisc, s2e, dilute, gaus);
      a->fitFromArray(skewedSample(r, r.irange(30, 100)));
      sig += fmt(":dilute=%d:gaus=%d:s2e=%d", (int)dilute, (int)gaus, s2e != TEST);
      return a;
    },
    [](const AnamEmpirical& a, const AnamEmpirical& b, Cmp& c) {
      c.setSection("getters");
      cmpAnamContinuous(a, b, c);
      c.integer("ndisc", a.getNDisc(), b.getNDisc());
      c.num("sigma2e", a.getSigma2e(), b.getSigma2e());
      c.vec("zdisc", a.getZDisc(), b.getZDisc());
      c.vec("ydisc", a.getYDisc(), b.getYDisc());
      if (!c.setSection("behaviour")) return;
      if (a.getNDisc() == b.getNDisc() && a.getZDisc().size() == b.getZDisc().size() && !a.getZDisc().empty())
      {
        double lo = a.getZDisc()[0], hi = a.getZDisc()[a.getZDisc().size() - 1];
        cmpAnamTransforms(a, b, lo, hi, c);
      }
    },
    [](const AnamEmpirical& a, Cmp& c) {
      c.setSection("invariant");
      c.truth("disc-sizes", a.getZDisc().size() == a.getYDisc().size(), fmt("%zu z, %zu y", a.getZDisc().size(), a.getYDisc().size()));
      (void)a.toString();
      (void)a.transformToRawValue(0.3);
      (void)a.rawToTransformValue(1.);
    }));

  auto cmpDiscrete = [](const AnamDiscrete& a, const AnamDiscrete& b, Cmp& c) {
    Cmp::Owner own(c, "AnamDiscrete");
    c.integer("ncut", a.getNCut(), b.getNCut());
    c.integer("nclass", a.getNClass(), b.getNClass());
    c.integer("nelem", a.getNElem(), b.getNElem());
    c.vec("zcut", a.getZCut(), b.getZCut());
    c.vec("stats", a.getStats().getValues(), b.getStats().getValues());
    c.num("moments", a.getMean(), b.getMean(), "mean");
    c.num("moments", a.getVariance(), b.getVariance(), "variance");
  };

  reg.push_back(mkEntry<AnamDiscreteDD>(
    "AnamDiscreteDD", "AnamDiscreteDD",
    [](Rng& r, bool thorough, std::string& sig) {
      int ncut = r.irange(1, thorough ? 8 : 4);
      AnamDiscreteDD* a = AnamDiscreteDD::create(r.uni(0.5, 2.), r.coin(0.5) ? 0. : r.uni(0.1, 0.9));
      VectorDouble zcut(ncut);
      double z = 0.5;
      for (auto& v : zcut) { z += r.uni(0.5, 2.5); v = z; }
      a->setZCut(zcut);
      // fitting a DD anamorphosis needs its MAF decomposition computed on a Db first (AnamDiscreteDD::factors_maf reads
      // getPcaZ2Fs()); the stored fields are set directly through reset(), which is all the file format knows about
      int fit = 0;
      {
        int nclass = ncut + 1;
        VectorDouble stats(nclass * a->getNElem());
        for (auto& v : stats) v = r.uni(0.05, 1.);
        MatrixSquareGeneral z2f(ncut), f2z(ncut);
        for (int i = 0; i < ncut; i++)
          for (int j = 0; j < ncut; j++) { z2f.setValue(i, j, r.uni(-1, 1)); f2z.setValue(i, j, r.uni(-1, 1)); }
        a->reset(ncut, r.uni(0.1, 0.9), r.uni(0.5, 2.), zcut, z2f, f2z, stats);
      }
      sig += fmt(":ncut=%d:fit=%d", std::min(ncut, 3), fit);
      return a;
    },
    [cmpDiscrete](const AnamDiscreteDD& a, const AnamDiscreteDD& b, Cmp& c) {
      c.setSection("getters");
      cmpDiscrete(a, b, c);
      c.num("scoef", a.getSCoef(), b.getSCoef());
      c.num("mu", a.getMu(), b.getMu());
      c.vec("pcaZ2F", a.getPcaZ2Fs().getValues(), b.getPcaZ2Fs().getValues());
      c.vec("pcaF2Z", a.getPcaF2Zs().getValues(), b.getPcaF2Zs().getValues());
      c.vec("i2chi", a.getI2Chi().getValues(), b.getI2Chi().getValues());
      if (!c.setSection("behaviour")) return;
      bool fitted = a.getI2Chi().getNRows() == a.getNClass() && b.getI2Chi().getNRows() == b.getNClass();
      if (a.getNCut() == b.getNCut() && a.getNCut() > 0 && fitted)
      {
        VectorInt ifacs;
        for (int i = 0; i < a.getNCut(); i++) ifacs.push_back(i + 1);
        Rng pr(97);
        for (int k = 0; k < 6; k++)
        {
          double z = pr.uni(0, a.getZCut(a.getNCut() - 1) + 2.);
          VectorDouble fa = a.z2factor(z, ifacs), fb = b.z2factor(z, ifacs);
          c.integer("z2factor.size", (long)fa.size(), (long)fb.size());
          for (size_t i = 0; i < std::min(fa.size(), fb.size()); i++) c.numScaled("z2factor", fa[i], fb[i], 1., 1e3, fmt("z=%g [%zu]", z, i));
        }
      }
      if (a.getNCut() == b.getNCut() && a.getNCut() > 0 && !c.differs({"stats", "zcut", "scoef", "mu"}))
        c.numScaled("computeVariance", a.computeVariance(0.7), b.computeVariance(0.7), 1., 1e3);
    },
    [](const AnamDiscreteDD& a, Cmp& c) {
      c.setSection("invariant");
      c.truth("zcut-size", (int)a.getZCut().size() == a.getNCut(), fmt("%zu cuts stored, ncut=%d", a.getZCut().size(), a.getNCut()));
      (void)a.toString();
      if (a.getNCut() > 0 && (int)a.getZCut().size() == a.getNCut()) (void)a.computeVariance(0.7);
    }));

  reg.push_back(mkEntry<AnamDiscreteIR>(
    "AnamDiscreteIR", "AnamDiscreteIR",
    [](Rng& r, bool thorough, std::string& sig) {
      int ncut = r.irange(1, thorough ? 8 : 4);
      AnamDiscreteIR* a = AnamDiscreteIR::create(r.coin(0.5) ? 0. : r.uni(0.1, 0.9));
      VectorDouble zcut(ncut);
      double z = 0.5;
      for (auto& v : zcut) { z += r.uni(0.5, 2.5); v = z; }
      a->setZCut(zcut);
      int fit = r.coin(0.6);
      if (fit) fit = a->fitFromArray(skewedSample(r, r.irange(60, 150)));
      if (!fit)
      {
        VectorDouble stats((ncut + 1) * a->getNElem());
        for (auto& v : stats) v = r.uni(0.05, 1.);
        a->reset(ncut, r.uni(0.1, 0.9), zcut, stats);
      }
      sig += fmt(":ncut=%d:fit=%d", std::min(ncut, 3), fit);
      return a;
    },
    [cmpDiscrete](const AnamDiscreteIR& a, const AnamDiscreteIR& b, Cmp& c) {
      c.setSection("getters");
      cmpDiscrete(a, b, c);
      c.num("rcoef", a.getRCoef(), b.getRCoef());
      if (!c.setSection("behaviour")) return;
      if (a.getNCut() == b.getNCut() && a.getNCut() > 0)
      {
        VectorInt ifacs;
        for (int i = 0; i < a.getNCut(); i++) ifacs.push_back(i + 1);
        Rng pr(98);
        for (int k = 0; k < 6; k++)
        {
          double z = pr.uni(0, a.getZCut(a.getNCut() - 1) + 2.);
          VectorDouble fa = a.z2factor(z, ifacs), fb = b.z2factor(z, ifacs);
          c.integer("z2factor.size", (long)fa.size(), (long)fb.size());
          for (size_t i = 0; i < std::min(fa.size(), fb.size()); i++) c.numScaled("z2factor", fa[i], fb[i], 1., 1e3, fmt("z=%g [%zu]", z, i));
        }
        c.numScaled("computeVariance", a.computeVariance(0.7), b.computeVariance(0.7), 1., 1e3);
      }
    },
    [](const AnamDiscreteIR& a, Cmp& c) {
      c.setSection("invariant");
      c.truth("zcut-size", (int)a.getZCut().size() == a.getNCut(), fmt("%zu cuts stored, ncut=%d", a.getZCut().size(), a.getNCut()));
      (void)a.toString();
      if (a.getNCut() > 0 && (int)a.getZCut().size() == a.getNCut()) (void)a.z2factor(1., {1});
    }));
}

// ============================================================================================================
// DbLine, DbGraphO, meshes, DbMesh*
// ============================================================================================================
// table (by sample) with ndim coordinates + nvar variables; names/locators filled accordingly
inline void genTable(Rng& r, int nech, int ndim, int nvar, VectorDouble& tab, VectorString& names, VectorString& locs)
{
  int ncol = ndim + nvar;
  tab.resize((size_t)nech * ncol);
  for (int i = 0; i < nech; i++)
    for (int j = 0; j < ncol; j++) tab[(size_t)i * ncol + j] = (j < ndim) ? r.uni(-50, 50) : anyValue(r, 0.1);
  names.clear();
  locs.clear();
  for (int j = 0; j < ndim; j++) { names.push_back(fmt("x%d", j + 1)); locs.push_back(fmt("x%d", j + 1)); }
  for (int j = 0; j < nvar; j++) { names.push_back(pickName(r, j)); locs.push_back(fmt("z%d", j + 1)); }
}

// simplicial mesh on a jittered lattice: segments (1-D), 2 triangles per cell (2-D), 6 Kuhn tetrahedra per cell (3-D)
inline void genSimplices(Rng& r, int ndim, int n, VectorDouble& apicesByRow, VectorInt& meshesByRow, int& napices, int& nmeshes)
{
  std::vector<int> nn(ndim, n);
  napices = 1;
  for (int d = 0; d < ndim; d++) napices *= nn[d];
  apicesByRow.resize((size_t)napices * ndim);
  auto rank = [&](const std::vector<int>& idx) {
    int rk = 0, m = 1;
    for (int d = 0; d < ndim; d++) { rk += idx[d] * m; m *= nn[d]; }
    return rk;
  };
  std::vector<int> idx(ndim, 0);
  for (int rk = 0; rk < napices; rk++)
  {
    int t = rk;
    for (int d = 0; d < ndim; d++) { idx[d] = t % nn[d]; t /= nn[d]; }
    for (int d = 0; d < ndim; d++) apicesByRow[(size_t)rk * ndim + d] = idx[d] * 2.5 + r.uni(-0.6, 0.6) + 7.;
  }
  meshesByRow.clear();
  std::vector<int> perm(ndim);
  int ncell = 1;
  for (int d = 0; d < ndim; d++) ncell *= (nn[d] - 1);
  for (int cell = 0; cell < ncell; cell++)
  {
    int t = cell;
    std::vector<int> base(ndim);
    for (int d = 0; d < ndim; d++) { base[d] = t % (nn[d] - 1); t /= (nn[d] - 1); }
    for (int d = 0; d < ndim; d++) perm[d] = d;
    do
    {
      std::vector<int> v = base;
      meshesByRow.push_back(rank(v));
      for (int k = 0; k < ndim; k++) { v[perm[k]]++; meshesByRow.push_back(rank(v)); }
    } while (std::next_permutation(perm.begin(), perm.end()));
  }
  nmeshes = (int)meshesByRow.size() / (ndim + 1);
}

inline void cmpMesh(const AMesh& a, const AMesh& b, Cmp& c, const std::string& pre = "")
{
  c.setSection("getters");
  c.integer(pre + "ndim", a.getNDim(), b.getNDim());
  if (a.getNDim() != b.getNDim()) return; // every other count derives from it (getNApexPerMesh = ndim + 1, ...)
  c.integer(pre + "napices", a.getNApices(), b.getNApices());
  c.integer(pre + "nmeshes", a.getNMeshes(), b.getNMeshes());
  c.integer(pre + "napexpermesh", a.getNApexPerMesh(), b.getNApexPerMesh());
  bool same = a.getNDim() == b.getNDim() && a.getNApices() == b.getNApices() && a.getNMeshes() == b.getNMeshes() &&
              a.getNApexPerMesh() == b.getNApexPerMesh();
  if (!same) return;
  int ndim = a.getNDim();
  // the bounding box of a rotated grid is x0 + R * (i * dx): every coordinate carries the rounding of the largest
  // term, so the scale is the largest |coordinate| of the box, not the (possibly near-zero) coordinate itself
  double scale = 0;
  for (int d = 0; d < ndim; d++) scale = std::max(scale, std::max(std::fabs(a.getExtendMin(d)), std::fabs(a.getExtendMax(d))));
  int nap = a.getNApices(), nme = a.getNMeshes(), npm = a.getNApexPerMesh();
  for (int i = 0; i < nap; i += std::max(1, nap / 40))
    for (int d = 0; d < ndim; d++) c.numScaled(pre + "apexCoor", a.getApexCoor(i, d), b.getApexCoor(i, d), scale, 8., fmt("[%d,%d]", i, d));
  for (int m = 0; m < nme; m += std::max(1, nme / 60))
    for (int k = 0; k < npm; k++) c.integer(pre + "apex", a.getApex(m, k), b.getApex(m, k), fmt("[%d,%d]", m, k));
  if (c.setSection("behaviour"))
    for (int m = 0; m < nme; m += std::max(1, nme / 10))
    {
      c.numScaled(pre + "getMeshSize", a.getMeshSize(m), b.getMeshSize(m), std::pow(std::max(scale, 1e-300), ndim) * 1e-3, 50., fmt("[%d]", m));
      for (int d = 0; d < ndim; d++) c.numScaled(pre + "getCenterCoordinate", a.getCenterCoordinate(m, d), b.getCenterCoordinate(m, d), scale, 8.);
    }
  // the bounding box comes last: a reloaded MeshEStandard has none (its _deserialize does not rebuild it) and
  // getExtendMin() then indexes an empty vector; everything above is compared before that can end the case
  c.setSection("getters");
  for (int d = 0; d < ndim; d++)
  {
    c.numScaled(pre + "extendMin", a.getExtendMin(d), b.getExtendMin(d), scale, 8., fmt("[%d]", d));
    c.numScaled(pre + "extendMax", a.getExtendMax(d), b.getExtendMax(d), scale, 8., fmt("[%d]", d));
  }
}

inline void exerciseMesh(const AMesh& m, Cmp& c)
{
  c.setSection("invariant");
  int nap = m.getNApices(), nme = m.getNMeshes(), npm = m.getNApexPerMesh(), ndim = m.getNDim();
  c.truth("mesh-dims", nap >= 0 && nme >= 0 && ndim >= 0, fmt("napices=%d nmeshes=%d ndim=%d", nap, nme, ndim));
  (void)m.toString();
  bool ok = true;
  for (int i = 0; i < nme && i < 200 && ok; i++)
    for (int k = 0; k < npm; k++)
    {
      int ap = m.getApex(i, k);
      if (ap < 0 || ap >= nap) { ok = false; c.truth("apex-in-range", false, fmt("mesh %d corner %d -> apex %d of %d", i, k, ap, nap)); break; }
    }
  if (ok && nme > 0 && ndim > 0)
  {
    (void)m.getMeshSize(0);
    (void)m.getApexCoor(0, 0);
  }
}

inline void registerMeshes(std::vector<Entry>& reg)
{
  reg.push_back(mkEntry<DbLine>(
    "DbLine", "DbLine",
    [](Rng& r, bool thorough, std::string& sig) {
      int ndim = r.irange(1, 3), nvar = r.irange(0, 2);
      setSpace(ndim);
      int nline = r.irange(1, thorough ? 8 : 4);
      VectorInt counts(nline);
      int nech = 0;
      for (auto& v : counts) { v = r.irange(1, thorough ? 15 : 6); nech += v; }
      VectorDouble tab;
      VectorString names, locs;
      genTable(r, nech, ndim, nvar, tab, names, locs);
      bool rank = r.coin(0.4);
      sig += fmt(":ndim=%d:nvar=%d:nline=%d:rank=%d", ndim, nvar, std::min(nline, 2), (int)rank);
      return DbLine::createFromSamples(nech, ELoadBy::SAMPLE, tab, counts, names, locs, rank);
    },
    [](const DbLine& a, const DbLine& b, Cmp& c) {
      c.setSection("getters");
      c.integer("nline", a.getLineNumber(), b.getLineNumber());
      int n = std::min(a.getLineNumber(), b.getLineNumber());
      for (int i = 0; i < n; i++) c.integer("lineSampleCount", a.getLineSampleCount(i), b.getLineSampleCount(i), fmt("[%d]", i));
      cmpDbTable(a, b, c);
      if (!c.setSection("behaviour")) return;
      c.boolean("isConsistent", a.isConsistent(), b.isConsistent());
      if (a.getLineNumber() == b.getLineNumber() && a.getSampleNumber() == b.getSampleNumber())
      {
        for (int i = 0; i < n; i++) c.numScaled("getLineLength", a.getLineLength(i), b.getLineLength(i), 100., 20., fmt("[%d]", i));
        for (int i = 0; i < a.getSampleNumber(); i++) c.integer("getLineBySample", a.getLineBySample(i), b.getLineBySample(i), fmt("[%d]", i));
      }
    },
    [](const DbLine& a, Cmp& c) {
      exerciseDb(a, c);
      c.truth("line-consistent", a.isConsistent(), "DbLine::isConsistent() is false on a loaded object");
      if (a.isConsistent())
        for (int i = 0; i < a.getLineNumber() && i < 20; i++) (void)a.getLineLength(i);
    },
    [](const DbLine& a) { return a.getNDim(); }));

  reg.push_back(mkEntry<DbGraphO>(
    "DbGraphO", "DbGraphO",
    [](Rng& r, bool thorough, std::string& sig) {
      int ndim = r.irange(1, 3), nvar = r.irange(0, 2);
      setSpace(ndim);
      int nech = r.irange(2, thorough ? 40 : 12);
      VectorDouble tab;
      VectorString names, locs;
      genTable(r, nech, ndim, nvar, tab, names, locs);
      // oriented acyclic graph: arcs only from a lower to a higher rank
      NF_Triplet arcs;
      int narc = 0;
      for (int i = 0; i < nech - 1; i++)
      {
        int nout = r.irange(0, 2);
        for (int k = 0; k < nout; k++)
        {
          int j = r.irange(i + 1, nech - 1);
          arcs.add(i, j, r.coin(0.3) ? 1. : r.uni(0.1, 5.));
          narc++;
        }
      }
      arcs.force(nech, nech);
      bool rank = r.coin(0.4);
      sig += fmt(":ndim=%d:nvar=%d:arcs=%d:rank=%d", ndim, nvar, narc > 0, (int)rank);
      return DbGraphO::createFromSamples(nech, ELoadBy::SAMPLE, tab, arcs, names, locs, rank);
    },
    [](const DbGraphO& a, const DbGraphO& b, Cmp& c) {
      c.setSection("getters");
      c.integer("narcs", a.getArcNumber(), b.getArcNumber());
      c.integer("nnodes", a.getNodeNumber(), b.getNodeNumber());
      int n = std::min(a.getArcNumber(), b.getArcNumber());
      for (int i = 0; i < n; i++) c.num("arcValue", a.getArcValue(i), b.getArcValue(i), fmt("[%d]", i));
      cmpDbTable(a, b, c);
      if (!c.setSection("behaviour")) return;
      c.boolean("isConsistent", a.isConsistent(), b.isConsistent());
      if (a.getArcNumber() == b.getArcNumber() && a.getSampleNumber() == b.getSampleNumber() && a.isConsistent() && b.isConsistent())
      {
        int nn = a.getSampleNumber();
        for (int i = 0; i < nn; i++)
        {
          c.ivec("getIndicesNextDown", a.getIndicesNextDown(i), b.getIndicesNextDown(i));
          c.boolean("isEndDown", a.isEndDown(i), b.isEndDown(i));
        }
        for (int i = 0; i < n; i++)
          for (int d = 0; d < a.getNDim(); d++) c.vec("getArc", a.getArc(i, d), b.getArc(i, d));
      }
    },
    [](const DbGraphO& a, Cmp& c) {
      exerciseDb(a, c);
      c.truth("graph-consistent", a.isConsistent(), "DbGraphO::isConsistent() is false on a loaded object");
      if (a.isConsistent() && a.getSampleNumber() > 0) (void)a.getIndicesNextDown(0);
    },
    [](const DbGraphO& a) { return a.getNDim(); }));

  reg.push_back(mkEntry<MeshETurbo>(
    "MeshETurbo", "MeshETurbo",
    [](Rng& r, bool thorough, std::string& sig) {
      int ndim = r.irange(1, 3);
      setSpace(ndim);
      int cap = thorough ? 9 : 5;
      VectorInt nx(ndim);
      VectorDouble dx(ndim), x0(ndim), angles;
      for (int i = 0; i < ndim; i++) { nx[i] = r.irange(2, cap); dx[i] = r.uni(0.2, 5); x0[i] = r.uni(-100, 100); }
      int rot = (ndim == 1) ? 0 : r.irange(0, 1);
      if (rot)
      {
        angles.resize(ndim, 0.);
        angles[0] = r.uni(-180, 180);
        if (ndim == 3 && r.coin()) { angles[1] = r.uni(-90, 90); angles[2] = r.uni(-180, 180); }
      }
      bool polar = r.coin(0.4), mask = r.coin(0.4);
      int mode   = r.irange(0, 2);
      sig += fmt(":ndim=%d:rot=%d:polar=%d:mask=%d:mode=%d", ndim, rot, (int)polar, (int)mask, mode);
      std::unique_ptr<DbGrid> g(DbGrid::create(nx, dx, x0, angles));
      if (mask)
      {
        VectorDouble sel(g->getSampleNumber());
        for (auto& v : sel) v = r.coin(0.75) ? 1. : 0.;
        sel[0] = 1.;
        g->addColumns(sel, "sel", ELoc::SEL, 0);
      }
      MeshETurbo* m = MeshETurbo::createFromGrid(g.get(), polar, false, mode);
      // with a masked grid and storing mode 0 the ORIGINAL sometimes reports no apex and no mesh at all (a mesh
      // construction matter, not a save/reload one): such an instance is not a usable original
      if (m != nullptr && (m->getNApices() <= 0 || m->getNMeshes() <= 0)) { delete m; throw vh::SkipCase{"degenerate-original-mesh"}; }
      return m;
    },
    [](const MeshETurbo& a, const MeshETurbo& b, Cmp& c) { cmpMesh(a, b, c); }, [](const MeshETurbo& a, Cmp& c) { exerciseMesh(a, c); },
    [](const MeshETurbo& a) { return a.getNDim(); }));

  reg.push_back(mkEntry<MeshEStandard>(
    "MeshEStandard", "MeshEStandard",
    [](Rng& r, bool thorough, std::string& sig) {
      int ndim = r.irange(1, 3);
      setSpace(ndim);
      int n = (ndim == 3) ? r.irange(2, 3) : r.irange(2, thorough ? 8 : 5);
      VectorDouble ap;
      VectorInt me;
      int nap, nme;
      genSimplices(r, ndim, n, ap, me, nap, nme);
      MatrixRectangular apices(nap, ndim);
      for (int i = 0; i < nap; i++)
        for (int d = 0; d < ndim; d++) apices.setValue(i, d, ap[(size_t)i * ndim + d]);
      MatrixInt meshes(nme, ndim + 1);
      for (int i = 0; i < nme; i++)
        for (int k = 0; k <= ndim; k++) meshes.setValue(i, k, me[(size_t)i * (ndim + 1) + k]);
      sig += fmt(":ndim=%d", ndim);
      return MeshEStandard::createFromExternal(apices, meshes, false);
    },
    [](const MeshEStandard& a, const MeshEStandard& b, Cmp& c) { cmpMesh(a, b, c); },
    [](const MeshEStandard& a, Cmp& c) { exerciseMesh(a, c); }, [](const MeshEStandard& a) { return a.getNDim(); }));

  reg.push_back(mkEntry<DbMeshTurbo>(
    "DbMeshTurbo", "DbMeshTurbo",
    [](Rng& r, bool, std::string& sig) {
      int ndim = r.irange(1, 3);
      setSpace(ndim);
      VectorInt nx(ndim);
      VectorDouble dx(ndim), x0(ndim), angles;
      for (int i = 0; i < ndim; i++) { nx[i] = r.irange(2, 4); dx[i] = r.uni(0.2, 5); x0[i] = r.uni(-100, 100); }
      int rot = (ndim == 1) ? 0 : r.irange(0, 1);
      if (rot) { angles.resize(ndim, 0.); angles[0] = r.uni(-180, 180); }
      DbMeshTurbo* d = DbMeshTurbo::create(nx, dx, x0, angles);
      if (d == nullptr) return d;
      std::string s = addDbColumns(d, r, false);
      sig += fmt(":ndim=%d:rot=%d:", ndim, rot) + s;
      return d;
    },
    [](const DbMeshTurbo& a, const DbMeshTurbo& b, Cmp& c) {
      cmpGridGeom(a, b, c);
      cmpDbTable(a, b, c, gridScale(a));
      c.setSection("getters");
      c.integer("mesh.napices", a.getNApices(), b.getNApices());
      c.integer("mesh.nmeshes", a.getNMeshes(), b.getNMeshes());
      if (a.getNApices() == b.getNApices() && a.getNMeshes() == b.getNMeshes() && a.getNDim() == b.getNDim())
      {
        int nme = a.getNMeshes(), nap = a.getNApices(), ndim = a.getNDim();
        for (int m = 0; m < nme; m += std::max(1, nme / 30))
          for (int k = 0; k <= ndim; k++) c.integer("mesh.apex", a.getApex(m, k), b.getApex(m, k), fmt("[%d,%d]", m, k));
        for (int i = 0; i < nap; i += std::max(1, nap / 30))
          for (int d = 0; d < ndim; d++) c.numScaled("mesh.apexCoor", a.getApexCoor(i, d), b.getApexCoor(i, d), gridScale(a), 8., fmt("[%d,%d]", i, d));
      }
    },
    [](const DbMeshTurbo& a, Cmp& c) {
      exerciseDb(a, c);
      c.truth("grid-consistent", a.isConsistent(), fmt("grid has %d nodes, table has %d samples", a.getNTotal(), a.getSampleNumber()));
      if (a.getNMeshes() > 0 && a.getNDim() > 0) (void)a.getApex(0, 0);
    },
    [](const DbMeshTurbo& a) { return a.getNDim(); }));

  reg.push_back(mkEntry<DbMeshStandard>(
    "DbMeshStandard", "DbMeshStandard",
    [](Rng& r, bool, std::string& sig) {
      int ndim = r.irange(1, 3);
      setSpace(ndim);
      int n = (ndim == 3) ? 2 : r.irange(2, 4);
      VectorDouble ap;
      VectorInt me;
      int nap, nme;
      genSimplices(r, ndim, n, ap, me, nap, nme);
      int nvar = r.irange(0, 2);
      // the table has one sample per apex: coordinates = apices
      VectorDouble tab((size_t)nap * (ndim + nvar));
      for (int i = 0; i < nap; i++)
      {
        for (int d = 0; d < ndim; d++) tab[(size_t)i * (ndim + nvar) + d] = ap[(size_t)i * ndim + d];
        for (int v = 0; v < nvar; v++) tab[(size_t)i * (ndim + nvar) + ndim + v] = anyValue(r, 0.1);
      }
      VectorString names, locs;
      for (int d = 0; d < ndim; d++) { names.push_back(fmt("x%d", d + 1)); locs.push_back(fmt("x%d", d + 1)); }
      for (int v = 0; v < nvar; v++) { names.push_back(pickName(r, v)); locs.push_back(fmt("z%d", v + 1)); }
      sig += fmt(":ndim=%d:nvar=%d", ndim, nvar);
      return DbMeshStandard::create(ndim, ndim + 1, ap, me, ELoadBy::SAMPLE, tab, names, locs);
    },
    [](const DbMeshStandard& a, const DbMeshStandard& b, Cmp& c) {
      cmpDbTable(a, b, c);
      c.setSection("getters");
      c.integer("mesh.napices", a.getNApices(), b.getNApices());
      c.integer("mesh.nmeshes", a.getNMeshes(), b.getNMeshes());
      if (a.getNApices() == b.getNApices() && a.getNMeshes() == b.getNMeshes() && a.getNDim() == b.getNDim())
      {
        int nme = a.getNMeshes(), nap = a.getNApices(), ndim = a.getNDim();
        for (int m = 0; m < nme; m += std::max(1, nme / 30))
          for (int k = 0; k <= ndim; k++) c.integer("mesh.apex", a.getApex(m, k), b.getApex(m, k), fmt("[%d,%d]", m, k));
        for (int i = 0; i < nap; i += std::max(1, nap / 30))
          for (int d = 0; d < ndim; d++) c.num("mesh.apexCoor", a.getApexCoor(i, d), b.getApexCoor(i, d), fmt("[%d,%d]", i, d));
      }
    },
    [](const DbMeshStandard& a, Cmp& c) {
      exerciseDb(a, c);
      if (a.getNMeshes() > 0 && a.getNDim() > 0) (void)a.getApex(0, 0);
    },
    [](const DbMeshStandard& a) { return a.getNDim(); }));
}

// ============================================================================================================
// Rules, fractures, PolyElem
// ============================================================================================================
inline void genRuleNames(Rng& r, int depth, int& nfac, VectorString& out, bool onlyS, bool top = true)
{
  if (depth <= 0 || r.coin(top ? 0.05 : 0.35) || nfac >= 7)
  {
    out.push_back(fmt("F%d", ++nfac));
    return;
  }
  out.push_back((onlyS || r.coin(0.55)) ? "S" : "T");
  genRuleNames(r, depth - 1, nfac, out, onlyS, false);
  genRuleNames(r, depth - 1, nfac, out, onlyS, false);
}

inline void cmpRuleBase(const Rule& a, const Rule& b, Cmp& c)
{
  Cmp::Owner own(c, "Rule");
  c.setSection("getters");
  c.integer("modeRule", a.getModeRule().getValue(), b.getModeRule().getValue());
  c.num("rho", a.getRho(), b.getRho());
  c.integer("nfacies", a.getFaciesNumber(), b.getFaciesNumber());
  c.integer("ngrf", a.getGRFNumber(), b.getGRFNumber());
  if (!c.setSection("behaviour")) return;
  if (a.getFaciesNumber() != b.getFaciesNumber()) return;
  Rng pr(1357);
  for (int k = 0; k < 60; k++)
  {
    double y1 = pr.normal() * 1.3, y2 = pr.normal() * 1.3;
    c.integer("getFaciesFromGaussian", a.getFaciesFromGaussian(y1, y2), b.getFaciesFromGaussian(y1, y2), fmt("(%g,%g)", y1, y2));
  }
  for (int f = 1; f <= a.getFaciesNumber(); f++) c.vec("getThresh", a.getThresh(f), b.getThresh(f));
}

inline void registerRulesFrac(std::vector<Entry>& reg)
{
  reg.push_back(mkEntry<Rule>(
    "Rule", "Rule",
    [](Rng& r, bool thorough, std::string& sig) {
      VectorString names;
      int nfac = 0;
      genRuleNames(r, thorough ? 4 : 3, nfac, names, false);
      double rho = r.coin(0.5) ? 0. : r.uni(-0.9, 0.9);
      sig += fmt(":nfac=%d:rho=%d", std::min(nfac, 4), rho != 0);
      return Rule::createFromNames(names, rho);
    },
    [](const Rule& a, const Rule& b, Cmp& c) { cmpRuleBase(a, b, c); },
    [](const Rule& a, Cmp& c) {
      (void)c;
      (void)a.toString();
      if (a.getMainNode() != nullptr) { (void)a.getFaciesNumber(); (void)a.getFaciesFromGaussian(0.1, -0.2); }
    }));

  reg.push_back(mkEntry<RuleShift>(
    "RuleShift", "RuleShift",
    [](Rng& r, bool, std::string& sig) {
      int nfac = r.irange(2, 5);
      VectorDouble shift = {r.uni(-3, 3), r.uni(-3, 3), r.coin() ? 0. : r.uni(-3, 3)};
      sig += fmt(":nfac=%d", nfac);
      return RuleShift::createFromFaciesCount(nfac, shift);
    },
    [](const RuleShift& a, const RuleShift& b, Cmp& c) {
      cmpRuleBase(a, b, c);
      c.setSection("getters");
      c.vec("shift", a.getShift(), b.getShift());
      c.num("slope", a.getSlope(), b.getSlope());
      c.num("shDown", a.getShDown(), b.getShDown());
      c.num("shDsup", a.getShDsup(), b.getShDsup());
    },
    [](const RuleShift& a, Cmp& c) {
      (void)c;
      (void)a.toString();
      if (a.getMainNode() != nullptr) (void)a.getFaciesFromGaussian(0.1, -0.2);
    }));

  reg.push_back(mkEntry<RuleShadow>(
    "RuleShadow", "RuleShadow",
    [](Rng& r, bool, std::string& sig) {
      VectorDouble shift = {r.uni(0.1, 3), r.uni(-3, 3), r.coin() ? 0. : r.uni(-3, 3)};
      sig += ":std";
      return new RuleShadow(r.uni(5, 60), r.uni(0.5, 3), r.uni(0.5, 3), shift);
    },
    [](const RuleShadow& a, const RuleShadow& b, Cmp& c) {
      cmpRuleBase(a, b, c);
      c.setSection("getters");
      c.vec("shift", a.getShift(), b.getShift());
      c.num("slope", a.getSlope(), b.getSlope());
      c.num("shDown", a.getShDown(), b.getShDown());
      c.num("shDsup", a.getShDsup(), b.getShDsup());
      c.num("dMax", a.getDMax(), b.getDMax());
      c.num("tgte", a.getTgte(), b.getTgte());
      c.num("incr", a.getIncr(), b.getIncr());
    },
    [](const RuleShadow& a, Cmp& c) {
      (void)c;
      (void)a.toString();
      if (a.getMainNode() != nullptr) (void)a.getFaciesFromGaussian(0.1, -0.2);
    }));

  auto cmpFamily = [](const FracFamily& a, const FracFamily& b, Cmp& c, const std::string& pre) {
    c.num(pre + "orient", a.getOrient(), b.getOrient());
    c.num(pre + "dorient", a.getDorient(), b.getDorient());
    c.num(pre + "theta0", a.getTheta0(), b.getTheta0());
    c.num(pre + "alpha", a.getAlpha(), b.getAlpha());
    c.num(pre + "ratcst", a.getRatcst(), b.getRatcst());
    c.num(pre + "prop1", a.getProp1(), b.getProp1());
    c.num(pre + "prop2", a.getProp2(), b.getProp2());
    c.num(pre + "aterm", a.getAterm(), b.getAterm());
    c.num(pre + "bterm", a.getBterm(), b.getBterm());
    c.num(pre + "range", a.getRange(), b.getRange());
  };
  auto cmpFault = [](const FracFault& a, const FracFault& b, Cmp& c, const std::string& pre) {
    c.num(pre + "coord", a.getCoord(), b.getCoord());
    c.num(pre + "orient", a.getOrient(), b.getOrient());
    c.integer(pre + "nfamilies", a.getNFamilies(), b.getNFamilies());
    c.vec(pre + "thetal", a.getThetal(), b.getThetal());
    c.vec(pre + "thetar", a.getThetar(), b.getThetar());
    c.vec(pre + "rangel", a.getRangel(), b.getRangel());
    c.vec(pre + "ranger", a.getRanger(), b.getRanger());
  };
  auto genFamily = [](Rng& r) {
    return FracFamily(r.uni(0, 180), r.uni(0, 30), r.uni(0.001, 0.1), r.uni(0, 2), r.u01(), r.u01(), r.u01(), r.uni(0, 2), r.uni(0, 2),
                      r.coin(0.2) ? hardValue(r, true) : r.uni(1, 50));
  };
  auto genFault = [](Rng& r, int nfam) {
    FracFault f(r.uni(0, 100), r.uni(0, 180));
    for (int i = 0; i < nfam; i++) f.addFaultPerFamily(r.uni(0, 1), r.uni(0, 1), r.uni(1, 30), r.uni(1, 30));
    return f;
  };

  reg.push_back(mkEntry<FracEnviron>(
    "FracEnviron", "Fracture Environ",
    [genFamily, genFault](Rng& r, bool, std::string& sig) {
      FracEnviron* e = FracEnviron::create(r.uni(50, 200), r.uni(50, 200), r.uni(0, 10), r.uni(0, 10), r.uni(1, 10), r.uni(0, 3));
      int nfam = r.irange(0, 3), nfault = r.irange(0, 2);
      for (int i = 0; i < nfam; i++) e->addFamily(genFamily(r));
      // a fault with no family is written as empty array lines, which the array reader cannot take back: nfam >= 1
      for (int i = 0; i < nfault && nfam > 0; i++) e->addFault(genFault(r, nfam));
      sig += fmt(":nfam=%d:nfault=%d", nfam, nfam > 0 ? nfault : 0);
      return e;
    },
    [cmpFamily, cmpFault](const FracEnviron& a, const FracEnviron& b, Cmp& c) {
      c.setSection("getters");
      c.num("xmax", a.getXmax(), b.getXmax());
      c.num("ymax", a.getYmax(), b.getYmax());
      c.num("deltax", a.getDeltax(), b.getDeltax());
      c.num("deltay", a.getDeltay(), b.getDeltay());
      c.num("mean", a.getMean(), b.getMean());
      c.num("stdev", a.getStdev(), b.getStdev());
      c.integer("nfamilies", a.getNFamilies(), b.getNFamilies());
      c.integer("nfaults", a.getNFaults(), b.getNFaults());
      for (int i = 0; i < std::min(a.getNFamilies(), b.getNFamilies()); i++) cmpFamily(a.getFamily(i), b.getFamily(i), c, "family.");
      for (int i = 0; i < std::min(a.getNFaults(), b.getNFaults()); i++) cmpFault(a.getFault(i), b.getFault(i), c, "fault.");
      if (!c.setSection("behaviour")) return;
      c.num("getXextend", a.getXextend(), b.getXextend());
    },
    [](const FracEnviron& a, Cmp& c) { (void)c; (void)a.toString(); (void)a.getXextend(); }));

  reg.push_back(mkEntry<FracFamily>(
    "FracFamily", "Family", [genFamily](Rng& r, bool, std::string& sig) { sig += ":std"; return new FracFamily(genFamily(r)); },
    [cmpFamily](const FracFamily& a, const FracFamily& b, Cmp& c) { c.setSection("getters"); cmpFamily(a, b, c, ""); },
    [](const FracFamily& a, Cmp& c) { (void)c; (void)a.toString(); }));

  reg.push_back(mkEntry<FracFault>(
    "FracFault", "FracFault",
    [genFault](Rng& r, bool, std::string& sig) {
      int nfam = r.irange(1, 4);
      sig += fmt(":nfam=%d", nfam);
      return new FracFault(genFault(r, nfam));
    },
    [cmpFault](const FracFault& a, const FracFault& b, Cmp& c) {
      c.setSection("getters");
      cmpFault(a, b, c, "");
      if (!c.setSection("behaviour")) return;
      // coord + cote * tan(orient): d tan / tan = d(theta) / (sin cos); orientations within 6 degrees of the vertical
      // asymptote amplify the 15-digit rounding of the angle beyond any fixed budget and are not probed
      double co = std::cos(a.getOrient() * 3.141592653589793 / 180.);
      if (std::fabs(co) > 0.1) c.numScaled("faultAbscissae", a.faultAbscissae(3.5), b.faultAbscissae(3.5), 100., 4. / (co * co));
    },
    [](const FracFault& a, Cmp& c) {
      c.setSection("invariant");
      (void)a.toString();
      size_t n = a.getThetal().size();
      c.truth("arrays-same-size", a.getThetar().size() == n && a.getRangel().size() == n && a.getRanger().size() == n, "per-family arrays differ in length");
    }));

  reg.push_back(mkEntry<PolyElem>(
    "PolyElem", "PolyElem",
    [](Rng& r, bool thorough, std::string& sig) {
      setSpace(2);
      VectorDouble x, y;
      genLine(r, r.irange(3, thorough ? 40 : 12), 0., x, y);
      int zl = r.irange(0, 3);
      sig += fmt(":zlim=%d", zl);
      return new PolyElem(x, y, (zl & 1) ? r.uni(-10, 0) : TEST, (zl & 2) ? r.uni(0, 10) : TEST);
    },
    [](const PolyElem& a, const PolyElem& b, Cmp& c) {
      c.setSection("getters");
      cmpLine(a, b, c, "");
      c.num("zmin", a.getZmin(), b.getZmin());
      c.num("zmax", a.getZmax(), b.getZmax());
      if (!c.setSection("behaviour")) return;
      if (a.getNPoints() == b.getNPoints()) c.numScaled("getSurface", a.getSurface(), b.getSurface(), 1e4, 20.);
    },
    [](const PolyElem& a, Cmp& c) {
      c.setSection("invariant");
      c.truth("xy-same-size", a.getX().size() == a.getY().size(), fmt("%zu x, %zu y", a.getX().size(), a.getY().size()));
      (void)a.toString();
      if (a.getNPoints() > 0) (void)a.getSurface();
    },
    [](const PolyElem&) { return 2; }));
}


// ============================================================================================================
// Grid exchange formats that are both written and read (src/OutputFormat): Zycor, IfpEn, Bmp
// ============================================================================================================
} // namespace c08
#include "OutputFormat/GridZycor.hpp"
#include "OutputFormat/GridIfpEn.hpp"
#include "OutputFormat/GridBmp.hpp"
namespace c08
{
struct Exchange
{
  std::string name;
  // a grid inside the domain the format class declares (mustBeGrid / mustBeForNDim / mustBeForRotation); cols = column
  // indices (UIDs) of the variables to be written
  std::function<DbGrid*(Rng&, bool, std::string&, VectorInt&)> makeGrid;
  std::function<int(const DbGrid*, const VectorInt&, const std::string&)> write;
  std::function<DbGrid*(const std::string&)> read;
  std::function<void(const DbGrid&, const VectorInt&, const DbGrid&, Cmp&)> compare;
};

inline DbGrid* exchGrid(Rng& r, int ndim, bool rot, int nvar, bool facies, std::string& sig, VectorInt& cols, int minN)
{
  setSpace(ndim);
  VectorInt nx(ndim);
  VectorDouble dx(ndim), x0(ndim), angles;
  for (int i = 0; i < ndim; i++)
  {
    nx[i] = r.irange(minN, i == 2 ? 3 : 7);
    dx[i] = r.uni(0.5, 20);
    x0[i] = r.uni(-1000, 1000);
  }
  if (rot) { angles.resize(ndim, 0.); angles[0] = r.uni(-170, 170); }
  DbGrid* g = DbGrid::create(nx, dx, x0, angles, ELoadBy::SAMPLE, VectorDouble(), VectorString(), VectorString(), false, false);
  int n = g->getSampleNumber();
  bool undef = r.coin(0.5);
  for (int iv = 0; iv < nvar; iv++)
  {
    VectorDouble z(n);
    for (auto& v : z)
    {
      if (undef && r.coin(0.15)) v = TEST;
      else if (facies) v = (double)r.irange(1, 5);      // category codes
      else v = r.normal() * 25. + 3. * iv;
    }
    int uid = g->addColumns(z, fmt("v%d", iv + 1), ELoc::Z, iv);
    cols.push_back(uid);
  }
  sig += fmt(":ndim=%d:rot=%d:nvar=%d:facies=%d:undef=%d", ndim, (int)rot, nvar, (int)facies, (int)undef);
  return g;
}

// six significant digits (printf %g / default ostream precision): relative 5e-6, expressed in units of that budget
inline void num6(Cmp& c, const std::string& field, double a, double b, double absTol, const std::string& where)
{
  Cmp::Stat& s = c.st(field);
  s.n++;
  bool ta = (a == TEST), tb = (b == TEST);
  if (ta || tb) { if (ta != tb) c.fail(field, fmt("%s undefined-ness differs: %.10g vs %.10g", where.c_str(), a, b)); return; }
  double tol = std::max(absTol, 5.1e-6 * std::max(std::fabs(a), std::fabs(b)));
  double err = std::fabs(a - b);
  if (std::isnan(err)) { c.fail(field, fmt("%s %.10g vs %.10g", where.c_str(), a, b)); return; }
  double ratio = tol > 0 ? err / tol : (err > 0 ? INFINITY : 0.);
  if (ratio <= 1.) s.maxRel = std::max(s.maxRel, ratio);
  else c.fail(field, fmt("%s %.10g vs %.10g", where.c_str(), a, b), ratio);
}

inline const std::vector<Exchange>& exchangeFormats()
{
  static std::vector<Exchange> X;
  if (!X.empty()) return X;

  // ---- Zycor: 2-D, no rotation (GridZycor::mustBeForNDim / mustBeForRotation), first selected variable;
  //      coordinates %13lf (6 decimals), values %15g (6 significant digits), undefined <-> 0.1E+31.
  //      The mesh is rebuilt as (xf - x0) / (nx - 1): a single-node axis cannot carry it, so nx >= 2.
  X.push_back({"GridZycor",
               [](Rng& r, bool, std::string& sig, VectorInt& cols) { return exchGrid(r, 2, false, 1, r.coin(0.2), sig, cols, 2); },
               [](const DbGrid* g, const VectorInt& cols, const std::string& path) {
                 GridZycor f(path.c_str(), g);
                 f.setCols(cols);
                 if (!f.isAuthorized()) return 1;
                 return f.writeInFile();
               },
               [](const std::string& path) { GridZycor f(path.c_str()); return f.readGridFromFile(); },
               [](const DbGrid& o, const VectorInt& cols, const DbGrid& b, Cmp& c) {
                 c.setSection("exchange");
                 c.integer("ndim", 2, b.getNDim());
                 if (b.getNDim() != 2) return;
                 for (int i = 0; i < 2; i++)
                 {
                   c.integer("nx", o.getNX(i), b.getNX(i), fmt("[%d]", i));
                   num6(c, "x0", o.getX0(i), b.getX0(i), 5.1e-7, fmt("[%d]", i));
                   // two coordinates rounded to 1e-6 / 2, divided by nx - 1
                   num6(c, "dx", o.getDX(i), b.getDX(i), 1.02e-6 / std::max(1, o.getNX(i) - 1), fmt("[%d]", i));
                 }
                 if (o.getNX(0) != b.getNX(0) || o.getNX(1) != b.getNX(1)) return;
                 int icolB = b.getColumnNumber() - 1; // the values are the last column of the grid read back
                 c.truth("has-values", icolB >= 0, "the grid read back has no column");
                 if (icolB < 0) return;
                 for (int i = 0; i < o.getSampleNumber(); i++)
                   num6(c, "values", o.getArray(i, cols[0]), b.getValueByColIdx(i, icolB), 0., fmt("[node %d]", i));
               }});

  // ---- IfpEn: rotation by the first angle only (mustBeForRotation(mode) = mode <= 1), several variables;
  //      every number goes through an ostream with the default precision (6 significant digits).
  //      The format has LAYER_COUNT but no vertical origin / mesh: only nx is compared along the third axis.
  X.push_back({"GridIfpEn",
               [](Rng& r, bool, std::string& sig, VectorInt& cols) {
                 int ndim = r.coin(0.3) ? 3 : 2;
                 return exchGrid(r, ndim, r.coin(0.4), r.irange(1, 3), r.coin(0.4), sig, cols, 1);
               },
               [](const DbGrid* g, const VectorInt& cols, const std::string& path) {
                 GridIfpEn f(path.c_str(), g);
                 f.setCols(cols);
                 if (!f.isAuthorized()) return 1;
                 return f.writeInFile();
               },
               [](const std::string& path) { GridIfpEn f(path.c_str()); return f.readGridFromFile(); },
               [](const DbGrid& o, const VectorInt& cols, const DbGrid& b, Cmp& c) {
                 c.setSection("exchange");
                 VectorInt nxo = o.getNXsExt(3);
                 c.truth("ndim>=2", b.getNDim() >= 2, fmt("grid read back has %d dimensions", b.getNDim()));
                 if (b.getNDim() < 2) return;
                 VectorInt nxb = b.getNXsExt(3);
                 for (int i = 0; i < 3; i++) c.integer("nx", nxo[i], nxb[i], fmt("[%d]", i));
                 for (int i = 0; i < 2; i++)
                 {
                   num6(c, "x0", o.getX0(i), b.getX0(i), 0., fmt("[%d]", i));
                   num6(c, "dx", o.getDX(i), b.getDX(i), 0., fmt("[%d]", i));
                 }
                 num6(c, "angle", o.getAngle(0), b.getAngle(0), 0., "");
                 if (nxo[0] != nxb[0] || nxo[1] != nxb[1] || nxo[2] != nxb[2]) return;
                 int ncol = (int)cols.size();
                 int first = b.getColumnNumber() - ncol; // variables are the last ncol columns read back
                 c.truth("has-values", first >= 0, fmt("the grid read back has %d columns for %d variables", b.getColumnNumber(), ncol));
                 if (first < 0) return;
                 for (int j = 0; j < ncol; j++)
                   for (int i = 0; i < o.getSampleNumber(); i++)
                   {
                     double vo = o.getArray(i, cols[j]);
                     // field id tells a category-like 3 (the FLOAT_NULL_VALUE of the writer) from the other values
                     std::string f = (ncol > 1) ? "values:multi-variable" : (vo == 3. ? "values:equal-to-3" : "values");
                     num6(c, f, vo, b.getValueByColIdx(i, first + j), 0., fmt("[node %d var %d]", i, j));
                   }
               }});

  // ---- Bmp: 2-D, no rotation, one variable. The pixel is a grey level out of 256 (no colour scale given): only the
  //      image size and the ORDER of the values can come back (quantisation documented by GridBmp::_colorRank:
  //      level = ncolor * (v - vmin) / (vmax - vmin)); geometry (origin, mesh) is not part of a bitmap.
  X.push_back({"GridBmp",
               [](Rng& r, bool, std::string& sig, VectorInt& cols) {
                 setSpace(2);
                 std::string s2;
                 DbGrid* g = exchGrid(r, 2, false, 1, false, s2, cols, 1);
                 // no undefined value: its colour (black) is also the colour of the lowest level
                 for (int i = 0; i < g->getSampleNumber(); i++)
                   if (g->getArray(i, cols[0]) == TEST) g->setArray(i, cols[0], r.normal() * 25.);
                 sig += s2;
                 return g;
               },
               [](const DbGrid* g, const VectorInt& cols, const std::string& path) {
                 GridBmp f(path.c_str(), g);
                 f.setCols(cols);
                 if (!f.isAuthorized()) return 1;
                 return f.writeInFile();
               },
               [](const std::string& path) { GridBmp f(path.c_str()); return f.readGridFromFile(); },
               [](const DbGrid& o, const VectorInt& cols, const DbGrid& b, Cmp& c) {
                 c.setSection("exchange");
                 c.integer("ndim", 2, b.getNDim());
                 if (b.getNDim() != 2) return;
                 for (int i = 0; i < 2; i++) c.integer("nx", o.getNX(i), b.getNX(i), fmt("[%d]", i));
                 if (o.getNX(0) != b.getNX(0) || o.getNX(1) != b.getNX(1)) return;
                 int icolB = b.getColumnNumber() - 1;
                 c.truth("has-values", icolB >= 0, "the grid read back has no column");
                 if (icolB < 0) return;
                 int n = o.getSampleNumber();
                 double vmin = 1e300, vmax = -1e300;
                 for (int i = 0; i < n; i++) { double v = o.getArray(i, cols[0]); vmin = std::min(vmin, v); vmax = std::max(vmax, v); }
                 // monotone: a strictly larger value never gets a lower grey level; separated by more than 2 levels of
                 // the 256 -> strictly higher level
                 double level = (vmax - vmin) * 1.02 / 256.;
                 for (int i = 0; i < n; i++)
                   for (int j = 0; j < n; j++)
                   {
                     double vi = o.getArray(i, cols[0]), vj = o.getArray(j, cols[0]);
                     double gi = b.getValueByColIdx(i, icolB), gj = b.getValueByColIdx(j, icolB);
                     if (vi < vj) c.truth("grey-order", gi <= gj, fmt("nodes %d,%d: values %g < %g but levels %g > %g", i, j, vi, vj, gi, gj));
                     if (level > 0 && vj - vi > 2.5 * level) c.truth("grey-separation", gj > gi, fmt("nodes %d,%d: values %g << %g but levels %g, %g", i, j, vi, vj, gi, gj));
                   }
               }});
  return X;
}

inline const std::vector<Entry>& registry()
{
  static std::vector<Entry> reg;
  if (reg.empty())
  {
    registerDbFamily(reg);
    registerModelNeigh(reg);
    registerVarioPoly(reg);
    registerAnam(reg);
    registerMeshes(reg);
    registerRulesFrac(reg);
  }
  return reg;
}

} // namespace c08
