// C08/C09 — run a piece of work in a forked child of the (ASan+UBSan) harness and classify how it ended.
//
//   ChildOutcome o = runChild([&](int wfd){ ...; writeAll(wfd, "one line result"); }, cpuSec, wallSec, "child.err");
//     o.kind == OK      the body returned; o.payload = what it wrote to the pipe
//     o.kind == DIED    signal / sanitizer abort / exit() from inside the body; o.errText = captured stderr
//     o.kind == TIMEOUT RLIMIT_CPU (SIGXCPU) or the parent's wall-clock watchdog fired (child killed)
//   CrashId id = crashIdentity(o, exePath)  -> kind ("asan-heap-buffer-overflow", "ubsan-...", "assert", "terminate-...",
//     "signal-11", "exit-1") and the first frame of the report that lies in /repo (function name, arguments stripped).
//     Works on symbolized reports and on symbolize=0 reports (module offsets are symbolized with llvm-symbolizer-14,
//     distinct stacks only, cached).
#pragma once
#include <cerrno>
#include <csignal>
#include <cstdio>
#include <cstdlib>
#include <cstring>
#include <fcntl.h>
#include <functional>
#include <map>
#include <poll.h>
#include <regex>
#include <string>
#include <sys/resource.h>
#include <sys/stat.h>
#include <sys/time.h>
#include <sys/wait.h>
#include <unistd.h>
#include <vector>

namespace c08
{
struct ChildOutcome
{
  enum Kind { OK, DIED, TIMEOUT } kind = OK;
  int status = 0;
  bool cpuLimitHit = false; // TIMEOUT caused by RLIMIT_CPU (SIGXCPU): CPU time, hence independent of machine load
  std::string payload;
  std::string errText;
};

inline void writeAll(int fd, const std::string& s)
{
  size_t off = 0;
  while (off < s.size())
  {
    ssize_t k = ::write(fd, s.data() + off, s.size() - off);
    if (k <= 0) { if (errno == EINTR) continue; break; }
    off += (size_t)k;
  }
}

inline double nowSec()
{
  struct timeval tv;
  gettimeofday(&tv, nullptr);
  return (double)tv.tv_sec + 1e-6 * (double)tv.tv_usec;
}

inline std::string slurp(const std::string& path, size_t maxBytes = 1 << 20)
{
  std::string out;
  FILE* f = fopen(path.c_str(), "rb");
  if (!f) return out;
  char buf[8192];
  size_t k;
  while ((k = fread(buf, 1, sizeof buf, f)) > 0 && out.size() < maxBytes) out.append(buf, k);
  fclose(f);
  return out;
}

inline ChildOutcome runChild(const std::function<void(int)>& body, double cpuSec, double wallSec, const std::string& errFile)
{
  ChildOutcome out;
  int fds[2];
  if (pipe(fds) != 0) { out.kind = ChildOutcome::DIED; out.errText = "pipe() failed"; return out; }
  fflush(stdout);
  fflush(stderr);
  pid_t pid = fork();
  if (pid < 0) { close(fds[0]); close(fds[1]); out.kind = ChildOutcome::DIED; out.errText = "fork() failed"; return out; }
  if (pid == 0)
  {
    close(fds[0]);
    int efd = open(errFile.c_str(), O_WRONLY | O_CREAT | O_TRUNC, 0644);
    if (efd >= 0) { dup2(efd, 2); close(efd); }
    int nfd = open("/dev/null", O_WRONLY);
    if (nfd >= 0) { dup2(nfd, 1); close(nfd); }
    struct rlimit rl;
    rl.rlim_cur = (rlim_t)std::max(1., cpuSec);
    rl.rlim_max = rl.rlim_cur + 1;
    setrlimit(RLIMIT_CPU, &rl);
    body(fds[1]);
    fflush(nullptr);
    _exit(0);
  }
  close(fds[1]);
  double deadline = nowSec() + wallSec;
  bool killed     = false;
  char buf[4096];
  while (true)
  {
    double left = deadline - nowSec();
    if (left <= 0)
    {
      kill(pid, SIGKILL);
      killed = true;
      break;
    }
    struct pollfd pfd = {fds[0], POLLIN, 0};
    int pr = poll(&pfd, 1, (int)std::min(left * 1000. + 1., 1000.));
    if (pr < 0 && errno != EINTR) break;
    if (pr > 0)
    {
      ssize_t k = read(fds[0], buf, sizeof buf);
      if (k > 0) { if (out.payload.size() < (1u << 22)) out.payload.append(buf, (size_t)k); }
      else if (k == 0) break; // EOF: child closed its end (exited)
      else if (errno != EINTR) break;
    }
  }
  close(fds[0]);
  int st = 0;
  // the pipe is closed: the child is exiting (or was killed); bounded wait
  while (true)
  {
    pid_t w = waitpid(pid, &st, WNOHANG);
    if (w == pid) break;
    if (w < 0 && errno != EINTR) break;
    if (nowSec() > deadline + 5.) { kill(pid, SIGKILL); killed = true; waitpid(pid, &st, 0); break; }
    if (nowSec() > deadline && !killed) { kill(pid, SIGKILL); killed = true; }
    usleep(200);
  }
  out.status = st;
  out.cpuLimitHit = !killed && WIFSIGNALED(st) && (WTERMSIG(st) == SIGXCPU || WTERMSIG(st) == SIGKILL);
  if (killed || (WIFSIGNALED(st) && WTERMSIG(st) == SIGXCPU) || (WIFSIGNALED(st) && WTERMSIG(st) == SIGKILL))
    out.kind = ChildOutcome::TIMEOUT;
  else if (WIFEXITED(st) && WEXITSTATUS(st) == 0)
    out.kind = ChildOutcome::OK;
  else
    out.kind = ChildOutcome::DIED;
  if (out.kind != ChildOutcome::OK) out.errText = slurp(errFile);
  return out;
}

// ------------------------------------------------------------------------------------------------------------
// crash identity
// ------------------------------------------------------------------------------------------------------------
struct CrashId
{
  std::string kind; // memory-error | ubsan-<what> | assert | terminate-<exception> | asan-stack-overflow | signal-<n> | exit-<n>
  std::string rawKind; // the sanitizer's own name (asan-heap-buffer-overflow, ubsan-reference-binding-to-null-..., ...)
  std::string func; // first /repo frame (function, no arguments) or "?"
  std::string loader; // innermost reader frame below it (X::_deserialize, createFromNF, readGridFromFile, ...) or ""
  std::string excerpt;
};

inline std::string stripFn(const std::string& fn)
{
  std::string out;
  int depth = 0;
  for (char ch : fn)
  {
    if (ch == '<' || ch == '(') depth++;
    else if (ch == '>' || ch == ')') depth--;
    else if (depth == 0) out += ch;
  }
  while (!out.empty() && out.back() == ' ') out.pop_back();
  const std::string cst = " const";
  if (out.size() > cst.size() && out.compare(out.size() - cst.size(), cst.size(), cst) == 0) out.erase(out.size() - cst.size());
  size_t sp = out.rfind(' ');
  if (sp != std::string::npos) out = out.substr(sp + 1);
  return out;
}

inline bool repoFile(const std::string& f)
{
  return f.compare(0, 10, "/repo/src/") == 0 || f.compare(0, 14, "/repo/include/") == 0 || f.compare(0, 16, "/repo/3rd-party/") == 0;
}
// accessors that only say "an index was wrong", not who computed it: skipped when looking for the responsible frame
inline bool boringFrame(const std::string& fn, const std::string& file)
{
  if (fn.find("operator[]") != std::string::npos || fn.find("operator()") != std::string::npos) return true;
  if (file.find("/Basic/VectorT.hpp") != std::string::npos || file.find("/Basic/VectorNumT.hpp") != std::string::npos) return true;
  return false;
}

inline bool loaderFrame(const std::string& fn)
{
  for (const char* pat : {"::_deserialize", "::deserialize", "createFromNF", "readGridFromFile", "readFromFile", "createFromCSV",
                          "resetFromCSV", "csv_table_read", "::_fileOpenRead"})
    if (fn.find(pat) != std::string::npos) return true;
  return false;
}

// Position and raw kind of the FATAL message of a report. UBSan's signed-integer-overflow and float-cast-overflow are
// compiled as recoverable (advisory, DESIGN 5.5): their lines (and stacks) may precede the fatal message and are skipped.
struct Fatal { std::string kind; size_t pos = std::string::npos; };

inline Fatal findFatal(const std::string& err, int status)
{
  Fatal f;
  size_t best = std::string::npos;
  // fatal UBSan line
  size_t p = 0;
  while ((p = err.find("runtime error: ", p)) != std::string::npos)
  {
    size_t e         = err.find('\n', p);
    std::string what = err.substr(p + 15, (e == std::string::npos ? err.size() : e) - p - 15);
    p += 15;
    if (what.find("signed integer overflow") != std::string::npos || what.find("outside the range of representable values") != std::string::npos)
      continue;
    std::string w = std::regex_replace(what, std::regex("0x[0-9a-f]+"), "P");
    w             = std::regex_replace(w, std::regex("-?[0-9]+(\\.[0-9]+)?(e[+-]?[0-9]+)?"), "N");
    w             = std::regex_replace(w, std::regex("[^A-Za-z]+"), "-");
    while (!w.empty() && w.back() == '-') w.pop_back();
    f.kind = "ubsan-" + w.substr(0, 60);
    best   = err.rfind('\n', p) == std::string::npos ? 0 : err.rfind('\n', p);
    break;
  }
  auto consider = [&](size_t q, const std::string& k) {
    if (q != std::string::npos && q < best) { best = q; f.kind = k; }
  };
  size_t qa = err.find("Assertion `");
  if (qa == std::string::npos) qa = err.find("Assertion '");
  consider(qa, "assert");
  std::smatch m;
  static const std::regex reTerm("terminate called after throwing an instance of '([^']+)'");
  if (std::regex_search(err, m, reTerm)) consider((size_t)m.position(0), "terminate-" + std::string(m[1]));
  static const std::regex reAsan("ERROR: AddressSanitizer: ([A-Za-z0-9_-]+)");
  if (std::regex_search(err, m, reAsan))
  {
    std::string k = m[1];
    // the ABRT report that follows an assertion / UBSan abort only carries the stack of the abort
    if (k != "ABRT") consider((size_t)m.position(0), "asan-" + k);
    else if (best == std::string::npos) consider((size_t)m.position(0), "abort");
  }
  if (best == std::string::npos)
  {
    if (WIFSIGNALED(status)) f.kind = "signal-" + std::to_string(WTERMSIG(status));
    else if (WIFEXITED(status)) f.kind = "exit-" + std::to_string(WEXITSTATUS(status));
    else f.kind = "died";
  }
  f.pos = best;
  return f;
}

// One defect shows up under several sanitizer names depending on where the bad index / pointer happens to land (null
// binding for an empty vector, offset overflow for a negative index, heap-buffer-overflow, use-after-free or SEGV for a
// positive one): for the KEY they are one class, the raw name stays in the detail.
inline std::string normalizeKind(const std::string& k)
{
  for (const char* m : {"asan-heap-buffer-overflow", "asan-container-overflow", "asan-heap-use-after-free", "asan-SEGV",
                        "asan-stack-buffer-overflow", "asan-global-buffer-overflow", "asan-unknown-crash", "asan-use-after-poison",
                        "asan-stack-buffer-underflow", "asan-dynamic-stack-buffer-overflow", "asan-stack-use-after-return",
                        "asan-stack-use-after-scope", "asan-negative-size-param", "asan-bad-free", "asan-attempting", "asan-double-free",
                        "asan-memcpy-param-overlap", "asan-strcpy-param-overlap"})
    if (k.compare(0, strlen(m), m) == 0) return "memory-error";
  for (const char* m : {"ubsan-reference-binding-to-null", "ubsan-load-of-null", "ubsan-store-to-null", "ubsan-member-call-on-null",
                        "ubsan-member-access-within-null", "ubsan-addition-of-unsigned-offset", "ubsan-subtraction-of-unsigned-offset",
                        "ubsan-index-N-out-of-bounds", "ubsan-applying-non-zero-offset", "ubsan-applying-zero-offset",
                        "ubsan-load-of-misaligned", "ubsan-store-to-misaligned", "ubsan-reference-binding-to-misaligned",
                        "ubsan-load-of-address", "ubsan-member-call-on-address", "ubsan-member-access-within-address",
                        "ubsan-pointer-index-expression", "ubsan-null-pointer-passed", "ubsan-call-to-function"})
    if (k.compare(0, strlen(m), m) == 0) return "memory-error";
  if (k == "signal-11" || k == "signal-7") return "memory-error";
  return k;
}

// frames of the FIRST stack of the report: either symbolized ("in fn file:line") or raw module offsets
struct RawFrame { std::string fn, file; std::string off; };

inline std::vector<RawFrame> firstStack(const std::string& err)
{
  std::vector<RawFrame> fr;
  static const std::regex reSym("^\\s*#(\\d+)\\s+0x[0-9a-f]+\\s+in\\s+(.+?)\\s+(/[^\\s:]+):(\\d+)");
  static const std::regex reRaw("^\\s*#(\\d+)\\s+0x[0-9a-f]+\\s+(?:in\\s+\\S.*?\\s+)?\\((\\S+?)\\+0x([0-9a-f]+)\\)");
  size_t pos = 0;
  int last   = -1;
  while (pos < err.size())
  {
    size_t e         = err.find('\n', pos);
    std::string line = err.substr(pos, e == std::string::npos ? std::string::npos : e - pos);
    pos              = (e == std::string::npos) ? err.size() : e + 1;
    std::smatch m;
    if (std::regex_search(line, m, reSym))
    {
      int n = atoi(m[1].str().c_str());
      if (n <= last && !fr.empty()) break; // second stack starts
      last = n;
      fr.push_back({m[2], m[3], ""});
    }
    else if (std::regex_search(line, m, reRaw))
    {
      int n = atoi(m[1].str().c_str());
      if (n <= last && !fr.empty()) break;
      last = n;
      fr.push_back({"", "", m[3]});
    }
    else if (!fr.empty() && line.find('#') == std::string::npos && !line.empty())
      break;
    if (fr.size() >= 24) break;
  }
  return fr;
}

// symbolize module offsets of the harness executable; returns, per offset, the inlined chain (fn, file) innermost first
inline std::vector<std::vector<std::pair<std::string, std::string>>> symbolize(const std::string& exe, const std::vector<std::string>& offs)
{
  std::vector<std::vector<std::pair<std::string, std::string>>> out(offs.size());
  if (offs.empty()) return out;
  std::string cmd = "llvm-symbolizer-14 --obj=" + exe + " --demangle --inlines --functions=linkage";
  // ASan reports the return address - 1 adjusted PC already for frames > 0; offsets are used as printed
  for (auto& o : offs) cmd += " 0x" + o;
  cmd += " 2>/dev/null";
  FILE* p = popen(cmd.c_str(), "r");
  if (!p) return out;
  std::string all;
  char buf[4096];
  size_t k;
  while ((k = fread(buf, 1, sizeof buf, p)) > 0) all.append(buf, k);
  pclose(p);
  // output: for each address, pairs of lines (function, file:line:col), blocks separated by an empty line
  size_t idx = 0, pos = 0;
  std::string fn;
  bool haveFn = false;
  while (pos <= all.size() && idx < offs.size())
  {
    size_t e         = all.find('\n', pos);
    if (e == std::string::npos) break;
    std::string line = all.substr(pos, e - pos);
    pos              = e + 1;
    if (line.empty()) { idx++; haveFn = false; continue; }
    if (!haveFn) { fn = line; haveFn = true; }
    else
    {
      std::string file = line.substr(0, line.find(':'));
      out[idx].push_back({fn, file});
      haveFn = false;
    }
  }
  return out;
}

inline CrashId crashIdentity(const ChildOutcome& o, const std::string& exe)
{
  static std::map<std::string, std::string> cache; // stack signature -> function
  // the cache is shared between the worker processes of a run through an append-only file next to the executable
  // (name carries the executable's mtime, so a rebuilt harness starts a new one)
  static std::string cacheFile;
  static bool loaded = false;
  if (!loaded)
  {
    loaded = true;
    struct stat sb;
    if (!exe.empty() && stat(exe.c_str(), &sb) == 0)
    {
      cacheFile = exe + ".symcache." + std::to_string((long)sb.st_mtime);
      std::string all = slurp(cacheFile, 1 << 24);
      size_t pos = 0;
      while (pos < all.size())
      {
        size_t e = all.find('\n', pos);
        if (e == std::string::npos) break;
        std::string line = all.substr(pos, e - pos);
        pos = e + 1;
        size_t t = line.find('\t');
        if (t != std::string::npos) cache[line.substr(0, t)] = line.substr(t + 1);
      }
    }
  }
  CrashId id;
  Fatal fatal = findFatal(o.errText, o.status);
  id.rawKind  = fatal.kind;
  id.kind     = normalizeKind(fatal.kind);
  id.func     = "?";
  // the stack that follows the fatal message (an assertion's stack is the one of the ABRT report printed after it)
  std::vector<RawFrame> fr = firstStack(fatal.pos == std::string::npos ? o.errText : o.errText.substr(fatal.pos));
  bool raw = false;
  for (auto& f : fr) raw = raw || !f.off.empty();
  if (!raw)
  {
    for (auto& f : fr)
    {
      if (!repoFile(f.file)) continue;
      if (id.func == "?") { if (!boringFrame(f.fn, f.file)) id.func = stripFn(f.fn); if (id.func != "?" && loaderFrame(id.func)) break; continue; }
      if (loaderFrame(f.fn)) { id.loader = stripFn(f.fn); break; }
    }
  }
  else
  {
    std::string sig;
    std::vector<std::string> offs;
    for (auto& f : fr) { sig += f.off + ","; offs.push_back(f.off.empty() ? "0" : f.off); }
    auto it = cache.find(sig);
    if (it != cache.end())
    {
      size_t at = it->second.find('@');
      id.func   = it->second.substr(0, at);
      if (at != std::string::npos) id.loader = it->second.substr(at + 1);
    }
    else
    {
      auto sym  = symbolize(exe, offs);
      bool done = false;
      for (auto& chain : sym)
      {
        for (auto& pf : chain)
        {
          if (!repoFile(pf.second)) continue;
          if (id.func == "?")
          {
            if (!boringFrame(pf.first, pf.second)) id.func = stripFn(pf.first);
            if (id.func != "?" && loaderFrame(id.func)) { done = true; break; }
            continue;
          }
          if (loaderFrame(pf.first)) { id.loader = stripFn(pf.first); done = true; break; }
        }
        if (done) break;
      }
      std::string val = id.func + (id.loader.empty() ? "" : "@" + id.loader);
      cache[sig]      = val;
      if (!cacheFile.empty())
      {
        int fd = open(cacheFile.c_str(), O_WRONLY | O_CREAT | O_APPEND, 0644);
        if (fd >= 0) { writeAll(fd, sig + "\t" + val + "\n"); close(fd); }
      }
    }
  }
  // excerpt: from the first interesting line, a dozen lines
  size_t start = fatal.pos;
  if (start == std::string::npos) start = o.errText.size() > 600 ? o.errText.size() - 600 : 0;
  else start = o.errText.rfind('\n', start) == std::string::npos ? 0 : o.errText.rfind('\n', start) + 1;
  id.excerpt = "[" + id.rawKind + "] " + o.errText.substr(start, 900);
  return id;
}

inline std::string selfExe()
{
  char buf[4096];
  ssize_t k = readlink("/proc/self/exe", buf, sizeof buf - 1);
  if (k <= 0) return "";
  buf[k] = 0;
  return buf;
}

} // namespace c08
