// C16 — grid geometry conversions are mutually inverse.
// Reference: harness/common/ref_grid.hpp (conventions quoted there). One case = one generated grid; every node of the
// grid is visited (exhaustive per grid), plus random query points kept away from cell boundaries.
#include "common/vh.hpp"
#include "common/ref_grid.hpp"

#include "Basic/Grid.hpp"
#include "Basic/VectorNumT.hpp"
#include "Calculators/CalcMigrate.hpp"
#include "Db/Db.hpp"
#include "Db/DbGrid.hpp"
#include "Enum/ELoc.hpp"
#include "Enum/ESpaceType.hpp"
#include "Geometry/Rotation.hpp"
#include "Space/ASpaceObject.hpp"
#include "geoslib_define.h"

#include <memory>
#include <set>

using namespace vh;
using refg::LD;

static const double EPS = 2.220446049250313e-16;

// Generator switches for input classes hitting a known defect on most cases (GUIDE rule 2). Default off.
static const bool AVOID_ROTATED_DERIVED = false; // derive grids (coarse / refine / sub-grid / dilate) from unrotated parents only

static double angleDraw(Rng& r)
{
  static const std::vector<double> special = {0, 90, 180, 270, -90, -180, 45, 30, -30, 60, 120, 360, -45, 10};
  return r.coin(0.6) ? r.pick(special) : r.uni(-360, 360);
}

static std::string vstr(const std::vector<int>& v)
{
  std::string o = "(";
  for (size_t i = 0; i < v.size(); i++) o += (i ? "," : "") + std::to_string(v[i]);
  return o + ")";
}
static std::string vstrd(const std::vector<double>& v)
{
  std::string o = "(";
  for (size_t i = 0; i < v.size(); i++) o += (i ? "," : "") + fmt("%.17g", v[i]);
  return o + ")";
}

static VectorInt VI(const std::vector<int>& v)
{
  VectorInt o((int)v.size());
  for (size_t i = 0; i < v.size(); i++) o[(int)i] = v[i];
  return o;
}
static VectorDouble VD(const std::vector<double>& v)
{
  VectorDouble o((int)v.size());
  for (size_t i = 0; i < v.size(); i++) o[(int)i] = v[i];
  return o;
}

// max |lib - ref| over the components
static double maxdiff(const VectorDouble& a, const std::vector<LD>& b)
{
  if (a.size() != b.size()) return INFINITY;
  double m = 0;
  for (size_t i = 0; i < b.size(); i++) m = std::max(m, std::fabs((double)((LD)a[(int)i] - b[i])));
  return m;
}

static void run_case(Rng& r, Ctx& c)
{
  // ---------------------------------------------------------------------------------------------------------------
  // the grid
  // ---------------------------------------------------------------------------------------------------------------
  refg::G g;
  double u = r.u01();
  g.ndim   = u < 0.2 ? 1 : u < 0.65 ? 2 : 3;
  int nd   = g.ndim;
  long ncap = c.thorough() ? 30000 : 4000;
  g.nx.resize(nd);
  for (int tries = 0; tries < 100; tries++)
  {
    for (auto& v : g.nx) v = r.coin(0.15) ? r.irange(1, 2) : r.irange(1, 40);
    if (g.ntotal() <= ncap) break;
    if (tries == 99)
      for (auto& v : g.nx) v = std::min(v, 12);
  }
  // mesh sizes 1e-3 .. 1e3, anisotropic
  int dxClass = r.irange(0, 3); // 0 unit, 1 common random, 2 anisotropic random, 3 extreme mix
  g.dx.resize(nd);
  double d0 = r.loguni(1e-3, 1e3);
  for (int k = 0; k < nd; k++)
    g.dx[k] = dxClass == 0 ? 1. : dxClass == 1 ? d0 : dxClass == 2 ? d0 * r.loguni(0.2, 5.) : r.loguni(1e-3, 1e3);
  for (auto& v : g.dx) v = std::min(1e3, std::max(1e-3, v));
  double dxmin = *std::min_element(g.dx.begin(), g.dx.end());
  // origins up to 1e6 (kept below 1e8 meshes away from zero so that a coordinate still resolves 1e-8 of a mesh:
  // beyond that the round trip is limited by the floating-point representation of the coordinates themselves)
  int x0Class = r.irange(0, 3); // 0 zero, 1 moderate, 2 large, 3 negative large
  g.x0.assign(nd, 0.);
  for (int k = 0; k < nd; k++)
  {
    double cap = std::min(1e6, 1e8 * dxmin);
    if (x0Class == 1) g.x0[k] = r.uni(-100, 100);
    if (x0Class == 2) g.x0[k] = r.uni(0.1, 1.) * cap;
    if (x0Class == 3) g.x0[k] = -r.uni(0.1, 1.) * cap;
  }
  // rotation
  int rotClass = nd == 1 ? 0 : r.irange(0, 3); // 0 none, 1 special angles, 2 generic, 3 explicit zero angles
  if (rotClass != 0)
  {
    g.angles.assign(nd, 0.);
    if (rotClass != 3)
    {
      if (nd == 2) g.angles[0] = rotClass == 1 ? angleDraw(r) : r.uni(-360, 360);
      else
        for (auto& a : g.angles) a = rotClass == 1 ? angleDraw(r) : r.uni(-360, 360);
    }
  }
  bool rotated = false;
  for (double a : g.angles) rotated = rotated || std::fmod(a, 360.) != 0.;
  std::string cls = fmt("d%d:%s", nd, rotated ? "rot" : "norot");
  c.setSig(fmt("grid:%s:rc%d:x0c%d:dxc%d:n%s", cls.c_str(), rotClass, x0Class, dxClass,
               g.ntotal() <= 1 ? "1" : g.ntotal() < 50 ? "small" : "large"));
  c.put("nx", jvec(g.nx));
  c.put("dx", jvec(g.dx));
  c.put("x0", jvec(g.x0));
  c.put("angles", jvec(g.angles));

  defineDefaultSpace(ESpaceType::RN, nd);
  const long N     = g.ntotal();
  const double mag = refg::magnitude(g);
  // |lib - ref| on a coordinate: a few roundings of numbers of size mag (products with cos/sin, sums with x0)
  const double ctol = 64 * EPS * mag;
  std::string gdet  = fmt("nx=%s dx=%s x0=%s angles=%s", vstr(g.nx).c_str(), vstrd(g.dx).c_str(), vstrd(g.x0).c_str(),
                          vstrd(g.angles).c_str());

  Grid grid;
  if (r.coin())
  {
    if (grid.resetFromVector(VI(g.nx), VD(g.dx), VD(g.x0), VD(g.angles)) != 0) throw SkipCase{"grid-reset"};
  }
  else
  {
    grid = Grid(nd, VI(g.nx), VD(g.x0), VD(g.dx));
    if (!g.angles.empty())
    {
      if (c.icase % 2 == 0) grid.setRotationByAngles(VD(g.angles));
      else
      {
        // the same rotation given by its matrix (Grid::setRotationByMatrix), the matrix being read from another Grid object
        Grid other(nd, VI(g.nx), VD(g.x0), VD(g.dx));
        other.setRotationByAngles(VD(g.angles));
        MatrixSquareGeneral rm(other.getRotation().getMatrixDirect());
        // first a different rotation, so that a stale inverse cannot be right by accident
        grid.setRotationByAngles(nd == 2 ? VectorDouble({17., 0.}) : VectorDouble({17., -23., 41.}));
        grid.setRotationByMatrix(rm);
        c.probe("rotation-by-matrix");
      }
    }
  }

  // ---------------------------------------------------------------------------------------------------------------
  // 1. all nodes: rank <-> indices <-> coordinates
  // ---------------------------------------------------------------------------------------------------------------
  std::vector<char> seen(N, 0);
  for (long rk = 0; rk < N; rk++)
  {
    // rank -> indices -> rank
    std::vector<int> idx(nd, -7);
    grid.rankToIndice((int)rk, idx);
    bool inb = true;
    for (int k = 0; k < nd; k++) inb = inb && idx[k] >= 0 && idx[k] < g.nx[k];
    c.truth("rank-idx-bounds", "C16:rankToIndice:out-of-bounds", inb, fmt("rank %ld -> %s %s", rk, vstr(idx).c_str(), gdet.c_str()));
    int back = inb ? grid.indiceToRank(idx) : -99;
    c.truth("rank-idx-rank", "C16:rank-idx-rank", back == rk, fmt("rank %ld -> %s -> %d %s", rk, vstr(idx).c_str(), back, gdet.c_str()));

    // indices -> rank -> indices (index tuples enumerated by the reference)
    std::vector<int> tup = refg::tuple(g, rk);
    int rt               = grid.indiceToRank(tup);
    bool rin             = rt >= 0 && rt < N;
    bool fresh           = rin && !seen[rt];
    if (rin) seen[rt] = 1;
    std::vector<int> tb(nd, -7);
    if (rin) grid.rankToIndice(rt, tb);
    c.truth("idx-rank-idx", "C16:idx-rank-idx", rin && fresh && tb == tup,
            fmt("indices %s -> rank %d -> %s %s", vstr(tup).c_str(), rt, vstr(tb).c_str(), gdet.c_str()));
    if (!inb) continue;

    // node coordinates against the geometry (X0 = first node, DX meshes, rotation around the origin)
    std::vector<LD> want = refg::coordI(g, idx);
    VectorDouble coor    = grid.indicesToCoordinate(VI(idx));
    double e             = maxdiff(coor, want);
    c.check("node-geometry", "C16:node-geometry:indicesToCoordinate", e <= ctol, e, ctol,
            fmt("indices %s %s", vstr(idx).c_str(), gdet.c_str()));
    // the other accessors must report the same node
    {
      VectorDouble c2 = grid.getCoordinatesByRank((int)rk);
      VectorDouble c3 = grid.rankToCoordinates((int)rk);
      VectorDouble c4 = grid.getCoordinatesByIndice(VI(idx));
      VectorDouble c5(nd), c6(nd);
      for (int k = 0; k < nd; k++)
      {
        c5[k] = grid.getCoordinate((int)rk, k);
        c6[k] = grid.rankToCoordinate(k, (int)rk);
      }
      double e2 = std::max(std::max(maxdiff(c2, want), maxdiff(c3, want)),
                           std::max(maxdiff(c4, want), std::max(maxdiff(c5, want), maxdiff(c6, want))));
      c.check("node-accessors", "C16:node-geometry:accessors", e2 <= ctol, e2, ctol,
              fmt("rank %ld %s", rk, gdet.c_str()));
      // unrotated coordinates: "flag_rotate FALSE: skip rotation" -> x0 + i*dx
      VectorDouble c7 = grid.getCoordinatesByRank((int)rk, false);
      double e7       = 0;
      for (int k = 0; k < nd; k++) e7 = std::max(e7, std::fabs((double)((LD)c7[k] - ((LD)g.x0[k] + (LD)idx[k] * (LD)g.dx[k]))));
      c.check("node-unrotated", "C16:node-geometry:flag_rotate=false", e7 <= ctol, e7, ctol, fmt("rank %ld %s", rk, gdet.c_str()));
    }

    // cell corners: getCellCoordinatesByCorner(node, shift) "shift 0: no shift; -1: minus half a cell-width; +1 plus
    // half a cell-width"
    if (rk % std::max(1L, N / 300) == 0)
    {
      std::vector<int> sh(nd);
      std::vector<LD> f(nd);
      for (int k = 0; k < nd; k++) { sh[k] = r.irange(-1, 1); f[k] = (LD)idx[k] + (LD)sh[k] / 2; }
      VectorDouble cc = grid.getCellCoordinatesByCorner((int)rk, VI(sh));
      double ec       = maxdiff(cc, refg::coord(g, f));
      c.check("cell-corner", "C16:cell-corner:misplaced", ec <= ctol, ec, ctol,
              fmt("rank %ld shift %s %s", rk, vstr(sh).c_str(), gdet.c_str()));
    }

    // indices -> coordinates -> indices ; rank -> coordinates -> rank (both cell conventions contain their node)
    for (int cen = 0; cen < 2; cen++)
    {
      VectorInt ib  = grid.coordinateToIndices(coor, cen != 0);
      std::vector<int> ibv = ib.getVector();
      c.truth(cen ? "idx-coord-idx-centered" : "idx-coord-idx", fmt("C16:idx-coord-idx:centered=%d", cen), ibv == idx,
              fmt("indices %s -> %s -> %s %s", vstr(idx).c_str(), vstrd(coor.getVector()).c_str(), vstr(ibv).c_str(), gdet.c_str()));
      int rb = grid.coordinateToRank(coor, cen != 0);
      c.truth(cen ? "rank-coord-rank-centered" : "rank-coord-rank", fmt("C16:rank-coord-rank:centered=%d", cen), rb == rk,
              fmt("rank %ld -> %s -> %d %s", rk, vstrd(coor.getVector()).c_str(), rb, gdet.c_str()));
    }
  }

  // grid corners: getCoordinatesByCorner "icorner Vector specifying the corner (0: minimum; 1: maximum)"
  for (int q = 0; q < 4; q++)
  {
    std::vector<int> ic(nd), idc(nd);
    for (int k = 0; k < nd; k++) { ic[k] = r.irange(0, 1); idc[k] = ic[k] ? g.nx[k] - 1 : 0; }
    VectorDouble cc = grid.getCoordinatesByCorner(VI(ic));
    double ec       = maxdiff(cc, refg::coordI(g, idc));
    c.check("grid-corner", "C16:grid-corner:misplaced", ec <= ctol, ec, ctol, fmt("corner %s %s", vstr(ic).c_str(), gdet.c_str()));
  }

  // ---------------------------------------------------------------------------------------------------------------
  // 2. point-in-cell for query points away from the cell boundaries
  // ---------------------------------------------------------------------------------------------------------------
  {
    const double m = r.coin(0.3) ? 1e-4 : 1e-2; // margin to the cell boundary, in mesh units
    int nq         = c.thorough() ? 120 : 60;
    for (int q = 0; q < nq; q++)
    {
      bool centered = r.coin();
      std::vector<int> cell(nd);
      std::vector<LD> f(nd);
      bool inside = true;
      bool wantInside = r.coin(0.7);
      for (int k = 0; k < nd; k++)
      {
        cell[k] = wantInside ? r.irange(0, g.nx[k] - 1) : r.irange(-3, g.nx[k] + 2);
        f[k]    = centered ? (LD)cell[k] + (LD)r.uni(-0.5 + m, 0.5 - m) : (LD)cell[k] + (LD)r.uni(m, 1. - m);
        if (cell[k] < 0 || cell[k] >= g.nx[k]) inside = false;
      }
      std::vector<LD> xl = refg::coord(g, f);
      VectorDouble x(nd);
      for (int k = 0; k < nd; k++) x[k] = (double)xl[k];
      std::string det = fmt("point %s mesh-position (%s) centered=%d cell %s %s", vstrd(x.getVector()).c_str(),
                            [&] { std::string s; for (int k = 0; k < nd; k++) s += fmt("%s%.6Lf", k ? "," : "", f[k]); return s; }().c_str(),
                            (int)centered, vstr(cell).c_str(), gdet.c_str());
      VectorInt ind(nd, -7);
      int rc = grid.coordinateToIndicesInPlace(x, ind, centered);
      std::string kc = fmt("centered=%d", (int)centered);
      if (inside)
      {
        c.truth("point-in-cell", "C16:point-in-cell:wrong-cell:" + kc, rc == 0 && ind.getVector() == cell,
                det + fmt(" -> rc=%d %s", rc, vstr(ind.getVector()).c_str()));
        int rb = grid.coordinateToRank(x, centered);
        c.truth("point-in-cell-rank", "C16:point-in-cell:wrong-rank:" + kc, rb == grid.indiceToRank(cell), det + fmt(" -> rank %d", rb));
        {
          // DbGrid-free snapping: the node of the cell found above is where indicesToCoordinate puts it
          VectorDouble nodec = grid.indicesToCoordinate(ind);
          double es          = maxdiff(nodec, refg::coordI(g, cell));
          c.check("point-cell-node", "C16:point-in-cell:node-of-cell-misplaced:" + kc, es <= ctol, es, ctol, det);
        }
        if (centered)
        {
          // Grid::sampleBelongsToCell(coor, rank): "Check if a sample belongs to a Grid Cell ... rank Rank of the Grid
          // cell", the cell being centred on its node ("center Coordinates of the grid node center")
          int rcell = grid.indiceToRank(cell);
          c.truth("belongs-to-cell", "C16:sampleBelongsToCell:own-cell-rejected", grid.sampleBelongsToCell(x, rcell), det);
          std::vector<int> nb = cell;
          int kk = r.irange(0, nd - 1);
          nb[kk] += (nb[kk] + 1 < g.nx[kk]) ? 1 : -1;
          if (nb[kk] >= 0)
            c.truth("belongs-to-other-cell", "C16:sampleBelongsToCell:neighbour-cell-accepted",
                    !grid.sampleBelongsToCell(x, grid.indiceToRank(nb)), det + " neighbour " + vstr(nb));
          // the overload taking the coordinates of the node ("center Coordinates of the grid node center"); both vectors are
          // the harness's own copies
          {
            VectorDouble xq = VD(std::vector<double>(x.begin(), x.end()));
            auto toD = [](const std::vector<refg::LD>& v) { VectorDouble o(v.size()); for (size_t i = 0; i < v.size(); i++) o[i] = (double)v[i]; return o; };
            VectorDouble cen = toD(refg::coordI(g, cell));
            c.truth("belongs-to-cell", "C16:sampleBelongsToCell(center):own-cell-rejected", grid.sampleBelongsToCell(xq, cen), det);
            if (nb[kk] >= 0)
            {
              VectorDouble xq2 = VD(std::vector<double>(x.begin(), x.end()));
              VectorDouble cen2 = toD(refg::coordI(g, nb));
              c.truth("belongs-to-other-cell", "C16:sampleBelongsToCell(center):neighbour-cell-accepted", !grid.sampleBelongsToCell(xq2, cen2),
                      det + " neighbour " + vstr(nb));
            }
          }
        }
      }
      else
      {
        // "(or reported outside)": coordinateToIndicesInPlace returns 1, coordinateToIndices an empty vector,
        // coordinateToRank -1
        c.truth("point-outside", "C16:point-in-cell:outside-not-reported:" + kc, rc == 1, det + fmt(" -> rc=%d", rc));
        VectorInt e2 = grid.coordinateToIndices(x, centered);
        int rb       = grid.coordinateToRank(x, centered);
        c.truth("point-outside-rank", "C16:point-in-cell:outside-not-reported:" + kc, e2.empty() && rb == -1,
                det + fmt(" -> %d indices, rank %d", (int)e2.size(), rb));
      }
    }
  }

  // ---------------------------------------------------------------------------------------------------------------
  // 3. Rotation: rotateDirect o rotateInverse = id (and the converse), lengths preserved
  // ---------------------------------------------------------------------------------------------------------------
  if (nd >= 2)
  {
    Rotation rot(nd);
    rot.setAngles(VD(g.angles.empty() ? std::vector<double>(nd, 0.) : g.angles));
    for (int q = 0; q < 10; q++)
    {
      VectorDouble v(nd), a(nd), b(nd), a2(nd), b2(nd);
      double sc = std::pow(10., r.irange(-3, 6));
      for (int k = 0; k < nd; k++) v[k] = r.uni(-1, 1) * sc;
      rot.rotateInverse(v, a);
      rot.rotateDirect(a, b);
      rot.rotateDirect(v, a2);
      rot.rotateInverse(a2, b2);
      double e1 = 0, e2 = 0, n0 = 0, n1 = 0, n2 = 0;
      for (int k = 0; k < nd; k++)
      {
        e1 = std::max(e1, std::fabs(b[k] - v[k]));
        e2 = std::max(e2, std::fabs(b2[k] - v[k]));
        n0 += v[k] * v[k]; n1 += a[k] * a[k]; n2 += a2[k] * a2[k];
      }
      double tol = 32 * EPS * std::sqrt(n0);
      c.check("rotation-direct-inverse", "C16:rotation:direct-o-inverse", e1 <= tol, e1, tol, gdet);
      c.check("rotation-inverse-direct", "C16:rotation:inverse-o-direct", e2 <= tol, e2, tol, gdet);
      double en = std::max(std::fabs(std::sqrt(n1) - std::sqrt(n0)), std::fabs(std::sqrt(n2) - std::sqrt(n0)));
      c.check("rotation-isometry", "C16:rotation:length-not-preserved", en <= tol, en, tol, gdet);
    }
  }

  // ---------------------------------------------------------------------------------------------------------------
  // 4. DbGrid: stored / reported coordinates are those of the geometry
  // ---------------------------------------------------------------------------------------------------------------
  std::unique_ptr<DbGrid> db(DbGrid::create(VI(g.nx), VD(g.dx), VD(g.x0), VD(g.angles)));
  if (!db) { c.truth("dbgrid-create", "C16:dbgrid:create-failed", false, gdet); return; }
  c.truth("dbgrid-create", "C16:dbgrid:wrong-sample-number", db->getSampleNumber() == N,
          fmt("%d samples for %ld nodes %s", db->getSampleNumber(), N, gdet.c_str()));
  if (db->getSampleNumber() != N) return;
  {
    std::vector<VectorDouble> cols;
    for (int k = 0; k < nd; k++) cols.push_back(db->getColumnByLocator(ELoc::X, k));
    bool colsOk = true;
    for (auto& cc : cols) colsOk = colsOk && (long)cc.size() == N;
    c.truth("dbgrid-columns", "C16:dbgrid:coordinate-columns-missing", colsOk, gdet);
    long step = std::max(1L, N / 1500);
    for (long rk = 0; rk < N && colsOk; rk += step)
    {
      std::vector<int> idx(nd);
      grid.rankToIndice((int)rk, idx);
      std::vector<LD> want = refg::coordI(g, idx);
      VectorDouble stored(nd), reported(nd), perSample(nd);
      for (int k = 0; k < nd; k++)
      {
        stored[k]   = cols[k][(int)rk];
        reported[k] = db->getCoordinate((int)rk, k);
      }
      db->getCoordinatesPerSampleInPlace((int)rk, perSample);
      double e1 = maxdiff(stored, want), e2 = std::max(maxdiff(reported, want), maxdiff(perSample, want));
      c.check("dbgrid-stored", "C16:dbgrid:stored-coordinates", e1 <= ctol, e1, ctol, fmt("rank %ld %s", rk, gdet.c_str()));
      c.check("dbgrid-reported", "C16:dbgrid:reported-coordinates", e2 <= ctol, e2, ctol, fmt("rank %ld %s", rk, gdet.c_str()));
    }
  }

  // DbGrid::centerCoordinateInPlace(coor, centered): the point is moved onto the node of its cell
  for (int q = 0; q < 10; q++)
  {
    bool centered = r.coin();
    std::vector<int> cell(nd);
    std::vector<LD> f(nd);
    for (int k = 0; k < nd; k++)
    {
      cell[k] = r.irange(0, g.nx[k] - 1);
      f[k]    = centered ? (LD)cell[k] + (LD)r.uni(-0.49, 0.49) : (LD)cell[k] + (LD)r.uni(0.01, 0.99);
    }
    std::vector<LD> xl = refg::coord(g, f);
    VectorDouble x(nd);
    for (int k = 0; k < nd; k++) x[k] = (double)xl[k];
    int rb  = db->coordinateToRank(x, centered);
    c.truth("dbgrid-point-rank", fmt("C16:dbgrid:coordinateToRank:centered=%d", (int)centered),
            rb == grid.indiceToRank(cell), fmt("cell %s got rank %d %s", vstr(cell).c_str(), rb, gdet.c_str()));
    int rc2 = db->centerCoordinateInPlace(x, centered, true);
    double e = maxdiff(x, refg::coordI(g, cell));
    c.check("dbgrid-center", fmt("C16:dbgrid:centerCoordinateInPlace:centered=%d", (int)centered),
            rc2 == 0 && e <= ctol, e, ctol, fmt("cell %s rc=%d %s", vstr(cell).c_str(), rc2, gdet.c_str()));
  }

  // ---------------------------------------------------------------------------------------------------------------
  // 5. derived grids: nodes located where the parent's nodes / cell centres are
  //    (cells centred on the nodes: Grid::multiple/divider "flagCell true for cell matching; 0 for point matching",
  //     "Calculate the center of the lower left cell")
  // ---------------------------------------------------------------------------------------------------------------
  // alt = (origin, meshes) of a grid with the parent's rotation that a known root cause would produce; it only
  // LABELS a failure (key altKey), it never makes a comparison pass
  struct Alt { std::vector<LD> x0; std::vector<LD> dx; std::string key; };
  auto checkDerived = [&](const std::string& what, const DbGrid* d, const std::function<LD(int k, int j)>& parentPos,
                          const Alt* alt = nullptr)
  {
    if (!d) { c.truth("derived-" + what, "C16:derived:" + what + ":null", false, gdet); return; }
    if (d->getNDim() != nd) { c.truth("derived-" + what, "C16:derived:" + what + ":ndim", false, gdet); return; }
    long Nd = d->getSampleNumber();
    if (Nd <= 0) { c.skip("derived-empty"); return; }
    long step = std::max(1L, Nd / 400);
    double worst = 0, worstAlt = 0;
    std::string wdet;
    // tolerance: the derived origin is itself a rounded coordinate of the parent
    double tol = 4 * ctol;
    LD M[3][3];
    refg::rotmat(g, M);
    for (long rk = 0; rk < Nd; rk += step)
    {
      VectorInt idx(nd);
      d->rankToIndice((int)rk, idx);
      std::vector<LD> f(nd);
      for (int k = 0; k < nd; k++) f[k] = parentPos(k, idx[k]);
      std::vector<LD> want = refg::coord(g, f);
      VectorDouble got(nd);
      for (int k = 0; k < nd; k++) got[k] = d->getCoordinate((int)rk, k);
      double e = maxdiff(got, want);
      if (alt)
      {
        std::vector<LD> wa(nd);
        for (int i = 0; i < nd; i++)
        {
          LD sum = 0;
          for (int k = 0; k < nd; k++) sum += M[i][k] * (LD)idx[k] * alt->dx[k];
          wa[i] = alt->x0[i] + sum;
        }
        worstAlt = std::max(worstAlt, maxdiff(got, wa));
      }
      if (e > worst)
      {
        worst = e;
        wdet  = fmt("node %s of the derived grid at %s, parent mesh position gives (%s)", vstr(idx.getVector()).c_str(),
                    vstrd(got.getVector()).c_str(),
                    [&] { std::string s; for (int k = 0; k < nd; k++) s += fmt("%s%.17Lg", k ? "," : "", want[k]); return s; }().c_str());
      }
    }
    std::string key = (alt && worstAlt <= tol) ? alt->key : "C16:derived:" + what + ":misplaced";
    c.check("derived-" + what, key, worst <= tol, worst, tol, wdet + " " + gdet);
  };
  // root-cause models (labels): Grid::multiple / Grid::divider with flagCell scale the half-diagonal of the first cell
  // coordinate by coordinate instead of along the grid axes; DbGrid::createSubGrid shifts the origin without rotating
  std::vector<LD> cm = refg::coord(g, std::vector<LD>(nd, -0.5L)), cp = refg::coord(g, std::vector<LD>(nd, 0.5L));
  auto altMultiple = [&](const std::vector<int>& nm)
  {
    Alt a;
    a.key = "C16:derived:Grid::multiple(flagCell):rotated-grid:nmult-applied-per-coordinate";
    for (int k = 0; k < nd; k++) { a.x0.push_back(cm[k] + (cp[k] - cm[k]) / 2 * nm[k]); a.dx.push_back((LD)g.dx[k] * nm[k]); }
    return a;
  };
  auto altDivider = [&](const std::vector<int>& nm)
  {
    Alt a;
    a.key = "C16:derived:Grid::divider(flagCell):rotated-grid:nmult-applied-per-coordinate";
    for (int k = 0; k < nd; k++) { a.x0.push_back(cm[k] + (cp[k] - cm[k]) / 2 / nm[k]); a.dx.push_back((LD)g.dx[k] / nm[k]); }
    return a;
  };

  if (!(AVOID_ROTATED_DERIVED && rotated))
  {
    std::vector<int> nmult(nd);
    // coarse
    {
      bool flagCell = r.coin();
      for (int k = 0; k < nd; k++) nmult[k] = r.irange(1, std::min(5, g.nx[k]));
      std::unique_ptr<DbGrid> d(DbGrid::createCoarse(db.get(), VI(nmult), flagCell));
      std::string w = flagCell ? "coarse-cell" : "coarse-point";
      c.put("nmult-coarse", jvec(nmult));
      Alt am = altMultiple(nmult);
      checkDerived(w, d.get(), [&](int k, int j) -> LD
                   { return flagCell ? (LD)j * nmult[k] + ((LD)nmult[k] - 1) / 2 : (LD)j * nmult[k]; }, flagCell ? &am : nullptr);
      if (flagCell)
      {
        std::unique_ptr<DbGrid> d2(DbGrid::createMultiple(db.get(), VI(nmult), true));
        checkDerived("multiple", d2.get(), [&](int k, int j) -> LD { return (LD)j * nmult[k] + ((LD)nmult[k] - 1) / 2; }, &am);
      }
    }
    // refine (kept small)
    if (N <= 600)
    {
      bool flagCell = r.coin();
      for (int k = 0; k < nd; k++) nmult[k] = r.irange(1, nd == 3 ? 3 : 5);
      std::unique_ptr<DbGrid> d(DbGrid::createRefine(db.get(), VI(nmult), flagCell));
      std::string w = flagCell ? "refine-cell" : "refine-point";
      c.put("nmult-refine", jvec(nmult));
      Alt ad = altDivider(nmult);
      checkDerived(w, d.get(), [&](int k, int j) -> LD
                   { return flagCell ? (LD)-0.5 + ((LD)j + (LD)0.5) / nmult[k] : (LD)j / nmult[k]; }, flagCell ? &ad : nullptr);
      if (flagCell)
      {
        std::unique_ptr<DbGrid> d2(DbGrid::createDivider(db.get(), VI(nmult), true));
        checkDerived("divider", d2.get(), [&](int k, int j) -> LD { return (LD)-0.5 + ((LD)j + (LD)0.5) / nmult[k]; }, &ad);
      }
    }
    // sub-grid: "limits: A vector of Min and Max per space dimension"
    {
      VectorVectorInt lim(nd, VectorInt(2));
      std::vector<int> lo(nd);
      for (int k = 0; k < nd; k++)
      {
        lo[k]     = r.irange(0, g.nx[k] - 1);
        lim[k][0] = lo[k];
        lim[k][1] = r.irange(lo[k] + 1, g.nx[k]);
      }
      std::unique_ptr<DbGrid> d(DbGrid::createSubGrid(db.get(), lim, r.coin()));
      c.put("sub-lo", jvec(lo));
      Alt as;
      as.key = "C16:derived:createSubGrid:rotated-grid:origin-shifted-without-rotation";
      for (int k = 0; k < nd; k++) { as.x0.push_back((LD)g.x0[k] + (LD)lo[k] * (LD)g.dx[k]); as.dx.push_back((LD)g.dx[k]); }
      checkDerived("subgrid", d.get(), [&](int k, int j) -> LD { return (LD)(j + lo[k]); }, &as);
    }
    // dilate: "mode 1 for extending; -1 for compressing", "nshift Array of shifts" -> origin moved by -mode*nshift meshes
    {
      int mode = r.coin() ? 1 : -1;
      std::vector<int> ns(nd);
      bool okc = true;
      for (int k = 0; k < nd; k++)
      {
        ns[k] = r.irange(0, 5);
        if (mode < 0) ns[k] = std::min(ns[k], (g.nx[k] - 1) / 2);
        if (g.nx[k] + 2 * mode * ns[k] <= 0) okc = false;
      }
      if (okc)
      {
        VectorInt nxo(nd);
        VectorDouble dxo(nd), x0o(nd);
        grid.dilate(mode, VI(ns), nxo, dxo, x0o);
        std::vector<LD> f(nd);
        for (int k = 0; k < nd; k++) f[k] = -(LD)mode * ns[k];
        std::vector<LD> want = refg::coord(g, f);
        double e = maxdiff(x0o, want);
        bool shape = true;
        for (int k = 0; k < nd; k++) shape = shape && nxo[k] == g.nx[k] + 2 * mode * ns[k] && dxo[k] == g.dx[k];
        c.truth("derived-dilate-shape", "C16:derived:dilate:wrong-nx-or-dx", shape,
                fmt("mode %d nshift %s -> nx %s %s", mode, vstr(ns).c_str(), vstr(nxo.getVector()).c_str(), gdet.c_str()));
        std::vector<LD> f2(nd);
        for (int k = 0; k < nd; k++) f2[k] = -2 * (LD)mode * ns[k];
        bool twice = maxdiff(x0o, refg::coord(g, f2)) <= 4 * ctol;
        c.check("derived-dilate", twice ? "C16:derived:Grid::dilate:shift-applied-twice" : "C16:derived:dilate:misplaced", e <= 4 * ctol, e, 4 * ctol,
                fmt("mode %d nshift %s -> x0 %s, parent node %s is at (%s) %s", mode, vstr(ns).c_str(),
                    vstrd(x0o.getVector()).c_str(), [&] { std::string s = "("; for (int k = 0; k < nd; k++) s += fmt("%s%d", k ? "," : "", -mode * ns[k]); return s + ")"; }().c_str(),
                    [&] { std::string s; for (int k = 0; k < nd; k++) s += fmt("%s%.17Lg", k ? "," : "", want[k]); return s; }().c_str(), gdet.c_str()));
      }
    }
  }

  // ---------------------------------------------------------------------------------------------------------------
  // 6. migrate(grid -> points) picks the containing cell.
  //    The two documented cell conventions (cell centred on its node / node at the lower corner of its cell) agree
  //    on the sub-cell { i_k <= u_k < i_k + 1/2 }: the query points are drawn there (and, for "outside", beyond both).
  // ---------------------------------------------------------------------------------------------------------------
  {
    VectorDouble val(N);
    for (long i = 0; i < N; i++) val[(int)i] = (double)i + 0.25;
    db->addColumns(val, "val", ELoc::Z, 0);
    int np = 40;
    std::vector<std::vector<double>> px(nd, std::vector<double>(np));
    std::vector<double> want(np);
    const double m = 1e-3;
    for (int p = 0; p < np; p++)
    {
      bool inside = r.coin(0.75);
      std::vector<int> cell(nd);
      std::vector<LD> f(nd);
      int kout = r.irange(0, nd - 1);
      for (int k = 0; k < nd; k++)
      {
        cell[k] = r.irange(0, g.nx[k] - 1);
        f[k]    = (LD)cell[k] + (LD)r.uni(m, 0.5 - m);
        if (!inside && k == kout) f[k] = r.coin() ? (LD)(-0.5 - m) - (LD)r.uni(0, 3) : (LD)g.nx[k] + (LD)m + (LD)r.uni(0, 3);
      }
      std::vector<LD> xl = refg::coord(g, f);
      for (int k = 0; k < nd; k++) px[k][p] = (double)xl[k];
      want[p] = inside ? (double)grid.indiceToRank(cell) + 0.25 : TEST;
    }
    std::unique_ptr<Db> pts(Db::createFromSamples(np));
    for (int k = 0; k < nd; k++) pts->addColumns(VD(px[k]), fmt("x%d", k + 1), ELoc::X, k);
    int nc0 = pts->getColumnNumber();
    int err = migrate(db.get(), pts.get(), "val");
    c.truth("migrate-rc", "C16:migrate:error-return", err == 0 && pts->getColumnNumber() == nc0 + 1, gdet);
    if (err == 0 && pts->getColumnNumber() == nc0 + 1)
    {
      VectorDouble got = pts->getColumnByColIdx(nc0);
      for (int p = 0; p < np; p++)
      {
        bool ok = FFFF(want[p]) ? FFFF(got[p]) : got[p] == want[p];
        std::string pdet;
        if (!ok)
        {
          std::vector<double> xx(nd);
          for (int k = 0; k < nd; k++) xx[k] = px[k][p];
          pdet = fmt("point %s got %.10g want %.10g %s", vstrd(xx).c_str(), got[p], want[p], gdet.c_str());
        }
        c.truth(FFFF(want[p]) ? "migrate-outside" : "migrate-cell",
                std::string("C16:migrate:") + (FFFF(want[p]) ? "outside-point-gets-a-value" : "wrong-cell"), ok, pdet);
      }
    }
  }
}

int main(int argc, char** argv) { return run_main(argc, argv, "C16", run_case); }
