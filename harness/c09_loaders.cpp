// C09 — loaders fail cleanly on malformed or truncated files (fault enumeration).
//
// case = (seed file s, batch b): the seed file of kind s / instance j is regenerated deterministically from
// (VERIF_SEED, s, j); its mutants are enumerated in a fixed order and batch b runs the mutants number m with m % NB == b.
// Seed kinds: every class of the C08 registry (file written by dumpToNF), the grid exchange formats that can be read
// (Zycor, IfpEn, Bmp written by the library, F2G hand written), CSV files in three CSVformat variants.
// Mutants: (a) EVERY prefix; (b) every token x {delete, duplicate, -1, 0, 1, 2147483647, 1e308, 99999999999, NA, text,
// empty line, comment marker}, counts +1/-1/negated/x2/x1000, one extra / one missing value on every data line, wrong
// class tags, CRLF, NUL bytes, very long lines, ...; (c) a seeded blind component (byte flips, deletions, splices).
// Each mutant is loaded in a FORKED CHILD (ASan+UBSan, abort_on_error, capped operator new, RLIMIT_CPU + watchdog);
// the child reports: clean failure | object returned (+ post-load oracle: basic queries, consistency rules, save and
// reload) | exception; the parent classifies deaths by the first /repo frame of the sanitizer report.
// Keys: C09:<kind>:<mutation family>:<how it died>:<first /repo function>      (oracle loader-survives)
//       C09:<kind>:<mutation family>:returned-object:<broken rule>              (oracle post-load)
#include "common/vh.hpp"
#include "common/c08_registry.hpp"
#include "common/c08_fork.hpp"
#include "common/c07_db_invariants.hpp"

#include "Basic/CSVformat.hpp"
#include "OutputFormat/GridF2G.hpp"

#include <atomic>
#include <new>
#include <set>

using namespace vh;
using namespace c08;

// ------------------------------------------------------------------------------------------------------------
// capped operator new: a single request above 1 GiB throws std::bad_alloc instead of being attempted (seed files are
// a few KiB: such a request can only come from an unvalidated count). Everything forwards to malloc (ASan's).
// ------------------------------------------------------------------------------------------------------------
static const size_t NEW_CAP = (size_t)1 << 30;
static void* cappedAlloc(size_t n, size_t align)
{
  if (n > NEW_CAP) throw std::bad_alloc();
  if (n == 0) n = 1;
  void* p = nullptr;
  if (align <= alignof(std::max_align_t)) p = malloc(n);
  else if (posix_memalign(&p, align, n) != 0) p = nullptr;
  if (p == nullptr) throw std::bad_alloc();
  return p;
}
static void* cappedAllocNoThrow(size_t n, size_t align) noexcept
{
  try { return cappedAlloc(n, align); }
  catch (...) { return nullptr; }
}
void* operator new(size_t n) { return cappedAlloc(n, 1); }
void* operator new[](size_t n) { return cappedAlloc(n, 1); }
void* operator new(size_t n, const std::nothrow_t&) noexcept { return cappedAllocNoThrow(n, 1); }
void* operator new[](size_t n, const std::nothrow_t&) noexcept { return cappedAllocNoThrow(n, 1); }
void* operator new(size_t n, std::align_val_t a) { return cappedAlloc(n, (size_t)a); }
void* operator new[](size_t n, std::align_val_t a) { return cappedAlloc(n, (size_t)a); }
void* operator new(size_t n, std::align_val_t a, const std::nothrow_t&) noexcept { return cappedAllocNoThrow(n, (size_t)a); }
void* operator new[](size_t n, std::align_val_t a, const std::nothrow_t&) noexcept { return cappedAllocNoThrow(n, (size_t)a); }
void operator delete(void* p) noexcept { free(p); }
void operator delete[](void* p) noexcept { free(p); }
void operator delete(void* p, size_t) noexcept { free(p); }
void operator delete[](void* p, size_t) noexcept { free(p); }
void operator delete(void* p, const std::nothrow_t&) noexcept { free(p); }
void operator delete[](void* p, const std::nothrow_t&) noexcept { free(p); }
void operator delete(void* p, std::align_val_t) noexcept { free(p); }
void operator delete[](void* p, std::align_val_t) noexcept { free(p); }
void operator delete(void* p, size_t, std::align_val_t) noexcept { free(p); }
void operator delete[](void* p, size_t, std::align_val_t) noexcept { free(p); }
void operator delete(void* p, std::align_val_t, const std::nothrow_t&) noexcept { free(p); }
void operator delete[](void* p, std::align_val_t, const std::nothrow_t&) noexcept { free(p); }

// children die by the thousand: reports stay unsymbolized, distinct stacks are symbolized afterwards (c08_fork.hpp)
extern "C" const char* __asan_default_options() { return "symbolize=0"; }

// ------------------------------------------------------------------------------------------------------------
// seed kinds
// ------------------------------------------------------------------------------------------------------------
struct SeedKind
{
  std::string name;
  bool binary = false;
  // writes the seed file "seed.bin" in the cwd (runs in a child); returns false when no seed could be produced
  std::function<bool(Rng&, bool)> makeSeed;
  std::function<Obj(const std::string&)> load; // the loader under test
  const Entry* post = nullptr;                 // registry entry of the class of the returned object (post-load oracle)
};

static const Entry* entryByName(const std::string& n)
{
  for (auto& e : registry())
    if (e.name == n) return &e;
  return nullptr;
}

static std::string csvText(Rng& r, char sep, char dec, bool header, int nskip, const std::string& na)
{
  int ncol = r.irange(2, 5), nrow = r.irange(3, 12);
  std::string t;
  for (int k = 0; k < nskip; k++) t += "some free text to be skipped\n";
  if (header)
  {
    for (int j = 0; j < ncol; j++) t += (j ? std::string(1, sep) : std::string()) + (j < 2 ? fmt("x%d", j + 1) : fmt("var%d", j - 1));
    t += "\n";
  }
  for (int i = 0; i < nrow; i++)
  {
    for (int j = 0; j < ncol; j++)
    {
      std::string v = r.coin(0.1) ? na : fmt("%.6g", r.normal() * 20.);
      for (auto& ch : v)
        if (ch == '.') ch = dec;
      t += (j ? std::string(1, sep) : std::string()) + v;
    }
    t += "\n";
  }
  return t;
}

static const std::vector<SeedKind>& seedKinds()
{
  static std::vector<SeedKind> K;
  if (!K.empty()) return K;
  for (auto& e : registry())
  {
    SeedKind k;
    k.name         = e.name;
    const Entry* pe = &e;
    k.makeSeed     = [pe](Rng& r, bool thorough) {
      // small instances: the quick tier wants every prefix of every seed file, so files stay <= 4 KiB (8 KiB thorough)
      size_t lim = thorough ? 8192 : 4096;
      for (int attempt = 0; attempt < 30; attempt++)
      {
        std::string sig;
        Obj o;
        try { o = pe->make(r, false, sig); }
        catch (const SkipCase&) { continue; }
        if (!o) continue;
        remove("seed.bin");
        if (!pe->save(o.get(), "seed.bin")) continue;
        std::string t = readFile("seed.bin");
        if (t.size() > lim || t.size() < 8) continue;
        if (t.size() < 600 && attempt < 12) continue; // prefer a seed with some body (several records / data lines)
        return true;
      }
      return false;
    };
    k.load = e.load;
    k.post = pe;
    K.push_back(k);
  }
  const Entry* grid = entryByName("DbGrid");
  const Entry* db   = entryByName("Db");
  for (auto& x : exchangeFormats())
  {
    SeedKind k;
    k.name        = x.name;
    k.binary      = (x.name == "GridBmp");
    const Exchange* px = &x;
    k.makeSeed    = [px](Rng& r, bool) {
      std::string sig;
      VectorInt cols;
      std::unique_ptr<DbGrid> g(px->makeGrid(r, false, sig, cols));
      if (!g) return false;
      remove("seed.bin");
      return px->write(g.get(), cols, "seed.bin") == 0;
    };
    k.load = [px](const std::string& p) -> Obj { DbGrid* g = px->read(p); return g ? own<DbGrid>(g) : Obj(); };
    k.post = grid;
    K.push_back(k);
  }
  {
    SeedKind k;
    k.name     = "GridF2G";
    k.makeSeed = [](Rng& r, bool) {
      // hand-written file following GridF2G::readGridFromFile (the library has no writer); value tokens <= 8 characters
      int nx = r.irange(2, 4), ny = r.irange(2, 3), ncol = r.irange(1, 2);
      std::string t = "F2G_DIM 2\nF2G_VERSION 1\nF2G_LOCATION 10.5 20.25 0.\nF2G_ROTATION 0.\nF2G_ORIGIN 0. 0.\n";
      t += fmt("F2G_NB_NODES %d %d\nF2G_LAGS 1.5 2.5\nF2G_ORDER +Y +X +Z\nF2G_NB_VARIABLES %d\n", nx, ny, ncol);
      for (int i = 0; i < ncol; i++) t += fmt("F2G_VARIABLE_%d var%d\nF2G_UNDEFINED_%d -999\n", i + 1, i + 1, i + 1);
      t += "F2G_VALUES\n";
      for (int i = 0; i < nx * ny; i++)
      {
        for (int j = 0; j < ncol; j++) t += (r.coin(0.1) ? std::string("-999") : fmt("%.3f", r.uni(0, 99))) + " ";
        t += "\n";
      }
      return writeFile("seed.bin", t);
    };
    k.load = [](const std::string& p) -> Obj { GridF2G f(p.c_str()); DbGrid* g = f.readGridFromFile(); return g ? own<DbGrid>(g) : Obj(); };
    k.post = grid;
    K.push_back(k);
  }
  struct CsvVar { const char* name; char sep, dec; bool header; int nskip; const char* na; };
  static const CsvVar vars[] = {{"CSV:comma-header", ',', '.', true, 0, "NA"},
                                {"CSV:semicolon-decimalcomma", ';', ',', true, 0, "NA"},
                                {"CSV:blank-noheader-skip2-MISS", ' ', '.', false, 2, "MISS"}};
  for (auto& v : vars)
  {
    SeedKind k;
    k.name     = v.name;
    CsvVar cv  = v;
    k.makeSeed = [cv](Rng& r, bool) { return writeFile("seed.bin", csvText(r, cv.sep, cv.dec, cv.header, cv.nskip, cv.na)); };
    k.load     = [cv](const std::string& p) -> Obj {
      CSVformat f(cv.header, cv.nskip, cv.sep, cv.dec, cv.na);
      Db* d = Db::createFromCSV(p, f, false);
      return d ? own<Db>(d) : Obj();
    };
    k.post = db;
    K.push_back(k);
  }
  return K;
}

// ------------------------------------------------------------------------------------------------------------
// mutants
// ------------------------------------------------------------------------------------------------------------
struct Mutant
{
  const char* family; // coarse family, goes into the key: prefix | token | count | line | file | blind
  std::string what;   // exact description (goes into the detail)
  std::string bytes;
};

struct Tok { size_t b, e; int line; };

static void tokenize(const std::string& t, std::vector<Tok>& toks, std::vector<std::pair<size_t, size_t>>& lines)
{
  auto isDelim = [](char ch) { return ch == ' ' || ch == '\t' || ch == '\n' || ch == '\r' || ch == ',' || ch == ';'; };
  size_t i = 0, ls = 0;
  int line = 0;
  while (i < t.size())
  {
    if (t[i] == '\n') { lines.push_back({ls, i}); ls = i + 1; line++; i++; continue; }
    if (isDelim(t[i])) { i++; continue; }
    size_t b = i;
    while (i < t.size() && !isDelim(t[i])) i++;
    toks.push_back({b, i, line});
  }
  if (ls < t.size()) lines.push_back({ls, t.size()});
}

static bool isInteger(const std::string& s)
{
  if (s.empty() || s.size() > 9) return false;
  size_t i = (s[0] == '-' || s[0] == '+') ? 1 : 0;
  if (i >= s.size()) return false;
  for (; i < s.size(); i++)
    if (!isdigit((unsigned char)s[i])) return false;
  return true;
}

// The enumeration is a pure function of (seed text, kind, tier, blind seed): every batch of the same file sees the same list
static void enumerate(const std::string& T, const SeedKind& kind, bool thorough, uint64_t blindSeed, const std::string& other,
                      std::vector<Mutant>& out, bool& prefixComplete)
{
  const size_t n = T.size();
  // (a) prefixes: all of them up to the size limit, else every k-th byte plus every token boundary
  size_t lim     = thorough ? 8192 : 4096;
  prefixComplete = (n <= lim);
  std::vector<Tok> toks;
  std::vector<std::pair<size_t, size_t>> lines;
  if (!kind.binary) tokenize(T, toks, lines);
  if (prefixComplete)
    for (size_t k = 0; k < n; k++) out.push_back({"prefix", fmt("first %zu of %zu bytes", k, n), T.substr(0, k)});
  else
  {
    std::set<size_t> cuts;
    size_t step = n / lim + 1;
    for (size_t k = 0; k < n; k += step) cuts.insert(k);
    for (auto& tk : toks) { cuts.insert(tk.b); cuts.insert(tk.e); }
    for (size_t k : cuts) out.push_back({"prefix", fmt("first %zu of %zu bytes (sampled)", k, n), T.substr(0, k)});
  }

  if (!kind.binary)
  {
    // (b) token level
    static const char* repl[] = {"-1", "0", "1", "2147483647", "1e308", "99999999999", "NA", "abc"};
    for (size_t i = 0; i < toks.size(); i++)
    {
      const Tok& tk   = toks[i];
      std::string tok = T.substr(tk.b, tk.e - tk.b), pre = T.substr(0, tk.b), post = T.substr(tk.e);
      std::string w   = fmt("token %zu ('%s', line %d)", i, tok.substr(0, 24).c_str(), tk.line + 1);
      out.push_back({"token", w + " deleted", pre + post});
      out.push_back({"token", w + " duplicated", pre + tok + " " + tok + post});
      for (const char* rp : repl)
        if (tok != rp) out.push_back({"token", w + " -> " + rp, pre + rp + post});
      out.push_back({"token", w + " -> empty line", pre + "\n\n" + post});
      out.push_back({"token", w + " preceded by a comment marker", pre + "# " + tok + post});
      if (isInteger(tok))
      {
        long v = atol(tok.c_str());
        out.push_back({"count", w + " + 1", pre + std::to_string(v + 1) + post});
        out.push_back({"count", w + " - 1", pre + std::to_string(v - 1) + post});
        out.push_back({"count", w + " negated", pre + std::to_string(v == 0 ? -1 : -v) + post});
        out.push_back({"count", w + " x 2", pre + std::to_string(v * 2 + (v == 0)) + post});
        out.push_back({"count", w + " x 1000", pre + std::to_string(v * 1000 + (v == 0) * 1000) + post});
        if (thorough) out.push_back({"count", w + " x 10^6 + 7", pre + std::to_string(v * 1000000 + 7) + post});
      }
    }
    // one extra / one missing value on every non-empty line
    for (size_t l = 0; l < lines.size(); l++)
    {
      size_t b = lines[l].first, e = lines[l].second;
      if (e <= b) continue;
      std::string ln = T.substr(b, e - b);
      size_t hash    = ln.find('#');
      std::string data = ln.substr(0, hash), comment = hash == std::string::npos ? "" : ln.substr(hash);
      if (data.find_first_not_of(" \t\r") == std::string::npos) continue;
      std::string w = fmt("line %zu", l + 1);
      out.push_back({"line", w + ": one extra value", T.substr(0, b) + data + " 1.5 " + comment + T.substr(e)});
      size_t last = data.find_last_not_of(" \t\r");
      size_t lb   = data.find_last_of(" \t,;", last);
      std::string shorter = (lb == std::string::npos) ? "" : data.substr(0, lb + 1);
      out.push_back({"line", w + ": last value missing", T.substr(0, b) + shorter + comment + T.substr(e)});
      out.push_back({"line", w + ": line removed", T.substr(0, b) + T.substr(std::min(n, e + 1))});
      out.push_back({"line", w + ": line duplicated", T.substr(0, std::min(n, e + 1)) + ln + "\n" + T.substr(std::min(n, e + 1))});
    }
    // whole-file mutations
    size_t eol = T.find('\n');
    std::string first = T.substr(0, eol), rest = eol == std::string::npos ? "" : T.substr(eol);
    for (const char* tag : {"Db", "DbGrid", "Model", "Vario", "Polygon", "NeighMoving", "Table", "Foo", "", "   ", "#"})
      if (first != tag) out.push_back({"file", std::string("first line (class tag / header) -> '") + tag + "'", tag + rest});
    {
      std::string crlf;
      for (char ch : T) { if (ch == '\n') crlf += '\r'; crlf += ch; }
      out.push_back({"file", "CRLF line ends", crlf});
      out.push_back({"file", "no final newline", (!T.empty() && T.back() == '\n') ? T.substr(0, n - 1) : T + "x"});
      out.push_back({"file", "UTF-8 byte order mark", "\xEF\xBB\xBF" + T});
      out.push_back({"file", "file doubled", T + T});
      out.push_back({"file", "only blanks", std::string(200, ' ') + "\n\n"});
      out.push_back({"file", "tabs instead of blanks", [&] { std::string s = T; for (auto& ch : s) if (ch == ' ') ch = '\t'; return s; }()});
      for (int k = 1; k <= 8; k++)
      {
        size_t pos = n * k / 9;
        out.push_back({"file", fmt("NUL byte inserted at %zu", pos), T.substr(0, pos) + std::string(1, '\0') + T.substr(pos)});
        out.push_back({"file", fmt("NUL byte replacing byte %zu", pos), T.substr(0, pos) + std::string(1, '\0') + T.substr(std::min(n, pos + 1))});
      }
      // very long lines: a 200 000 character token, and a line of 20 000 values, at the start of a few lines
      std::string longTok(200000, '7'), longLine;
      for (int i = 0; i < 20000; i++) longLine += "1 ";
      for (size_t l = 0; l < lines.size(); l += std::max<size_t>(1, lines.size() / 6))
      {
        size_t b = lines[l].first;
        out.push_back({"file", fmt("200000-character token at line %zu", l + 1), T.substr(0, b) + longTok + " " + T.substr(b)});
        out.push_back({"file", fmt("20000 values prepended to line %zu", l + 1), T.substr(0, b) + longLine + T.substr(b)});
        out.push_back({"file", fmt("3000-character comment at line %zu", l + 1), T.substr(0, b) + "# " + std::string(3000, 'c') + "\n" + T.substr(b)});
      }
    }
  }
  else
  {
    // binary header fields (BMP: 14 + 40 bytes of little-endian integers)
    static const uint32_t vals[] = {0u, 1u, 0xFFFFFFFFu, 0x7FFFFFFFu, 0x80000000u, 65536u, 24u, 8u, 32u, 255u, 257u};
    for (size_t off = 0; off + 4 <= std::min<size_t>(n, 54); off += 2)
      for (uint32_t v : vals)
      {
        std::string s = T;
        for (int k = 0; k < 4; k++) s[off + k] = (char)((v >> (8 * k)) & 0xff);
        out.push_back({"token", fmt("32-bit header field at offset %zu -> 0x%08x", off, v), s});
      }
    for (size_t off = 0; off + 2 <= std::min<size_t>(n, 54); off += 2)
      for (uint32_t v : {0u, 1u, 8u, 24u, 32u, 0xFFFFu})
      {
        std::string s = T;
        for (int k = 0; k < 2; k++) s[off + k] = (char)((v >> (8 * k)) & 0xff);
        out.push_back({"token", fmt("16-bit header field at offset %zu -> 0x%04x", off, v), s});
      }
    out.push_back({"file", "file doubled", T + T});
    out.push_back({"file", "text file offered as bitmap", "Db\n1 # Number of variables\n"});
  }

  // (c) blind component
  Rng br(blindSeed);
  int nblind = thorough ? 600 : 150;
  for (int k = 0; k < nblind && n > 0; k++)
  {
    std::string s = T;
    int op        = br.irange(0, 4);
    std::string w;
    if (op == 0)
    {
      int nf = br.irange(1, 4);
      for (int f = 0; f < nf; f++) { size_t p = br.next() % n; s[p] = (char)(br.next() & 0xff); }
      w = fmt("%d random byte(s) overwritten", nf);
    }
    else if (op == 1)
    {
      size_t p = br.next() % n, len = 1 + br.next() % std::min<size_t>(n - p, 40);
      s.erase(p, len);
      w = fmt("%zu bytes deleted at %zu", len, p);
    }
    else if (op == 2)
    {
      size_t p = br.next() % n, q = br.next() % n, len = 1 + br.next() % std::min<size_t>(n - q, 60);
      s.insert(p, T.substr(q, len));
      w = fmt("%zu bytes of the file re-inserted at %zu", len, p);
    }
    else if (op == 3 && !other.empty())
    {
      size_t p = br.next() % n, q = br.next() % other.size();
      s = T.substr(0, p) + other.substr(q);
      w = fmt("spliced with another seed file (%zu bytes of this one, then the other from byte %zu)", p, q);
    }
    else
    {
      size_t p = br.next() % n;
      s[p]     = (char)(s[p] ^ (1 << br.irange(0, 7)));
      w        = fmt("one bit flipped at byte %zu", p);
    }
    out.push_back({"blind", w, s});
  }
}

// ------------------------------------------------------------------------------------------------------------
// post-load oracle (runs in the child)
// ------------------------------------------------------------------------------------------------------------
static std::string postLoad(const SeedKind& kind, const Obj& o, int wfd)
{
  Cmp cmp;
  cmp.setSection("invariant");
  // the oracle's own cost is bounded: a huge (but legitimate) table, e.g. 60000 columns read from a 60000-value line,
  // only gets the cheap checks (the C07 rules are O(ncol^2 + ncol * nech), name look-ups compile one regex per name)
  bool huge = false;
  const Db* db = kind.post->asDb ? kind.post->asDb(o.get()) : nullptr;
  if (db != nullptr)
  {
    long ncol = db->getColumnNumber(), nech = db->getSampleNumber();
    size_t longest = 0;
    if (ncol >= 0 && ncol <= 400)
      for (auto& nm : db->getAllNames()) longest = std::max(longest, nm.size());
    huge = ncol > 400 || nech > 20000 || ncol * nech > 200000 || longest > 2000;
  }
  if (huge) writeAll(wfd, "H\n");
  else
  {
    kind.post->exercise(o.get(), cmp);
    if (db != nullptr)
    {
      // structural rules only: the name -> column designation rules depend on names being read as regular expressions,
      // which an API-built Db with the same names shares (not a property of the loader)
      c07::DbInvOptions opt;
      opt.names = false;
      for (auto& v : c07::collectDbViolations(db, opt))
        if (v.rule != "name-designation" && v.rule != "name-regex-ambiguous") cmp.fail("c07-" + v.rule, v.detail);
    }
  }
  writeAll(wfd, "Q\n");
  remove("resave.nf");
  bool ok = kind.post->save(o.get(), "resave.nf");
  if (!ok) cmp.fail("cannot-be-saved", "dumpToNF of the returned object failed");
  else
  {
    writeAll(wfd, "S\n");
    Obj o2 = kind.post->load("resave.nf");
    if (!o2) cmp.fail("saved-but-not-reloadable", "the returned object was saved, the file could not be loaded");
  }
  std::string r;
  for (auto& d : cmp.diffs) r += d.field + "\t" + d.what.substr(0, 160) + "\t";
  for (auto& ch : r)
    if (ch == '\n' || ch == '\r') ch = ' ';
  return r;
}

static void loadInChild(const SeedKind& kind, const std::string& path, int wfd, bool probeBlank = false)
{
  try
  {
    if (probeBlank)
    {
      // can an instance nothing was set in be saved at all? (an empty PolyLine2D / PolyElem / Polygons is refused by
      // dumpToNF: a loader returning such an empty object returns what the API itself builds)
      bool ok = false;
      try
      {
        Obj b = kind.post->blank();
        remove("blank.nf");
        ok = b && kind.post->save(b.get(), "blank.nf");
      }
      catch (...) { ok = false; }
      writeAll(wfd, ok ? "B1\n" : "B0\n");
    }
    Obj o = kind.load(path);
    if (!o) { writeAll(wfd, "N\n"); return; }
    writeAll(wfd, "L\n");
    std::string bad = postLoad(kind, o, wfd);
    writeAll(wfd, "R\t" + bad + "\n");
    o.reset();
    writeAll(wfd, "D\n");
  }
  catch (const std::bad_alloc&) { writeAll(wfd, "X\tbad_alloc\n"); }
  catch (const std::length_error& e) { writeAll(wfd, "X\tlength_error\n"); }
  catch (const std::exception& e)
  {
    std::string w = e.what();
    std::string k;
    for (char ch : w.substr(0, 50)) k += (isalpha((unsigned char)ch) ? ch : '-');
    writeAll(wfd, "X\texception-" + k + "\n");
  }
  catch (...) { writeAll(wfd, "X\tunknown-exception\n"); }
}

// ------------------------------------------------------------------------------------------------------------
// bookkeeping of failures: one F line per distinct key and case (vh::Ctx::check stops logging after 20 failures)
// ------------------------------------------------------------------------------------------------------------
struct CaseLog
{
  Ctx& c;
  std::map<std::string, long> seen;
  explicit CaseLog(Ctx& cc) : c(cc) {}
  void pass(const std::string& oracle) { c.check(oracle, "", true, 0., 0.); }
  void fail(const std::string& oracle, const std::string& key, const std::string& detail)
  {
    OracleStat& st = c.stats[oracle];
    st.n++;
    c.nontrivial = true;
    c.nfail++;
    long& k = seen[key];
    if (k++ == 0)
    {
      fprintf(c.log, "{\"t\":\"F\",\"case\":%ld,\"o\":%s,\"key\":%s,\"err\":1,\"tol\":0,\"d\":%s}\n", c.icase, jstr(oracle).c_str(),
              jstr(key).c_str(), jstr(detail.substr(0, 1500)).c_str());
      fflush(c.log);
      if (c.verbose) fprintf(stderr, "FAIL %s key=%s %s\n", oracle.c_str(), key.c_str(), detail.substr(0, 2500).c_str());
    }
  }
};

static std::string printable(const std::string& s, size_t maxn)
{
  std::string o;
  for (size_t i = 0; i < s.size() && o.size() < maxn; i++)
  {
    unsigned char ch = (unsigned char)s[i];
    if (ch == '\n') o += "\\n";
    else if (ch == '\\') o += "\\\\";
    else if (ch < 0x20 || ch >= 0x7f) o += fmt("\\x%02x", ch);
    else o += (char)ch;
  }
  if (o.size() >= maxn) o += "...";
  return o;
}

// ------------------------------------------------------------------------------------------------------------
// one case
// ------------------------------------------------------------------------------------------------------------
static int NB(bool thorough) { return thorough ? 16 : 8; }
static int INST(bool thorough) { return thorough ? 6 : 1; }

// ndimOut: the default space dimension under which the seed object was built. The library's default space is process-wide
// state that an object does not carry (e.g. DbLine::getLineLength fills a SpacePoint of the DEFAULT space with the
// coordinates of the Db): the mutants are loaded under the space the valid file was written under, as a user would.
static bool buildSeed(const SeedKind& k, uint64_t seed, long fileIdx, bool thorough, std::string& text, int* ndimOut = nullptr)
{
  ChildOutcome o = runChild(
    [&](int wfd) {
      Rng r(seed, "C09seed", (uint64_t)fileIdx);
      bool ok = false;
      try { ok = k.makeSeed(r, thorough); }
      catch (...) { ok = false; }
      writeAll(wfd, ok ? fmt("ok %d", getDefaultSpaceDimension()) : std::string("no"));
    },
    60., 300., "seed.err");
  if (o.kind != ChildOutcome::OK || o.payload.compare(0, 2, "ok") != 0) return false;
  if (ndimOut != nullptr) *ndimOut = atoi(o.payload.c_str() + 2);
  text = readFile("seed.bin");
  return !text.empty();
}

static void run_case(Rng&, Ctx& c)
{
  const auto& kinds = seedKinds();
  const bool th     = c.thorough();
  const int nb = NB(th), ninst = INST(th);
  long fileIdx = c.icase / nb;
  int batch    = (int)(c.icase % nb);
  size_t ik    = (size_t)(fileIdx % (long)kinds.size());
  long inst    = fileIdx / (long)kinds.size();
  if (const char* only = getenv("C09_ONLY")) // developer aid
    for (size_t i = 0; i < kinds.size(); i++)
      if (kinds[i].name == only) ik = i;
  const SeedKind& kind = kinds[ik];
  (void)ninst;
  c.setSig(fmt("kind=%s:inst=%ld:batch=%d", kind.name.c_str(), inst, batch));
  c.puts("kind", kind.name);

  std::string T, other;
  long fileKey = (long)ik * 1000 + inst;
  // the seed files are FIXED: generated from constants, not from VERIF_SEED, and so is the blind component below. The
  // mutant set of a tier is therefore the same in every run; VERIF_SEED is only recorded. (A fault enumeration whose keys
  // moved with the seed could never be matched against a list of known findings.)
  const uint64_t genSeed = 20261002ULL + 7919ULL * (uint64_t)inst;
  int seedNdim = 0;
  if (!buildSeed(kind, genSeed, fileKey, th, T, &seedNdim)) { c.skip("no-seed-file:" + kind.name); return; }
  if (seedNdim >= 1 && seedNdim <= 3) setSpace(seedNdim);
  // a second seed file (another kind) for the splices
  {
    size_t jk = (ik + 7) % kinds.size();
    if (kinds[jk].binary) jk = (jk + 1) % kinds.size();
    std::string keep = T;
    if (!buildSeed(kinds[jk], genSeed, (long)jk * 1000 + inst, th, other)) other.clear();
    writeFile("seed.bin", keep);
  }
  c.putn("seed_bytes", (double)T.size());
  if (c.verbose && !kind.binary) fprintf(stderr, "---- seed file (%s, %zu bytes)\n%s----\n", kind.name.c_str(), T.size(), T.substr(0, 4000).c_str());

  std::vector<Mutant> muts;
  bool prefixComplete = true;
  uint64_t bs = 0x9e3779b97f4a7c15ULL * 1315423911ULL + (uint64_t)fileKey;
  enumerate(T, kind, th, splitmix(bs), other, muts, prefixComplete);
  c.probe(prefixComplete ? "prefix-enumeration-complete" : "prefix-enumeration-sampled");
  c.putn("mutants_of_file", (double)muts.size());

  CaseLog L(c);
  const std::string exe = selfExe();

  // baseline: the unmodified seed file must load, and whatever rule ITS object breaks is not held against the mutants
  std::set<std::string> baselineBroken;
  if (batch == 0 || true)
  {
    writeFile("m.bin", T);
    // (own child: saving a default-constructed object may itself crash, e.g. Rule() has no node to write)
    ChildOutcome ob = runChild([&](int wfd) { loadInChild(kind, "/nonexistent/file", wfd, true); }, 20., 300., "child.err");
    if (ob.payload.find("B1\n") == std::string::npos) baselineBroken.insert("cannot-be-saved");
    ChildOutcome o = runChild([&](int wfd) { loadInChild(kind, "m.bin", wfd, false); }, 20., 300., "child.err");
    if (c.verbose) fprintf(stderr, "baseline child: kind=%d payload=[%s] stderr=[%s]\n", (int)o.kind, printable(o.payload, 400).c_str(), printable(o.errText, 1200).c_str());
    if (o.kind == ChildOutcome::OK)
    {
      size_t rp = o.payload.find("R\t");
      if (rp != std::string::npos)
      {
        std::string rest = o.payload.substr(rp + 2, o.payload.find('\n', rp) - rp - 2);
        size_t pos = 0;
        while (pos < rest.size())
        {
          size_t t1 = rest.find('\t', pos);
          if (t1 == std::string::npos) break;
          baselineBroken.insert(rest.substr(pos, t1 - pos));
          size_t t2 = rest.find('\t', t1 + 1);
          if (t2 == std::string::npos) break;
          pos = t2 + 1;
        }
      }
    }
    if (batch == 0)
    {
      c.probe(o.kind == ChildOutcome::OK && o.payload.find("L\n") != std::string::npos ? "seed-loads" : "seed-does-not-load:" + kind.name);
      for (auto& b : baselineBroken) c.probe("baseline-breaks:" + kind.name + ":" + b);
    }
  }

  long nrun = 0;
  int nhang = 0;
  for (size_t m = (size_t)batch; m < muts.size(); m += (size_t)nb)
  {
    const Mutant& mu = muts[m];
    writeFile("m.bin", mu.bytes);
    ChildOutcome o;
    // Time-outs. Only CPU TIME decides (it does not depend on the machine load): a first limit of 5 s keeps the run
    // cheap; a mutant that exhausts it is run again with 60 s. Exhausting 60 s of CPU on a file of a few hundred KiB at
    // most is a hang; finishing between 5 and 60 s is slow but not a hang (the second outcome is the one classified).
    // The wide gap keeps the verdict of the long loops (counts of 10^6 .. 2^31 read from the file) away from the limit.
    // The wall-clock watchdog (240 s) only protects the run: a mutant it had to kill twice is a counted skip.
    bool watchdogSkip = false;
    for (int attempt = 0; attempt < 2; attempt++)
    {
      o = runChild([&](int wfd) { loadInChild(kind, "m.bin", wfd); }, 5., 240., "child.err");
      if (o.kind != ChildOutcome::TIMEOUT) break;
      if (o.cpuLimitHit)
      {
        c.probe("cpu-5s-exhausted");
        // (once a 60 s hang has been confirmed in this batch, a further 5 s exhaustion is taken as a hang without the long re-run)
        if (nhang > 0) break;
        o = runChild([&](int wfd) { loadInChild(kind, "m.bin", wfd); }, 60., 900., "child.err");
        if (o.kind == ChildOutcome::TIMEOUT && !o.cpuLimitHit) watchdogSkip = true;
        else if (o.kind != ChildOutcome::TIMEOUT) c.probe("slow-5-to-60s");
        break;
      }
      c.probe("timeout-rerun");
      if (attempt == 1) watchdogSkip = true;
    }
    if (watchdogSkip)
    {
      c.skip("watchdog:wall-clock-only");
      continue;
    }
    nrun++;
    c.probe("children");
    // keys identify the DEFECT (how it died, where, under which reader), not the seed kind / mutation family that
    // happened to reach it this time: those vary with VERIF_SEED and go into the detail
    const std::string base = "C09:" + kind.name + ":";
    const std::string det  = "[" + kind.name + " / " + mu.family + "] " + mu.what + " | mutant (" + std::to_string(mu.bytes.size()) +
                            " bytes): " + printable(mu.bytes, 700);
    const std::string& pl  = o.payload;
    bool returned = pl.find("L\n") != std::string::npos;
    if (o.kind == ChildOutcome::TIMEOUT && returned)
    {
      // the loader itself answered; what ran out of time is this harness's own post-load work on a (possibly very
      // large but legitimate) object: not held against the loader, counted
      L.pass("loader-survives");
      c.probe("returned-object");
      c.skip("post-load:timeout-on-returned-object");
      continue;
    }
    if (o.kind == ChildOutcome::TIMEOUT)
    {
      c.probe("timed-out");
      L.fail("loader-survives", base + "hang", "60 s of CPU time exhausted (after a first run that exhausted 5 s) | " + det);
      // every hang costs 65 s of CPU: after two of them in one batch (the second is only given 5 s) the reader is known to hang and the rest of the batch
      // is abandoned (counted), so that a tree whose reader hangs on most inputs is still decided in bounded time
      if (++nhang >= 2)
      {
        for (size_t m2 = m + (size_t)nb; m2 < muts.size(); m2 += (size_t)nb) c.skip("batch-abandoned-after-2-hangs");
        break;
      }
      continue;
    }
    if (o.kind == ChildOutcome::DIED)
    {
      c.probe("died");
      CrashId id = crashIdentity(o, exe);
      std::string phase;
      if (pl.find("D\n") != std::string::npos) phase = "at-exit:";
      else if (pl.find("R\t") != std::string::npos) phase = "returned-object:destroy:";
      else if (pl.find("S\n") != std::string::npos) phase = "returned-object:reload:";
      else if (pl.find("Q\n") != std::string::npos) phase = "returned-object:save:";
      else if (returned) phase = "returned-object:query:";
      std::string site = id.func + (id.loader.empty() ? "" : "@" + id.loader);
      std::string key  = (id.func == "?") ? base + phase + id.kind + ":?" : "C09:" + phase + id.kind + ":" + site;
      c.probe("died:" + std::string(mu.family));
      L.fail("loader-survives", key, det + " | " + id.excerpt);
      continue;
    }
    size_t xp = pl.find("X\t");
    if (xp != std::string::npos)
    {
      c.probe("exception");
      // one key per reader: which exception (bad_alloc / length_error for a count, a my_throw message...) is in the detail
      std::string what = pl.substr(xp + 2, pl.find('\n', xp) - xp - 2);
      L.fail("loader-survives", base + (returned ? "returned-object:" : "") + "exception:escaped", "[" + what + "] " + det);
      continue;
    }
    L.pass("loader-survives");
    if (!returned) { c.probe("clean-failure"); continue; }
    c.probe("returned-object");
    if (pl.find("H\n") != std::string::npos) c.skip("post-load-queries:huge-table");
    size_t rp = pl.find("R\t");
    std::string rest = rp == std::string::npos ? "" : pl.substr(rp + 2, pl.find('\n', rp) - rp - 2);
    bool anyBad = false;
    size_t pos = 0;
    while (pos < rest.size())
    {
      size_t t1 = rest.find('\t', pos);
      if (t1 == std::string::npos) break;
      std::string rule = rest.substr(pos, t1 - pos);
      size_t t2        = rest.find('\t', t1 + 1);
      std::string why  = rest.substr(t1 + 1, (t2 == std::string::npos ? rest.size() : t2) - t1 - 1);
      pos              = (t2 == std::string::npos) ? rest.size() : t2 + 1;
      if (baselineBroken.count(rule)) continue;
      anyBad = true;
      // the C07 rules concern the table part, read by Db::_deserialize (NF kinds) or by the CSV reader, whatever the kind
      bool isCsv       = kind.name.compare(0, 4, "CSV:") == 0;
      std::string who  = (rule.compare(0, 4, "c07-") == 0) ? (isCsv ? "CSV" : (kind.post->name == "Db" || kind.post->asDb ? "Db" : kind.name)) : kind.name;
      L.fail("post-load", "C09:" + who + ":returned-object:" + rule, why + " | " + det);
    }
    if (!anyBad) L.pass("post-load");
  }
  c.putn("mutants_run", (double)nrun);
}

int main(int argc, char** argv) { return run_main(argc, argv, "C09", run_case); }
