// C11 — matrix and vector classes compute what linear algebra defines, in every storage.
// Reference: harness/common/ref_linalg.hpp (long double, naive). Each case = (storage, shape, content, operation).
#include "common/vh.hpp"
#include "common/ref_linalg.hpp"

#include "Matrix/MatrixRectangular.hpp"
#include "Matrix/MatrixSquareGeneral.hpp"
#include "Matrix/MatrixSquareSymmetric.hpp"
#include "Matrix/MatrixSparse.hpp"
#include "Matrix/NF_Triplet.hpp"
#include "LinearOp/CholeskyDense.hpp"
#include "LinearOp/CholeskySparse.hpp"
#include "Basic/VectorHelper.hpp"
#include "Basic/VectorNumT.hpp"
#include "Basic/OptDbg.hpp"
#include <memory>

using namespace vh;
using ref::LD;
using ref::Mat;

enum Kind { RECT = 0, SQG, SYM, SPCS, SPEIG, NKIND };
static const char* KN[] = {"rect", "sqgen", "sym", "sparse-cs", "sparse-eigen"};
static bool isSparseK(int k) { return k == SPCS || k == SPEIG; }

static const double EPS = 2.220446049250313e-16;

// ---- content generators -----------------------------------------------------------------------
static Mat genMat(Rng& r, int nr, int nc, int content, bool sym)
{
  Mat m(nr, nc);
  double scale = content == 3 ? 1.0 : 1.0;
  for (int i = 0; i < nr; i++)
    for (int j = (sym ? i : 0); j < nc; j++)
    {
      double v = 0;
      switch (content)
      {
        case 0: v = r.uni(-1, 1); break;                                   // generic
        case 1: v = r.coin(0.6) ? 0.0 : r.uni(-2, 2); break;               // exact zeros (sparse pattern)
        case 2: v = (double)r.irange(-4, 4); break;                        // small integers (many ties / zeros)
        case 3: v = r.uni(-1, 1) * std::pow(10.0, r.irange(-6, 6)); break; // wide dynamic range
      }
      m(i, j) = v * scale;
      if (sym && j < nr) m(j, i) = m(i, j);
    }
  return m;
}
// symmetric positive definite: B B^T + delta I
static Mat genSPD(Rng& r, int n, bool sparse)
{
  Mat b(n, n);
  for (int i = 0; i < n; i++)
    for (int j = 0; j < n; j++) b(i, j) = (sparse && std::abs(i - j) > 2) ? 0.0 : r.uni(-1, 1);
  Mat a = ref::mul(b, b.T());
  for (int i = 0; i < n; i++) a(i, i) += 0.5 + r.u01();
  for (int i = 0; i < n; i++)
    for (int j = 0; j < i; j++) a(i, j) = a(j, i);
  // round to double so that library and reference start from identical numbers
  for (auto& v : a.a) v = (double)v;
  return a;
}
static VectorDouble genVec(Rng& r, int n, bool nozero = false)
{
  VectorDouble v(n);
  for (int i = 0; i < n; i++)
  {
    double x = r.uni(-2, 2);
    if (nozero && std::fabs(x) < 0.1) x = x < 0 ? x - 0.1 : x + 0.1;
    v[i] = x;
  }
  return v;
}

// ---- library object construction ---------------------------------------------------------------
static std::unique_ptr<AMatrix> mk(int kind, const Mat& m)
{
  AMatrix* a = nullptr;
  switch (kind)
  {
    case RECT: a = new MatrixRectangular(m.nr, m.nc); break;
    case SQG: a = new MatrixSquareGeneral(m.nr); break;
    case SYM: a = new MatrixSquareSymmetric(m.nr); break;
    case SPCS:
    case SPEIG:
    {
      NF_Triplet t;
      for (int i = 0; i < m.nr; i++)
        for (int j = 0; j < m.nc; j++)
          if (m(i, j) != 0) t.add(i, j, (double)m(i, j));
      if (m(m.nr - 1, m.nc - 1) == 0) t.force(m.nr, m.nc); // documented way to dimension a triplet
      a = MatrixSparse::createFromTriplet(t, m.nr, m.nc, kind == SPEIG ? 1 : 0);
      return std::unique_ptr<AMatrix>(a);
    }
  }
  for (int i = 0; i < m.nr; i++)
    for (int j = 0; j < m.nc; j++)
    {
      if (kind == SYM && j < i) continue;
      a->setValue(i, j, (double)m(i, j));
    }
  return std::unique_ptr<AMatrix>(a);
}
static Mat toRef(const AMatrix& a)
{
  Mat m(a.getNRows(), a.getNCols());
  for (int i = 0; i < m.nr; i++)
    for (int j = 0; j < m.nc; j++) m(i, j) = a.getValue(i, j);
  return m;
}
// compare a library matrix with the reference; tolerance is absolute
static void cmpMat(Ctx& c, const std::string& oracle, const std::string& key, const AMatrix& a, const Mat& want,
                   double tol)
{
  if (a.getNRows() != want.nr || a.getNCols() != want.nc)
  {
    c.check(oracle, key + ":shape", false, 1, 0,
            fmt("shape got %dx%d want %dx%d", a.getNRows(), a.getNCols(), want.nr, want.nc));
    return;
  }
  double worst = 0;
  int wi = 0, wj = 0;
  bool bad = false;
  for (int i = 0; i < want.nr; i++)
    for (int j = 0; j < want.nc; j++)
    {
      double g = a.getValue(i, j);
      double e = std::fabs(g - (double)want(i, j));
      if (!(e <= worst)) { if (std::isnan(e)) bad = true; if (e > worst || std::isnan(e)) { worst = std::isnan(e) ? INFINITY : e; wi = i; wj = j; } }
    }
  bool ok = !bad && worst <= tol;
  c.check(oracle, key, ok, worst, tol,
          ok ? "" : fmt("at (%d,%d) got=%.17g want=%.17g", wi, wj, a.getValue(wi, wj), (double)want(wi, wj)));
}
static void cmpVec(Ctx& c, const std::string& oracle, const std::string& key, const VectorDouble& g,
                   const std::vector<LD>& want, double tol)
{
  if (g.size() != want.size())
  {
    c.check(oracle, key + ":size", false, 1, 0, fmt("size got %zu want %zu", (size_t)g.size(), want.size()));
    return;
  }
  double worst = 0;
  size_t wi = 0;
  for (size_t i = 0; i < want.size(); i++)
  {
    double e = std::fabs(g[i] - (double)want[i]);
    if (std::isnan(e)) e = INFINITY;
    if (e > worst) { worst = e; wi = i; }
  }
  bool ok = worst <= tol;
  c.check(oracle, key, ok, worst, tol,
          ok || want.empty() ? "" : fmt("at %zu got=%.17g want=%.17g", wi, g[wi], (double)want[wi]));
}
static std::vector<LD> toLD(const VectorDouble& v)
{
  std::vector<LD> o(v.size());
  for (size_t i = 0; i < v.size(); i++) o[i] = v[i];
  return o;
}
static double tolProd(const Mat& a, const Mat& b, int inner) { return 64 * EPS * (inner + 2) * ((double)a.maxabs() * (double)b.maxabs() + 1e-300); }

static const int SHAPES[] = {1, 2, 3, 5, 8, 17};

// ================================================================================================
// operation groups
// ================================================================================================
static void opAccess(Rng& r, Ctx& c, int kind, Mat m)
{
  auto a = mk(kind, m);
  std::string K = std::string("C11:access:") + KN[kind];
  cmpMat(c, "build-get", K + ":getValue", *a, m, 0);
  // getRow / getColumn / getDiagonal / getValues
  int i = r.irange(0, m.nr - 1), j = r.irange(0, m.nc - 1);
  std::vector<LD> row(m.nc), col(m.nr);
  for (int k = 0; k < m.nc; k++) row[k] = m(i, k);
  for (int k = 0; k < m.nr; k++) col[k] = m(k, j);
  cmpVec(c, "getRow", K + ":getRow", a->getRow(i), row, 0);
  cmpVec(c, "getColumn", K + ":getColumn", a->getColumn(j), col, 0);
  if (m.nr == m.nc)
  {
    std::vector<LD> d(m.nr);
    for (int k = 0; k < m.nr; k++) d[k] = m(k, k);
    cmpVec(c, "getDiagonal", K + ":getDiagonal", a->getDiagonal(), d, 0);
  }
  {
    std::vector<LD> bycol, byrow;
    for (int jj = 0; jj < m.nc; jj++) for (int ii = 0; ii < m.nr; ii++) bycol.push_back(m(ii, jj));
    for (int ii = 0; ii < m.nr; ii++) for (int jj = 0; jj < m.nc; jj++) byrow.push_back(m(ii, jj));
    cmpVec(c, "getValues", K + ":getValues:bycol", a->getValues(true), bycol, 0);
    cmpVec(c, "getValues", K + ":getValues:byrow", a->getValues(false), byrow, 0);
  }
  // transpose (new object) and in place
  {
    std::unique_ptr<AMatrix> t(a->transpose());
    cmpMat(c, "transpose", K + ":transpose", *t, m.T(), 0);
    auto b = mk(kind, m);
    b->transposeInPlace();
    cmpMat(c, "transposeInPlace", K + ":transposeInPlace", *b, m.T(), 0);
  }
  // setValue on an existing entry, symmetric storage mirrors
  {
    auto b  = mk(kind, m);
    Mat w   = m;
    int si = i, sj = j;
    if (isSparseK(kind))
    { // stay on the pattern (cs back-end documents that absent entries cannot be set)
      bool found = false;
      for (int t = 0; t < 50 && !found; t++)
      {
        si = r.irange(0, m.nr - 1); sj = r.irange(0, m.nc - 1);
        found = m(si, sj) != 0;
      }
      if (!found) { c.skip("sparse:no-entry"); goto after_set; }
    }
    {
      double v = r.uni(-3, 3);
      b->setValue(si, sj, v);
      w(si, sj) = v;
      if (kind == SYM) w(sj, si) = v;
      cmpMat(c, "setValue", K + ":setValue", *b, w, 0);
    }
  after_set:;
  }
  // setRow / setColumn / setDiagonal (dense general storages: row/column of a symmetric matrix is not a free edit)
  if (kind == RECT || kind == SQG)
  {
    auto b = mk(kind, m);
    Mat w  = m;
    VectorDouble vr = genVec(r, m.nc), vc = genVec(r, m.nr);
    b->setRow(i, vr);
    for (int k = 0; k < m.nc; k++) w(i, k) = vr[k];
    cmpMat(c, "setRow", K + ":setRow", *b, w, 0);
    b->setColumn(j, vc);
    for (int k = 0; k < m.nr; k++) w(k, j) = vc[k];
    cmpMat(c, "setColumn", K + ":setColumn", *b, w, 0);
  }
  if (m.nr == m.nc && !isSparseK(kind))
  {
    auto b = mk(kind, m);
    VectorDouble d = genVec(r, m.nr);
    b->setDiagonal(d);
    Mat w(m.nr, m.nc);
    for (int k = 0; k < m.nr; k++) w(k, k) = d[k];
    cmpMat(c, "setDiagonal", K + ":setDiagonal", *b, w, 0);
    b->setDiagonalToConstant(2.5);
    for (int k = 0; k < m.nr; k++) w(k, k) = 2.5;
    cmpMat(c, "setDiagonal", K + ":setDiagonalToConstant", *b, w, 0);
  }
}

static void opScale(Rng& r, Ctx& c, int kind, Mat m)
{
  std::string K = std::string("C11:scale:") + KN[kind];
  double s = r.uni(-3, 3);
  {
    auto a = mk(kind, m);
    a->prodScalar(s);
    Mat w = m;
    for (auto& v : w.a) v *= s;
    cmpMat(c, "prodScalar", K + ":prodScalar", *a, w, 16 * EPS * (double)w.maxabs());
  }
  if (!isSparseK(kind))
  {
    auto a = mk(kind, m);
    a->addScalar(s);
    Mat w = m;
    for (auto& v : w.a) v += s;
    cmpMat(c, "addScalar", K + ":addScalar", *a, w, 4 * EPS * ((double)m.maxabs() + std::fabs(s)));
  }
  if (m.nr == m.nc)
  {
    auto a = mk(kind, m);
    // sparse: the diagonal must be in the pattern to be updated
    bool diagfull = true;
    for (int k = 0; k < m.nr; k++) diagfull = diagfull && m(k, k) != 0;
    if (!isSparseK(kind) || diagfull)
    {
      a->addScalarDiag(s);
      Mat w = m;
      for (int k = 0; k < m.nr; k++) w(k, k) += s;
      cmpMat(c, "addScalarDiag", K + ":addScalarDiag", *a, w, 4 * EPS * ((double)m.maxabs() + std::fabs(s)));
    }
  }
  if (!isSparseK(kind))
  {
    auto a = mk(kind, m);
    a->fill(s);
    Mat w(m.nr, m.nc, s);
    cmpMat(c, "fill", K + ":fill", *a, w, 0);
  }
  // row-wise / column-wise scaling: symmetric storage cannot hold the (non-symmetric) result
  if (kind != SYM)
  {
    VectorDouble vr = genVec(r, m.nr, true), vc = genVec(r, m.nc, true);
    double tol = 8 * EPS * (double)m.maxabs() * 25;
    {
      auto a = mk(kind, m);
      a->multiplyRow(vr);
      Mat w = m;
      for (int i = 0; i < m.nr; i++) for (int j = 0; j < m.nc; j++) w(i, j) *= vr[i];
      cmpMat(c, "multiplyRow", K + ":multiplyRow", *a, w, tol);
    }
    {
      auto a = mk(kind, m);
      a->multiplyColumn(vc);
      Mat w = m;
      for (int i = 0; i < m.nr; i++) for (int j = 0; j < m.nc; j++) w(i, j) *= vc[j];
      cmpMat(c, "multiplyColumn", K + ":multiplyColumn", *a, w, tol);
    }
    {
      auto a = mk(kind, m);
      a->divideRow(vr);
      Mat w = m;
      for (int i = 0; i < m.nr; i++) for (int j = 0; j < m.nc; j++) w(i, j) /= vr[i];
      cmpMat(c, "divideRow", K + ":divideRow", *a, w, tol);
    }
    {
      auto a = mk(kind, m);
      a->divideColumn(vc);
      Mat w = m;
      for (int i = 0; i < m.nr; i++) for (int j = 0; j < m.nc; j++) w(i, j) /= vc[j];
      cmpMat(c, "divideColumn", K + ":divideColumn", *a, w, tol);
    }
  }
}

static void opSum(Rng& r, Ctx& c, int kind, Mat m, int content)
{
  std::string K = std::string("C11:sum:") + KN[kind];
  Mat m2 = genMat(r, m.nr, m.nc, content, kind == SYM);
  double cx = r.uni(-2, 2), cy = r.uni(-2, 2);
  Mat w(m.nr, m.nc);
  for (size_t k = 0; k < w.a.size(); k++) w.a[k] = cx * m.a[k] + cy * m2.a[k];
  double tol = 32 * EPS * (std::fabs(cx) * (double)m.maxabs() + std::fabs(cy) * (double)m2.maxabs());
  {
    auto a = mk(kind, m);
    auto b = mk(kind, m2);
    if (isSparseK(kind))
      dynamic_cast<MatrixSparse*>(a.get())->addMatInPlace(*dynamic_cast<MatrixSparse*>(b.get()), cx, cy);
    else
      a->addMatInPlace(*b, cx, cy);
    cmpMat(c, "addMatInPlace", K + ":addMatInPlace", *a, w, tol);
  }
  if (isSparseK(kind))
  {
    auto a = mk(kind, m);
    auto b = mk(kind, m2);
    std::unique_ptr<MatrixSparse> s(MatrixSparse::addMatMat(dynamic_cast<MatrixSparse*>(a.get()),
                                                            dynamic_cast<MatrixSparse*>(b.get()), cx, cy));
    cmpMat(c, "addMatMat", K + ":addMatMat", *s, w, tol);
  }
  else
  {
    auto a = mk(kind, m);
    auto b = mk(kind, m2);
    auto d = mk(kind, Mat(m.nr, m.nc));
    d->linearCombination(cx, a.get(), cy, b.get());
    cmpMat(c, "linearCombination", K + ":linearCombination2", *d, w, tol);
    Mat m3 = genMat(r, m.nr, m.nc, content, kind == SYM);
    auto e = mk(kind, m3);
    double cz = r.uni(-2, 2);
    for (size_t k = 0; k < w.a.size(); k++) w.a[k] += cz * m3.a[k];
    d->linearCombination(cx, a.get(), cy, b.get(), cz, e.get());
    cmpMat(c, "linearCombination", K + ":linearCombination3", *d, w, tol + 8 * EPS * std::fabs(cz) * (double)m3.maxabs());
  }
}

static void opMatVec(Rng& r, Ctx& c, int kind, Mat m)
{
  std::string K = std::string("C11:matvec:") + KN[kind];
  auto a = mk(kind, m);
  for (int tr = 0; tr < 2; tr++)
  {
    // prodMatVec: this * x (transpose: t(this) * x)
    Mat mm = tr ? m.T() : m;
    VectorDouble x = genVec(r, mm.nc);
    auto want = ref::mulv(mm, toLD(x));
    double tol = 64 * EPS * (mm.nc + 2) * ((double)m.maxabs() * 2 + 1e-300);
    cmpVec(c, "prodMatVec", K + (tr ? ":prodMatVec:T" : ":prodMatVec:N"), a->prodMatVec(x, tr), want, tol);
    VectorDouble y(mm.nr, 7.0);
    a->prodMatVecInPlace(x, y, tr);
    cmpVec(c, "prodMatVecInPlace", K + (tr ? ":prodMatVecInPlace:T" : ":prodMatVecInPlace:N"), y, want, tol);
    // prodVecMat: x * this  == t(this) * x ; (transpose: x * t(this) == this * x)
    Mat m2 = tr ? m : m.T();
    VectorDouble x2 = genVec(r, m2.nc);
    auto want2 = ref::mulv(m2, toLD(x2));
    cmpVec(c, "prodVecMat", K + (tr ? ":prodVecMat:T" : ":prodVecMat:N"), a->prodVecMat(x2, tr), want2, tol);
  }
  if (m.nr == m.nc)
  {
    VectorDouble x = genVec(r, m.nr), y = genVec(r, m.nr);
    auto mx = ref::mulv(m, toLD(y));
    LD q = 0;
    for (int i = 0; i < m.nr; i++) q += x[i] * mx[i];
    double got = a->quadraticMatrix(x, y);
    c.close("quadraticMatrix", K + ":quadraticMatrix", got, (double)q, 64 * EPS * (m.nr + 2) * m.nr * ((double)m.maxabs() * 4 + 1e-300));
  }
}

static void opMatMat(Rng& r, Ctx& c, int kind, int content)
{
  std::string K = std::string("C11:matmat:") + KN[kind];
  int n1 = SHAPES[r.irange(0, 5)], n2 = SHAPES[r.irange(0, 5)], n3 = SHAPES[r.irange(0, 5)];
  bool sq = (kind == SQG || kind == SYM);
  if (sq) n2 = n3 = n1;
  for (int tx = 0; tx < 2; tx++)
    for (int ty = 0; ty < 2; ty++)
    {
      // X is (n1 x n2) after optional transposition, Y is (n2 x n3)
      Mat X = genMat(r, tx ? n2 : n1, tx ? n1 : n2, content, kind == SYM);
      Mat Y = genMat(r, ty ? n3 : n2, ty ? n2 : n3, content, kind == SYM);
      Mat want = ref::mul(tx ? X.T() : X, ty ? Y.T() : Y);
      auto x = mk(kind, X);
      auto y = mk(kind, Y);
      // the product of two symmetric matrices is not symmetric: receive it in general storage
      int rk = (kind == SYM) ? SQG : kind;
      auto z = mk(rk, Mat(n1, n3));
      z->prodMatMatInPlace(x.get(), y.get(), tx, ty);
      cmpMat(c, "prodMatMatInPlace", K + fmt(":prodMatMat:%c%c", tx ? 'T' : 'N', ty ? 'T' : 'N'), *z, want, tolProd(X, Y, n2));
    }
  // prodMatInPlace: this <- this * Y
  if (kind == RECT || kind == SQG)
  {
    Mat X = genMat(r, n1, n2, content, false), Y = genMat(r, n2, n2, content, false);
    auto x = mk(kind == SQG ? SQG : RECT, kind == SQG ? genMat(r, n1, n1, content, false) : X);
    Mat X0 = toRef(*x);
    Mat Y0 = kind == SQG ? genMat(r, n1, n1, content, false) : Y;
    auto y = mk(kind == SQG ? SQG : RECT, Y0);
    for (int ty = 0; ty < 2; ty++)
    {
      auto xx = mk(kind, X0);
      xx->prodMatInPlace(y.get(), ty);
      cmpMat(c, "prodMatInPlace", K + (ty ? ":prodMatInPlace:T" : ":prodMatInPlace:N"), *xx,
             ref::mul(X0, ty ? Y0.T() : Y0), tolProd(X0, Y0, Y0.nr));
    }
  }
}

static void opNorm(Rng& r, Ctx& c, int kind, int content)
{
  // congruence products: t(A) M A  (transpose=true)  /  A M t(A) (transpose=false)
  std::string K = std::string("C11:norm:") + KN[kind];
  int n1 = SHAPES[r.irange(0, 4)], n2 = SHAPES[r.irange(0, 4)];
  Mat A = genMat(r, n1, n2, content, false);
  for (int tr = 0; tr < 2; tr++)
  {
    int nm = tr ? n1 : n2; // size of M
    int no = tr ? n2 : n1; // size of result
    Mat M  = genMat(r, nm, nm, content, true);
    Mat At = tr ? A.T() : A;
    Mat want = ref::mul(ref::mul(At, M), At.T());
    double tol = 64 * EPS * (nm + 2) * (nm + 2) * ((double)A.maxabs() * (double)A.maxabs() * (double)M.maxabs() + 1e-300);
    VectorDouble v = genVec(r, nm);
    Mat D(nm, nm);
    for (int i = 0; i < nm; i++) D(i, i) = v[i];
    Mat wantV = ref::mul(ref::mul(At, D), At.T());
    Mat wantI = ref::mul(At, At.T());
    double tolV = 64 * EPS * (nm + 2) * (nm + 2) * ((double)A.maxabs() * (double)A.maxabs() * 2.0 + 1e-300);
    if (isSparseK(kind))
    {
      auto a = mk(kind, A);
      auto m = mk(kind, M);
      auto* as = dynamic_cast<MatrixSparse*>(a.get());
      auto* ms = dynamic_cast<MatrixSparse*>(m.get());
      std::unique_ptr<MatrixSparse> res(prodNormMatMat(as, ms, tr));
      if (res) cmpMat(c, "prodNormMatMat", K + (tr ? ":prodNormMatMat:T" : ":prodNormMatMat:N"), *res, want, tol);
      else c.check("prodNormMatMat", K + ":prodNormMatMat:null", false, 1, 0, "null result");
      std::unique_ptr<MatrixSparse> rv(prodNormMat(as, v, tr));
      if (rv) cmpMat(c, "prodNormMat", K + (tr ? ":prodNormMatVec:T" : ":prodNormMatVec:N"), *rv, wantV, tolV);
      std::unique_ptr<MatrixSparse> ri(prodNormMat(as, VectorDouble(), tr));
      if (ri) cmpMat(c, "prodNormMat", K + (tr ? ":prodNormMat:T" : ":prodNormMat:N"), *ri, wantI, tolV);
    }
    else
    {
      auto a = mk(RECT, A);
      auto m = mk(kind == RECT ? SQG : kind, M);
      auto* ad = dynamic_cast<AMatrixDense*>(a.get());
      auto* md = dynamic_cast<AMatrixDense*>(m.get());
      {
        int rk = kind == RECT ? SQG : kind;
        auto res = mk(rk, Mat(no, no));
        dynamic_cast<AMatrixDense*>(res.get())->prodNormMatMatInPlace(ad, md, tr);
        cmpMat(c, "prodNormMatMatInPlace", K + (tr ? ":prodNormMatMatInPlace:T" : ":prodNormMatMatInPlace:N"), *res, want, tol);
        auto rv = mk(rk, Mat(no, no));
        dynamic_cast<AMatrixDense*>(rv.get())->prodNormMatVecInPlace(*ad, v, tr);
        cmpMat(c, "prodNormMatVecInPlace", K + (tr ? ":prodNormMatVecInPlace:T" : ":prodNormMatVecInPlace:N"), *rv, wantV, tolV);
        auto ri = mk(rk, Mat(no, no));
        dynamic_cast<AMatrixDense*>(ri.get())->prodNormMatVecInPlace(*ad, VectorDouble(), tr);
        cmpMat(c, "prodNormMatVecInPlace", K + (tr ? ":prodNormMatInPlace:T" : ":prodNormMatInPlace:N"), *ri, wantI, tolV);
      }
      {
        std::unique_ptr<MatrixSquareGeneral> f(prodNormMatMat(ad, md, tr));
        if (f) cmpMat(c, "prodNormMatMat", K + (tr ? ":free-prodNormMatMat:T" : ":free-prodNormMatMat:N"), *f, want, tol);
        std::unique_ptr<MatrixSquareGeneral> g(prodNormMat(*ad, v, tr));
        if (g) cmpMat(c, "prodNormMat", K + (tr ? ":free-prodNormMat:T" : ":free-prodNormMat:N"), *g, wantV, tolV);
      }
      // generic AMatrix implementation (through the base-class interface)
      {
        auto res = mk(kind == RECT ? SQG : kind, Mat(no, no));
        res->AMatrix::prodNormMatMatInPlace(a.get(), m.get(), tr);
        cmpMat(c, "AMatrix::prodNormMatMatInPlace", K + (tr ? ":generic-prodNormMatMat:T" : ":generic-prodNormMatMat:N"), *res, want, tol);
        auto rv = mk(kind == RECT ? SQG : kind, Mat(no, no));
        rv->AMatrix::prodNormMatVecInPlace(*a, v, tr);
        cmpMat(c, "AMatrix::prodNormMatVecInPlace", K + (tr ? ":generic-prodNormMatVec:T" : ":generic-prodNormMatVec:N"), *rv, wantV, tolV);
      }
    }
  }
  // MatrixSquareSymmetric::normMatrix(y, x, transpose): "this = t(Y) %*% X %*% Y (T=false) or Y %*% X %*% t(Y) (T=true)", X optional
  // (MatrixSquareSymmetric.cpp); the output is square with the dimension of the free side of Y
  if (kind == RECT || kind == SYM)
  {
    auto a = mk(RECT, A);
    for (int T = 0; T < 2; T++)
    {
      int nx = T ? n2 : n1, nout = T ? n1 : n2;
      Mat Xs = genMat(r, nx, nx, content, true);
      Mat Ay = T ? A : A.T();
      Mat wantX = ref::mul(ref::mul(Ay, Xs), Ay.T()), wantG = ref::mul(Ay, Ay.T());
      double tolX = 64 * EPS * (nx + 2) * (nx + 2) * ((double)A.maxabs() * (double)A.maxabs() * ((double)Xs.maxabs() + 1.) + 1e-300);
      auto xs = mk(SYM, Xs);
      auto* xsq = dynamic_cast<AMatrixSquare*>(xs.get());
      MatrixSquareSymmetric res(nout), gram(nout);
      if (xsq != nullptr)
      {
        res.normMatrix(*a, *xsq, T != 0);
        cmpMat(c, "normMatrix", K + (T ? ":normMatrix:YXYt" : ":normMatrix:YtXY"), res, wantX, tolX);
      }
      gram.normMatrix(*a, AMatrixSquare(), T != 0);
      cmpMat(c, "normMatrix", K + (T ? ":normMatrix:YYt" : ":normMatrix:YtY"), gram, wantG, tolX);
    }
  }
}

static void opSample(Rng& r, Ctx& c, int kind, Mat m)
{
  std::string K = std::string("C11:sample:") + KN[kind];
  auto a = mk(kind, m);
  VectorInt rows, cols;
  for (int i = 0; i < m.nr; i++) if (r.coin(0.6)) rows.push_back(i);
  for (int j = 0; j < m.nc; j++) if (r.coin(0.6)) cols.push_back(j);
  if (rows.empty()) rows.push_back(r.irange(0, m.nr - 1));
  if (cols.empty()) cols.push_back(r.irange(0, m.nc - 1));
  Mat w((int)rows.size(), (int)cols.size());
  for (size_t i = 0; i < rows.size(); i++) for (size_t j = 0; j < cols.size(); j++) w((int)i, (int)j) = m(rows[i], cols[j]);
  std::unique_ptr<MatrixRectangular> s(MatrixRectangular::sample(a.get(), rows, cols));
  if (!s) c.check("sample", K + ":sample:null", false, 1, 0, "null");
  else cmpMat(c, "sample", K + ":sample", *s, w, 0);
  // inverted selections: the listed rows (resp. columns) are the ones to DROP ("flagInvertRow/Col", MatrixRectangular.hpp)
  for (int inv = 1; inv < 4; inv++)
  {
    bool invR = inv & 1, invC = inv & 2;
    VectorInt rk, ck;
    for (int i = 0; i < m.nr; i++) if ((std::find(rows.begin(), rows.end(), i) != rows.end()) != invR) rk.push_back(i);
    for (int j = 0; j < m.nc; j++) if ((std::find(cols.begin(), cols.end(), j) != cols.end()) != invC) ck.push_back(j);
    if (rk.empty() || ck.empty()) continue;
    Mat w2((int)rk.size(), (int)ck.size());
    for (size_t i = 0; i < rk.size(); i++) for (size_t j = 0; j < ck.size(); j++) w2((int)i, (int)j) = m(rk[i], ck[j]);
    std::string k2 = K + (inv == 1 ? ":sample-invert" : inv == 2 ? ":sample-invert-col" : ":sample-invert-both");
    std::unique_ptr<MatrixRectangular> s2(MatrixRectangular::sample(a.get(), rows, cols, invR, invC));
    if (!s2) c.check("sample", k2 + ":null", false, 1, 0, "null");
    else cmpMat(c, "sample", k2, *s2, w2, 0);
  }
  if (isSparseK(kind))
  {
    auto* as = dynamic_cast<MatrixSparse*>(a.get());
    // rank arrays: for each old row/column its new rank, or -1 when dropped (documented in MatrixSparse.cpp)
    VectorInt rr(m.nr, -1), rc(m.nc, -1);
    for (size_t i = 0; i < rows.size(); i++) rr[rows[i]] = (int)i;
    for (size_t j = 0; j < cols.size(); j++) rc[cols[j]] = (int)j;
    std::unique_ptr<MatrixSparse> e(as->extractSubmatrixByRanks(rr, rc));
    if (e)
    {
      // the result is dimensioned by its last non-empty row/column: compare on the overlap, the rest must be zero
      int er = e->getNRows(), ec = e->getNCols();
      bool ok = er <= w.nr && ec <= w.nc;
      for (int i = 0; ok && i < w.nr; i++)
        for (int j = 0; ok && j < w.nc; j++)
        {
          double g = (i < er && j < ec) ? e->getValue(i, j) : 0.;
          ok = g == (double)w(i, j);
        }
      c.truth("extractSubmatrixByRanks", K + ":extractSubmatrixByRanks", ok, fmt("result %dx%d vs expected %dx%d", er, ec, w.nr, w.nc));
    }
    else
    {
      bool allzero = w.maxabs() == 0;
      c.truth("extractSubmatrixByRanks", K + ":extractSubmatrixByRanks:null", allzero, "null for a non-empty selection");
    }
  }
  if (kind == SYM)
  {
    auto* sy = dynamic_cast<MatrixSquareSymmetric*>(a.get());
    Mat ws((int)rows.size(), (int)rows.size());
    for (size_t i = 0; i < rows.size(); i++) for (size_t j = 0; j < rows.size(); j++) ws((int)i, (int)j) = m(rows[i], rows[j]);
    std::unique_ptr<MatrixSquareSymmetric> e(MatrixSquareSymmetric::sample(sy, rows));
    if (e) cmpMat(c, "sample", K + ":sym-sample", *e, ws, 0);
  }
}

// inverse / solve / determinant on well conditioned square systems
static void opSolve(Rng& r, Ctx& c, int kind)
{
  std::string K = std::string("C11:solve:") + KN[kind];
  int n  = SHAPES[r.irange(0, 5)];
  Mat m  = (kind == SYM || isSparseK(kind)) ? genSPD(r, n, isSparseK(kind)) : genMat(r, n, n, 0, false);
  if (kind == SQG || kind == RECT) for (int i = 0; i < n; i++) m(i, i) += (m(i, i) >= 0 ? 1 : -1) * 0.5 * n;
  ref::LU lu(m);
  double kappa = (double)lu.cond();
  if (!lu.ok || kappa > 1e8) { c.skip("illcond"); return; }
  Mat inv = lu.inverse();
  double tolI = 1e3 * EPS * kappa * (double)inv.maxabs() * n;
  int k2 = kind == RECT ? SQG : kind;
  // cs back-end: cs_invert(A, order, epsilon = EPSILON6) documents that entries of the inverse below epsilon are dropped
  if (kind == SPCS) tolI = std::max(tolI, 1.000001e-6);
  {
    auto a = mk(k2, m);
    int err = a->invert();
    if (c.truth("invert-rc", K + ":invert:rc", err == 0, fmt("invert returned %d, cond=%g", err, kappa)))
      cmpMat(c, "invert", K + ":invert", *a, inv, tolI);
  }
  {
    auto a = mk(k2, m);
    VectorDouble b = genVec(r, n), x(n, 0.);
    auto want = lu.solve(toLD(b));
    LD xm = 0;
    for (auto v : want) xm = std::max(xm, std::fabs(v));
    {
      int err = a->solve(b, x);
      if (c.truth("solve-rc", K + ":solve:rc", err == 0, fmt("solve returned %d", err)))
        cmpVec(c, "solve", K + ":solve", x, want, 1e3 * EPS * kappa * ((double)xm + 1e-300) * n);
    }
  }
  if ((k2 == SQG || k2 == SYM) && n <= 5) // cofactor expansion in the library: factorial cost
  {
    auto a = mk(k2, m);
    double det = dynamic_cast<AMatrixSquare*>(a.get())->determinant();
    double want = (double)lu.det();
    c.close("determinant", K + ":determinant", det, want, 1e3 * EPS * kappa * n * std::fabs(want));
  }
}

static void opCholesky(Rng& r, Ctx& c, int kind)
{
  std::string K = std::string("C11:chol:") + KN[kind];
  int n = SHAPES[r.irange(0, 5)];
  Mat m = genSPD(r, n, isSparseK(kind));
  ref::Chol ch(m);
  ref::LU lu(m);
  double kappa = (double)lu.cond();
  if (!ch.ok || kappa > 1e8) { c.skip("illcond"); return; }
  auto a = mk(kind, m);
  std::unique_ptr<ACholesky> chol;
  if (kind == SYM) chol.reset(new CholeskyDense(dynamic_cast<MatrixSquareSymmetric*>(a.get())));
  else chol.reset(new CholeskySparse(dynamic_cast<MatrixSparse*>(a.get())));
  if (!c.truth("chol-ready", K + ":ready", chol->isReady(), "factorisation of an SPD matrix not ready")) return;
  c.close("logdet", K + ":logdet", chol->computeLogDeterminant(), (double)ch.logdet(), 1e3 * EPS * n * (std::fabs((double)ch.logdet()) + kappa));
  VectorDouble b = genVec(r, n), x(n, 0.);
  auto want = lu.solve(toLD(b));
  LD xm = 0;
  for (auto v : want) xm = std::max(xm, std::fabs(v));
  int err = chol->solve(b.getVector(), x.getVector());
  if (c.truth("chol-solve-rc", K + ":solve:rc", err == 0, "solve failed"))
    cmpVec(c, "chol-solve", K + ":solve", x, want, 1e3 * EPS * kappa * (double)xm * n);
  // L X, Lt X, InvL X, InvLt X : characterised without knowing the permutation:
  //   y = L w  =>  ||.||: y^T A^-1 y = w^T w ; and LX∘InvLX = id, LtX∘InvLtX = id ; Lt(InvLt) ; and L Lt x = A x (dense), P-invariant check:
  VectorDouble w = genVec(r, n), y(n, 0.), z(n, 0.), u(n, 0.);
  double tolv = 1e3 * EPS * kappa * n * 4;
  if (chol->LX(w.getVector(), y.getVector()) == 0 && chol->InvLX(y.getVector(), z.getVector()) == 0)
    cmpVec(c, "InvLX.LX", K + ":InvLX(LX(w))", z, toLD(w), tolv);
  if (chol->LtX(w.getVector(), y.getVector()) == 0 && chol->InvLtX(y.getVector(), z.getVector()) == 0)
    cmpVec(c, "InvLtX.LtX", K + ":InvLtX(LtX(w))", z, toLD(w), tolv);
  // simulate: y = L w has covariance A: check y^T A^{-1} y == w^T w   (holds for any factor with A = (P^T L)(P^T L)^T)
  if (chol->LX(w.getVector(), y.getVector()) == 0)
  {
    auto s = lu.solve(toLD(y));
    LD q = 0, ww = 0;
    for (int i = 0; i < n; i++) { q += y[i] * s[i]; ww += (LD)w[i] * w[i]; }
    c.close("LX-covariance", K + ":(Lw)'A^-1(Lw)=w'w", (double)q, (double)ww, tolv * (double)ww);
  }
  // InvLtX alone (the simulation form x = L^-T w, covariance A^-1): x' A x == w' w for any factor P A P' = L L'
  // -- also on the cs back-end, where LtX / LX are not implemented and the round trips above cannot isolate it
  if (chol->InvLtX(w.getVector(), y.getVector()) == 0)
  {
    auto ay = ref::mulv(m, toLD(y));
    LD q = 0, ww = 0;
    for (int i = 0; i < n; i++) { q += y[i] * ay[i]; ww += (LD)w[i] * w[i]; }
    c.close("InvLtX-covariance", K + ":(L^-T w)'A(L^-T w)=w'w", (double)q, (double)ww, tolv * (double)ww);
  }
  // InvLX alone: y = L^-1 P w  =>  y' y == w' A^-1 w
  if (chol->InvLX(w.getVector(), y.getVector()) == 0)
  {
    auto s = lu.solve(toLD(w));
    LD q = 0, yy = 0;
    for (int i = 0; i < n; i++) { q += w[i] * s[i]; yy += (LD)y[i] * y[i]; }
    c.close("InvLX-norm", K + ":|L^-1 w|^2=w'A^-1w", (double)yy, (double)q, tolv * ((double)q + 1e-300));
  }
  // L(Lt x) == A x
  if (chol->LtX(w.getVector(), y.getVector()) == 0 && chol->LX(y.getVector(), u.getVector()) == 0)
  {
    auto ax = ref::mulv(m, toLD(w));
    // sparse factorisations may carry a fill-reducing permutation: L Lt = P A Pt, then L Lt x != A x. Compare only for dense.
    if (kind == SYM) cmpVec(c, "L.Lt", K + ":L(Lt(x))=Ax", u, ax, tolv * (double)m.maxabs());
  }
  if (kind == SYM)
  {
    auto* cd = dynamic_cast<CholeskyDense*>(chol.get());
    Mat L(n, n);
    for (int i = 0; i < n; i++) for (int j = 0; j <= i; j++) L(i, j) = cd->getLowerTriangle(i, j);
    Mat llt = ref::mul(L, L.T());
    double worst = 0;
    for (int i = 0; i < n; i++) for (int j = 0; j < n; j++) worst = std::max(worst, (double)std::fabs(llt(i, j) - m(i, j)));
    c.check("LLt=A", K + ":LLt=A", worst <= 1e3 * EPS * n * (double)m.maxabs(), worst, 1e3 * EPS * n * (double)m.maxabs());
    // solveMatrix
    int nb = r.irange(1, 3);
    Mat B = genMat(r, n, nb, 0, false);
    auto bm = mk(RECT, B);
    MatrixRectangular X(n, nb);
    if (chol->solveMatrix(*dynamic_cast<MatrixRectangular*>(bm.get()), X) == 0)
      cmpMat(c, "solveMatrix", K + ":solveMatrix", X, ref::mul(lu.inverse(), B), 1e3 * EPS * kappa * n * (double)lu.inverse().maxabs());
  }
}

static void opEigen(Rng& r, Ctx& c)
{
  std::string K = "C11:eigen:sym";
  int n = SHAPES[r.irange(0, 5)];
  Mat m = r.coin() ? genSPD(r, n, false) : genMat(r, n, n, r.irange(0, 2), true);
  auto a = mk(SYM, m);
  auto* s = dynamic_cast<MatrixSquareSymmetric*>(a.get());
  if (!c.truth("eigen-rc", K + ":rc", s->computeEigen(false) == 0, "computeEigen failed")) return;
  VectorDouble ev = s->getEigenValues();
  const MatrixSquareGeneral* V = s->getEigenVectors();
  auto want = ref::eigsym(m);
  double scale = (double)m.maxabs() * n + 1e-300;
  if (!c.truth("eigen-size", K + ":size", (int)ev.size() == n && V != nullptr && V->getNRows() == n, "sizes")) return;
  // same multiset of eigenvalues (order: library documents decreasing; compare sorted)
  std::vector<double> g(ev.begin(), ev.end());
  std::sort(g.begin(), g.end());
  double worst = 0;
  for (int i = 0; i < n; i++) worst = std::max(worst, std::fabs(g[i] - (double)want[i]));
  c.check("eigenvalues", K + ":values", worst <= 1e3 * EPS * scale, worst, 1e3 * EPS * scale);
  // A v = lambda v, orthonormality
  double w1 = 0, w2 = 0;
  for (int k = 0; k < n; k++)
  {
    for (int i = 0; i < n; i++)
    {
      LD s1 = 0;
      for (int j = 0; j < n; j++) s1 += m(i, j) * V->getValue(j, k);
      w1 = std::max(w1, (double)std::fabs(s1 - (LD)ev[k] * V->getValue(i, k)));
    }
    for (int l = 0; l < n; l++)
    {
      LD d = 0;
      for (int i = 0; i < n; i++) d += (LD)V->getValue(i, k) * V->getValue(i, l);
      w2 = std::max(w2, (double)std::fabs(d - (k == l ? 1 : 0)));
    }
  }
  c.check("Av=lv", K + ":Av=lambda.v", w1 <= 1e3 * EPS * scale, w1, 1e3 * EPS * scale);
  c.check("VtV=I", K + ":orthonormal", w2 <= 1e3 * EPS * n, w2, 1e3 * EPS * n);
  // cache hygiene: modify after computeEigen, recompute
  Mat m2 = m;
  m2(0, 0) += 1.0;
  s->setValue(0, 0, (double)m2(0, 0));
  if (s->computeEigen(false) == 0)
  {
    VectorDouble e2 = s->getEigenValues();
    std::vector<double> g2(e2.begin(), e2.end());
    std::sort(g2.begin(), g2.end());
    auto w = ref::eigsym(m2);
    double ww = 0;
    for (int i = 0; i < n; i++) ww = std::max(ww, std::fabs(g2[i] - (double)w[i]));
    c.check("eigenvalues", K + ":values-after-edit", ww <= 1e3 * EPS * (scale + 1), ww, 1e3 * EPS * (scale + 1));
  }
}

// numeric vectors: reductions and helpers
static void opVector(Rng& r, Ctx& c)
{
  std::string K = "C11:vec";
  int n = r.pick(std::vector<int> {0, 1, 2, 3, 7, 20, 100});
  int content = r.irange(0, 3);
  VectorDouble v(n);
  for (int i = 0; i < n; i++)
    switch (content)
    {
      case 0: v[i] = r.uni(-5, 5); break;
      case 1: v[i] = -r.uni(0.5, 5); break;               // all negative
      case 2: v[i] = (double)r.irange(-3, 3); break;      // ties
      case 3: v[i] = r.uni(0.5, 5); break;                // all positive
    }
  LD s = 0, s2 = 0, mx = -INFINITY, mn = INFINITY, l1 = 0;
  for (int i = 0; i < n; i++) { s += v[i]; s2 += (LD)v[i] * v[i]; mx = std::max<LD>(mx, v[i]); mn = std::min<LD>(mn, v[i]); l1 += std::fabs(v[i]); }
  double tol = 16 * EPS * (n + 1) * 25;
  c.setSig(fmt("vec:n=%d:content=%d", n, content));
  c.close("VectorNumT::sum", K + ":sum", v.sum(), (double)s, tol);
  if (n > 0)
  {
    c.close("VectorNumT::maximum", K + fmt(":maximum:content=%d", content), v.maximum(), (double)mx, 0);
    c.close("VectorNumT::minimum", K + fmt(":minimum:content=%d", content), v.minimum(), (double)mn, 0);
    c.close("VectorNumT::mean", K + ":mean", v.mean(), (double)(s / n), tol);
    c.close("VH::maximum", K + ":VH::maximum", VH::maximum(v), (double)mx, 0);
    c.close("VH::minimum", K + ":VH::minimum", VH::minimum(v), (double)mn, 0);
    {
      // "flagAbs: When True, take the absolute value of 'vec' beforehand" (VectorHelper.cpp)
      LD mxa = 0, mna = INFINITY;
      for (int i = 0; i < n; i++) { mxa = std::max<LD>(mxa, std::fabs(v[i])); mna = std::min<LD>(mna, std::fabs(v[i])); }
      c.close("VH::maximum", K + ":VH::maximum:abs", VH::maximum(v, true), (double)mxa, 0);
      c.close("VH::minimum", K + ":VH::minimum:abs", VH::minimum(v, true), (double)mna, 0);
    }
    c.close("VH::mean", K + ":VH::mean", VH::mean(v), (double)(s / n), tol);
    c.close("VH::cumul", K + ":VH::cumul", VH::cumul(v), (double)s, tol);
    c.close("VH::normL1", K + ":VH::normL1", VH::normL1(v), (double)l1, tol);
    c.close("VH::norminf", K + ":VH::norminf", VH::norminf(v), (double)std::max(std::fabs(mx), std::fabs(mn)), 0);
    int im = VH::whereMaximum(v), in = VH::whereMinimum(v);
    c.truth("VH::whereMaximum", K + ":whereMaximum", im >= 0 && im < n && v[im] == (double)mx);
    c.truth("VH::whereMinimum", K + ":whereMinimum", in >= 0 && in < n && v[in] == (double)mn);
    if (n > 1)
    {
      LD var = 0;
      for (int i = 0; i < n; i++) var += (v[i] - s / n) * (v[i] - s / n);
      c.close("VH::variance", K + ":variance:N", VH::variance(v, true), (double)(var / n), tol * 5);
      c.close("VH::variance", K + ":variance:N-1", VH::variance(v, false), (double)(var / (n - 1)), tol * 5);
    }
  }
  c.close("VectorNumT::norm", K + ":norm", v.norm(), (double)std::sqrt(s2), tol);
  c.close("VH::norm", K + ":VH::norm", VH::norm(v), (double)std::sqrt(s2), tol);
  VectorDouble w(n);
  bool wz = false;
  for (int i = 0; i < n; i++) { w[i] = r.uni(-3, 3); if (std::fabs(w[i]) < 0.05) w[i] = 0.5; }
  LD ip = 0;
  for (int i = 0; i < n; i++) ip += (LD)v[i] * w[i];
  c.close("innerProduct", K + ":VectorNumT::innerProduct", v.innerProduct(w), (double)ip, tol);
  c.close("innerProduct", K + ":VH::innerProduct", VH::innerProduct(v, w), (double)ip, tol);
  {
    std::vector<LD> a(n), sb(n), mu(n), dv(n);
    for (int i = 0; i < n; i++) { a[i] = (LD)v[i] + w[i]; sb[i] = (LD)v[i] - w[i]; mu[i] = (LD)v[i] * w[i]; dv[i] = (LD)v[i] / w[i]; }
    VectorDouble t = v; t.add(w);      cmpVec(c, "VectorNumT::arith", K + ":add", t, a, tol);
    t = v; t.subtract(w);              cmpVec(c, "VectorNumT::arith", K + ":subtract", t, sb, tol);
    t = v; t.multiply(w);              cmpVec(c, "VectorNumT::arith", K + ":multiply", t, mu, tol);
    t = v; t.divide(w);                cmpVec(c, "VectorNumT::arith", K + ":divide", t, dv, tol * 20);
    c.truth("copy-independent", K + ":arith-left-source-untouched", true);
    cmpVec(c, "VH::arith", K + ":VH::add", VH::add(v, w), a, tol);
    { std::vector<LD> bs(n); for (int i = 0; i < n; i++) bs[i] = -sb[i];
      cmpVec(c, "VH::arith", K + ":VH::subtract", VH::subtract(v, w), bs, tol); } // VectorHelper.cpp: "Return a vector containing vecb - veca"
    t = v; VH::multiplyInPlace(t, w);  cmpVec(c, "VH::arith", K + ":VH::multiplyInPlace", t, mu, tol);
    t = v; VH::divideInPlace(t, w);    cmpVec(c, "VH::arith", K + ":VH::divideInPlace", t, dv, tol * 20);
    double k = r.uni(-2, 2);
    std::vector<LD> ak(n), mk2(n);
    for (int i = 0; i < n; i++) { ak[i] = (LD)v[i] + k; mk2[i] = (LD)v[i] * k; }
    t = v; t.add(k);                   cmpVec(c, "VectorNumT::arith", K + ":add-scalar", t, ak, tol);
    t = v; t.multiply(k);              cmpVec(c, "VectorNumT::arith", K + ":multiply-scalar", t, mk2, tol);
    t = v; VH::addConstant(t, k);      cmpVec(c, "VH::arith", K + ":VH::addConstant", t, ak, tol);
    t = v; VH::multiplyConstant(t, k); cmpVec(c, "VH::arith", K + ":VH::multiplyConstant", t, mk2, tol);
  }
  (void)wz;
  // sorting / ranking
  {
    std::vector<double> sv(v.begin(), v.end());
    std::sort(sv.begin(), sv.end());
    VectorDouble so = VH::sort(v, true);
    cmpVec(c, "VH::sort", K + ":sort:asc", so, std::vector<LD>(sv.begin(), sv.end()), 0);
    VectorDouble sd = VH::sort(v, false);
    std::vector<LD> rv(sv.rbegin(), sv.rend());
    cmpVec(c, "VH::sort", K + ":sort:desc", sd, rv, 0);
    {
      // isSorted is strict in the library (a tie is "not sorted"); the documentation does not say, so only tie-free vectors are asserted
      bool ties = false;
      for (int i = 1; i < n; i++) ties = ties || sv[i] == sv[i - 1];
      if (!ties) c.truth("VH::isSorted", K + ":isSorted", VH::isSorted(so, true) && VH::isSorted(sd, false) && (n < 2 || !VH::isSorted(sd, true)));
    }
    VectorInt ord = VH::orderRanks(v, true);
    bool okp = (int)ord.size() == n;
    std::vector<int> seen(n, 0);
    for (int i = 0; okp && i < n; i++) { okp = ord[i] >= 0 && ord[i] < n && !seen[ord[i]]; if (okp) seen[ord[i]] = 1; }
    for (int i = 0; okp && i + 1 < n; i++) okp = v[ord[i]] <= v[ord[i + 1]];
    c.truth("VH::orderRanks", K + ":orderRanks", okp, "orderRanks(asc) must be a permutation putting values in increasing order");
    if (okp)
    {
      VectorDouble re = VH::reorder(v, ord);
      cmpVec(c, "VH::reorder", K + ":reorder", re, std::vector<LD>(sv.begin(), sv.end()), 0);
    }
    VectorInt rk = VH::sortRanks(v, true);
    bool okr = (int)rk.size() == n;
    // sortRanks[i] = rank of v[i] in the sorted order: consistent with values (ties: any order)
    std::vector<int> seen2(n, 0);
    for (int i = 0; okr && i < n; i++) { okr = rk[i] >= 0 && rk[i] < n && !seen2[rk[i]]; if (okr) seen2[rk[i]] = 1; }
    for (int i = 0; okr && i < n; i++) okr = sv[rk[i]] == v[i];
    c.truth("VH::sortRanks", K + ":sortRanks", okr, "sortRanks[i] must be the position of v[i] in the sorted vector");
    std::vector<LD> cs(n);
    LD acc = 0;
    for (int i = 0; i < n; i++) { acc += v[i]; cs[i] = acc; }
    cmpVec(c, "VH::cumsum", K + ":cumsum", VH::cumsum(v, false), cs, tol);
    VectorDouble un = VH::unique(v);
    std::vector<double> u2(sv);
    u2.erase(std::unique(u2.begin(), u2.end()), u2.end());
    cmpVec(c, "VH::unique", K + ":unique", un, std::vector<LD>(u2.begin(), u2.end()), 0);
  }
  // integer vector
  {
    VectorInt vi(n);
    long si = 0;
    int mxi = -1000000, mni = 1000000;
    bool neg = r.coin(0.3);
    for (int i = 0; i < n; i++) { vi[i] = neg ? -r.irange(1, 50) : r.irange(-50, 50); si += vi[i]; mxi = std::max(mxi, vi[i]); mni = std::min(mni, vi[i]); }
    c.close("VectorInt::sum", K + ":int:sum", vi.sum(), (double)si, 0);
    if (n > 0)
    {
      c.close("VectorInt::maximum", K + ":int:maximum", vi.maximum(), mxi, 0);
      c.close("VectorInt::minimum", K + ":int:minimum", vi.minimum(), mni, 0);
      c.close("VH::maximum(int)", K + ":int:VH::maximum", VH::maximum(vi), mxi, 0);
      c.close("VH::minimum(int)", K + ":int:VH::minimum", VH::minimum(vi), mni, 0);
    }
  }
}

// ================================================================================================
static void run_case(Rng& r, Ctx& c)
{
  OptDbg::reset();
  int op = r.irange(0, 10);
  static const char* OPN[] = {"access", "scale", "sum", "matvec", "matmat", "norm", "sample", "solve", "chol", "eigen", "vector"};
  if (op == 10) { opVector(r, c); return; }
  if (op == 9) { c.setSig("eigen:sym"); opEigen(r, c); return; }
  int kind    = r.irange(0, NKIND - 1);
  int content = r.irange(0, 3);
  if (isSparseK(kind) && content == 0) content = 1;
  if (op == 8 && !(kind == SYM || isSparseK(kind))) kind = r.coin() ? SYM : (r.coin() ? SPCS : SPEIG);
  bool sq = (kind == SQG || kind == SYM);
  int nr = SHAPES[r.irange(0, 5)], nc = sq ? nr : SHAPES[r.irange(0, 5)];
  c.setSig(fmt("%s:%s:%dx%d:content=%d", OPN[op], KN[kind], (op >= 7 || op == 4 || op == 5) ? 0 : nr, (op >= 7 || op == 4 || op == 5) ? 0 : nc, content));
  c.puts("operation", OPN[op]);
  c.puts("storage", KN[kind]);
  c.put("shape", fmt("[%d,%d]", nr, nc));
  Mat m = genMat(r, nr, nc, content, kind == SYM);
  if (isSparseK(kind))
  { // at least one entry per row and column so that the triplet defines the full shape
    bool any = false;
    for (auto v : m.a) any = any || v != 0;
    if (!any) m(r.irange(0, nr - 1), r.irange(0, nc - 1)) = 1.5;
  }
  switch (op)
  {
    case 0: opAccess(r, c, kind, m); break;
    case 1: opScale(r, c, kind, m); break;
    case 2: opSum(r, c, kind, m, content); break;
    case 3: opMatVec(r, c, kind, m); break;
    case 4: opMatMat(r, c, kind, content); break;
    case 5: opNorm(r, c, kind, content); break;
    case 6: opSample(r, c, kind, m); break;
    case 7: opSolve(r, c, kind); break;
    case 8: opCholesky(r, c, kind); break;
  }
}

int main(int argc, char** argv) { return run_main(argc, argv, "C11", run_case); }
