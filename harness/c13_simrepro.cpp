// C13 — simulations are reproducible from their seed and honour their conditioning.
//
// Every case draws one configuration of one simulator family and executes it several times:
//   A  reference run (freshly built inputs)
//   B  same inputs, same seed, back-to-back                      -> bit-identical to A   (oracle repro-b2b)
//   C  same, after unrelated use of the random generator         -> bit-identical to A   (oracle repro-perturbed)
//   D  same, in a pristine process (zygote forked before the
//      first library call of this worker, see c13_fresh.hpp)     -> bit-identical to A   (oracle repro-fresh)
//   E  same inputs, another seed                                 -> differs from A       (oracle seeds-differ)
// plus, on run A: simulation ranks i != j differ (ranks-differ), number of created columns (ncols), conditioning
// data honoured at coinciding targets (cond-exact), interval constraints honoured (bounds), facies honoured (facies).
//
// Seed conventions used (quoted from the library):
//  * src/Basic/Law.cpp law_set_random_seed(): "if (seed > 0) { Random_value = seed; ... }" — a seed <= 0 does NOT
//    reseed: the call then continues the current global stream (simpgs relies on this: "local_seed = 0" for the second
//    GRF). Hence for seed <= 0 the harness sets the documented global seed (law_set_random_seed(g), g > 0)
//    immediately before the call and only then claims reproducibility.
//  * simulateSPDE has no seed argument; tests/cpp/test_SPDEAPI.cpp sets law_set_random_seed(s) immediately before
//    each call: that is the convention monitored here.
//  * Db::getSimRank(isimu, ivar, icase, nbsimu, nvar) = isimu + nbsimu * (ivar + nvar * icase) is the documented
//    layout of the ELoc::SIMU columns created by simtub (used to locate "simulation isimu of variable ivar").
//  * NamingConvention::_createNames: name = prefix.<variable>.<item>, variable-major, item (simulation) 1-based.
#include "common/vh.hpp"
#include "common/c13_fresh.hpp"
#include "common/ref_linalg.hpp"

#include "geoslib_f.h"
#include "Db/Db.hpp"
#include "Db/DbGrid.hpp"
#include "Model/Model.hpp"
#include "Neigh/NeighUnique.hpp"
#include "Neigh/NeighMoving.hpp"
#include "Simulation/CalcSimuTurningBands.hpp"
#include "Simulation/CalcSimuFFT.hpp"
#include "Simulation/SimuFFTParam.hpp"
#include "API/SPDE.hpp"
#include "API/SPDEParam.hpp"
#include "LithoRule/Rule.hpp"
#include "LithoRule/RuleProp.hpp"
#include "Basic/Law.hpp"
#include "Basic/OptDbg.hpp"
#include "Space/ASpaceObject.hpp"
#include "Space/SpacePoint.hpp"
#include <memory>
#include <set>

using namespace vh;
using c13::Blob;
using c13::Out;

// input class that makes gibbs_sampler read past the end of its model vector (see final report); default: generate it
// (developer convenience: environment C13_AVOID=1 turns both AVOID switches on, e.g. to run bin/vtry past the crashes)
static const bool DEV_AVOID = getenv("C13_AVOID") != nullptr && atoi(getenv("C13_AVOID")) != 0;
static const bool AVOID_GIBBS_MULTIMONO_NVAR2 = false || DEV_AVOID;
// NeighMoving::create(flag, nmaxi, radius) without anisotropy coefficients assumes a 2-D space
// (BiTargetCheckDistance.cpp:56 "_ndim = 2"): heap-buffer-overflow in 1-D, third coordinate ignored in 3-D.
// true = pass explicit unit coefficients when ndim != 2 (C06 territory); default: generate the plain call
static const bool AVOID_MOVING_RADIUS_NOCOEFFS_NOT2D = false || DEV_AVOID;

enum Family { F_TUB = 0, F_FFT, F_SPDE, F_GIBBS, F_LGBB, F_PGS, F_BIPGS, F_SEED, NFAM };
static const char* FAMN[] = {"simtub", "simfft", "spde", "gibbs", "lgbb", "simpgs", "simbipgs", "seed"};

static const int LCG_M = 20000159; // Random_congruent in Law.cpp
// state of the congruential generator after its first step from seed s (Law.cpp law_uniform, old style)
static unsigned lcgFirst(int s) { return ((unsigned)105u * (unsigned)s) % (unsigned)LCG_M; }

// ------------------------------------------------------------------------------------------------------------
struct CovSpec
{
  std::string type;
  double param = 1.;
  std::vector<double> ranges, angles, sills; // sills: nvar*nvar
};
struct ModelSpec
{
  int ndim = 2, nvar = 1;
  std::vector<CovSpec> covs;
  std::vector<double> means;
  int drift = -1; // -1: known mean (simple kriging); 0: universality condition (setDriftIRF(0))
  double totalSill(int iv) const
  {
    double s = 0;
    for (auto& c : covs) s += c.sills[iv * nvar + iv];
    return s;
  }
};
struct RNode
{
  int type = 0; // 0 leaf, 1 "S" (threshold on y1), 2 "T" (threshold on y2)
  int fac  = 0; // leaf: facies number (1-based)
  int l = -1, r = -1;
};
struct Cfg
{
  int family = 0;
  int ndim   = 2;
  ModelSpec model, model2;
  // target
  bool targetGrid = true;
  std::vector<int> nx;
  std::vector<double> dx, x0, gangles;
  int ntarget = 0;
  std::vector<double> tcoords; // points target: ndim * ntarget, column-major
  // data
  bool cond = false;
  int ndat  = 0;
  std::vector<int> datTarget;  // >=0: datum sits exactly on that target sample; -1: free location
  std::vector<double> dfree;   // ndim * ndat (used when datTarget < 0)
  std::vector<int> datNear;    // >=0: datum sits at a tiny offset (nearOff) from that target sample (no coincidence)
  std::vector<double> nearOff; // ndim * ndat
  std::vector<double> dvals;   // nvar * ndat (variable-major), TEST = undefined
  // neighbourhood
  int neighMoving = 0, nmaxi = 8;
  double radius = 1.234e30;
  // simulation
  int nbsimu = 1, nbtuba = 50, seed = 1, gseed = 0;
  // fft
  bool fftAlias = true;
  double fftPercent = 0.1;
  // spde
  int chol = 0;
  // gibbs
  std::vector<double> L, U; // nvar * ndat
  int nburn = 10, niter = 50;
  bool gMoving = false, gNorm = false, gMM = false;
  double percent = 5.;
  // pgs
  std::vector<RNode> rule, rule2;
  std::vector<std::string> ruleNames, ruleNames2;
  int nfac = 0, nfac2 = 0;
  std::vector<double> props;
  bool flagGaus = false;
  // lgbb
  std::vector<double> la, lb;
  std::vector<std::string> lclass;
  int ldraws = 50;
  bool newStyle = false; // run every execution of this configuration with law_set_old_style(false) (Mersenne twister)
  std::string sig;
};

// ------------------------------------------------------------------------------------------------------------
// generators
// ------------------------------------------------------------------------------------------------------------
static int drawSeed(Rng& r)
{
  for (;;)
  {
    int s;
    switch (r.irange(0, 9))
    {
      case 0: s = 1; break;
      case 1: s = r.irange(2, 1000); break;
      case 2: s = 43431; break;
      case 3: s = r.irange(1000, 20000000); break;
      case 4: s = r.coin() ? LCG_M - 1 : LCG_M + 1; break;
      case 5: s = r.irange(20452226, 2147483646); break; // 105 * s exceeds 2^31: the product wraps
      case 6: s = 2147483647; break;
      case 7: s = r.coin() ? 0 : -r.irange(1, 100000); break; // "do not reseed" class
      default: s = (int)(r.next() % 2147483647ULL) + 1; break;
    }
    if (s > 0 && (s % LCG_M == 0 || lcgFirst(s) == 0)) continue; // degenerate stream, covered by family "seed"
    return s;
  }
}
static int drawGSeed(Rng& r) { return r.irange(1, 19999999); }

static const char* STRUCTS[] = {"SPHERICAL", "EXPONENTIAL", "GAUSSIAN", "CUBIC", "MATERN", "STABLE", "SINCARD", "BESSELJ"};

static CovSpec drawCov(Rng& r, int ndim, int nvar, double L, const std::vector<std::string>& allowed)
{
  CovSpec c;
  c.type = r.pick(allowed);
  if (c.type == "MATERN") c.param = r.pick(std::vector<double>{0.5, 1., 1.5, 2.5});
  else if (c.type == "STABLE") c.param = r.uni(0.6, 1.8);
  else if (c.type == "BESSELJ") c.param = r.uni(1., 3.);
  else c.param = 1.;
  double rg = r.uni(0.2, 0.8) * L;
  c.ranges.assign(ndim, rg);
  if (ndim > 1 && r.coin(0.6))
    for (int d = 1; d < ndim; d++) c.ranges[d] = rg * r.loguni(0.25, 1.);
  if (ndim == 2 && r.coin(0.6)) c.angles = {r.uni(-90, 90), 0.};
  if (ndim == 3 && r.coin(0.4)) c.angles = {r.uni(-90, 90), r.uni(-40, 40), r.uni(-40, 40)};
  c.sills.assign(nvar * nvar, 0.);
  if (nvar == 1) c.sills[0] = r.loguni(0.3, 4.);
  else
  {
    // A A^T + small diagonal: valid, strongly cross-correlated of either sign
    std::vector<double> a(nvar * nvar);
    for (auto& v : a) v = r.uni(-1.5, 1.5);
    for (int i = 0; i < nvar; i++)
      for (int j = 0; j < nvar; j++)
      {
        double s = 0;
        for (int k = 0; k < nvar; k++) s += a[i * nvar + k] * a[j * nvar + k];
        c.sills[i * nvar + j] = s + (i == j ? 0.2 : 0.);
      }
  }
  return c;
}
static ModelSpec drawModel(Rng& r, int ndim, int nvar, double L, const std::vector<std::string>& allowed, int maxcov,
                           bool allowNugget)
{
  ModelSpec m;
  m.ndim   = ndim;
  m.nvar   = nvar;
  int ncov = r.irange(1, maxcov);
  for (int i = 0; i < ncov; i++) m.covs.push_back(drawCov(r, ndim, nvar, L, allowed));
  if (allowNugget && r.coin(0.25))
  {
    CovSpec c = drawCov(r, ndim, nvar, L, {"SPHERICAL"});
    c.type    = "NUGGET";
    c.angles.clear();
    for (auto& s : c.sills) s *= 0.2;
    m.covs.push_back(c);
  }
  m.means.assign(nvar, 0.);
  if (r.coin(0.5))
    for (auto& v : m.means) v = r.uni(-20, 20);
  return m;
}

static void drawGridTarget(Rng& r, Cfg& c, double L, int maxNodes)
{
  c.targetGrid = true;
  int ndim     = c.ndim;
  c.nx.resize(ndim);
  c.dx.resize(ndim);
  c.x0.resize(ndim);
  int per = ndim == 1 ? maxNodes : ndim == 2 ? (int)std::sqrt((double)maxNodes) : (int)std::cbrt((double)maxNodes);
  int n   = 1;
  for (int d = 0; d < ndim; d++)
  {
    c.nx[d] = r.irange(ndim == 1 ? 8 : 3, std::max(ndim == 1 ? 8 : 3, per + (ndim == 2 ? 2 : 0)));
    c.dx[d] = L / c.nx[d] * r.uni(0.8, 1.2);
    c.x0[d] = r.uni(-5, 5);
    n *= c.nx[d];
  }
  c.gangles.clear();
  if (ndim == 2 && r.coin(0.3)) c.gangles = {r.uni(-80, 80), 0.};
  c.ntarget = n;
}
static void drawPointTarget(Rng& r, Cfg& c, double L, int n)
{
  c.targetGrid = false;
  c.ntarget    = n;
  c.tcoords.resize(c.ndim * n);
  for (auto& v : c.tcoords) v = r.uni(0, L);
}
// data: ndat samples, a fraction sitting exactly on distinct targets
static void drawData(Rng& r, Cfg& c, double L, int ndat, double fracOnTarget, bool hetero, double nearFrac = 0.)
{
  c.ndat = ndat;
  c.datTarget.assign(ndat, -1);
  c.dfree.resize(c.ndim * ndat);
  for (auto& v : c.dfree) v = r.uni(0, L);
  std::vector<int> p = r.perm(c.ntarget);
  int k              = 0;
  for (int i = 0; i < ndat; i++)
    if (r.coin(fracOnTarget) && k < (int)p.size()) c.datTarget[i] = p[k++];
  if (k == 0 && !p.empty()) c.datTarget[r.irange(0, ndat - 1)] = p[k++];
  // data at 2e-4 (domain = 10, ranges >= 0.5) from a target: far beyond the coincidence tolerance 1e-6 * diagonal of
  // CalcSimuTurningBands::_updateData2ToTarget, close enough for the kriging variance at that target to be tiny
  c.datNear.assign(ndat, -1);
  c.nearOff.assign(c.ndim * ndat, 0.);
  for (int i = 0; i < ndat; i++)
    if (c.datTarget[i] < 0 && r.coin(nearFrac) && k < (int)p.size())
    {
      c.datNear[i] = p[k++];
      double nn = 0;
      std::vector<double> u(c.ndim);
      for (auto& v : u) { v = r.normal(); nn += v * v; }
      for (int d = 0; d < c.ndim; d++) c.nearOff[d * ndat + i] = 2e-4 * u[d] / std::sqrt(nn + 1e-300);
    }
  int nvar = c.model.nvar;
  c.dvals.resize(nvar * ndat);
  for (int iv = 0; iv < nvar; iv++)
  {
    double sd = std::sqrt(c.model.totalSill(iv));
    for (int i = 0; i < ndat; i++) c.dvals[iv * ndat + i] = c.model.means[iv] + sd * r.normal();
  }
  if (hetero && nvar > 1)
    for (int i = 0; i < ndat; i++)
      if (r.coin(0.25)) c.dvals[r.irange(0, nvar - 1) * ndat + i] = 1.234e30;
}

static void drawTub(Rng& r, Cfg& c, bool th)
{
  c.family = F_TUB;
  int dsel = r.irange(0, 9);
  c.ndim   = dsel == 0 ? 1 : dsel <= 7 ? 2 : 3;
  double L = 10.;
  int nvar = r.coin(0.35) ? 2 : 1;
  std::vector<std::string> allowed(STRUCTS, STRUCTS + 8);
  if (r.coin(0.4)) allowed = {"GAUSSIAN", "CUBIC", "SINCARD", "BESSELJ"}; // smooth band processes (see krigResidual)
  c.model = drawModel(r, c.ndim, nvar, L, allowed, 2, true);
  if (r.coin(0.65)) drawGridTarget(r, c, L, th ? 400 : 64);
  else drawPointTarget(r, c, L, r.irange(5, th ? 120 : 30));
  c.cond = r.coin(0.6);
  if (c.cond)
  {
    drawData(r, c, L, r.irange(4, th ? 40 : 14), 0.4, true, 0.4);
    c.model.drift = r.coin(0.3) ? 0 : -1;
    c.neighMoving = r.coin(0.4);
    c.nmaxi       = r.irange(4, 10);
    c.radius      = r.coin(0.5) ? 1.234e30 : L * r.uni(0.8, 2.);
  }
  c.nbsimu = r.irange(1, 5);
  c.nbtuba = r.pick(std::vector<int>{1, 2, 3, 5, 10, 30, 100, 100, 200, 200});
  c.seed   = drawSeed(r);
  c.gseed  = c.seed <= 0 ? drawGSeed(r) : 0;
  c.sig    = fmt("simtub:ndim=%d:nvar=%d:%s:%s:%s:drift=%d:ncov=%d:c0=%s:nbs=%d:nbt=%d:seed=%s", c.ndim, nvar,
                 c.targetGrid ? "grid" : "points", c.cond ? "cond" : "nc", !c.cond ? "-" : c.neighMoving ? "moving" : "unique",
                 c.model.drift, (int)c.model.covs.size(), c.model.covs[0].type.c_str(), c.nbsimu, c.nbtuba,
                 c.seed <= 0 ? "global" : c.seed >= 20452226 ? "wrap" : "plain");
}
static void drawFft(Rng& r, Cfg& c, bool th)
{
  c.family = F_FFT;
  int dsel = r.irange(0, 9);
  c.ndim   = dsel == 0 ? 1 : dsel <= 7 ? 2 : 3;
  double L = 10.;
  c.model  = drawModel(r, c.ndim, 1, L, {"SPHERICAL", "EXPONENTIAL", "GAUSSIAN", "CUBIC", "MATERN"}, 2, false);
  for (auto& cv : c.model.covs)
    for (auto& rg : cv.ranges) rg *= 0.5; // keep the extended FFT grid small
  c.model.means = {0.};
  drawGridTarget(r, c, L, th ? 400 : 100);
  c.fftAlias   = r.coin(0.7);
  c.fftPercent = r.pick(std::vector<double>{0.1, 1., 5.});
  c.nbsimu     = r.coin(0.5) ? 1 : r.irange(2, 4);
  c.seed       = drawSeed(r);
  c.gseed      = c.seed <= 0 ? drawGSeed(r) : 0;
  c.sig        = fmt("simfft:ndim=%d:ncov=%d:c0=%s:alias=%d:nbs=%d:seed=%s", c.ndim, (int)c.model.covs.size(),
                     c.model.covs[0].type.c_str(), (int)c.fftAlias, c.nbsimu,
                     c.seed <= 0 ? "global" : c.seed >= 20452226 ? "wrap" : "plain");
}
static void drawSpde(Rng& r, Cfg& c, bool th)
{
  c.family = F_SPDE;
  c.ndim   = 2;
  double L = 10.;
  c.model  = drawModel(r, 2, 1, L, {"MATERN"}, 1, false);
  c.model.covs[0].param = r.coin(0.7) ? 1. : 2.;
  for (auto& rg : c.model.covs[0].ranges) rg = std::max(rg, 3.); // mesh size ~ (L / range * refine)^2
  c.model.means = {0.};
  drawGridTarget(r, c, L, th ? 144 : 49);
  c.cond = r.coin(0.4);
  if (c.cond) drawData(r, c, L, r.irange(4, 10), 0.5, false);
  c.chol   = r.irange(0, 1);
  c.nbsimu = r.irange(1, 3);
  c.seed   = 0;
  c.gseed  = drawGSeed(r);
  c.sig    = fmt("spde:%s:chol=%d:nu=%g:nbs=%d", c.cond ? "cond" : "nc", c.chol, c.model.covs[0].param, c.nbsimu);
}
static void drawGibbs(Rng& r, Cfg& c, bool th)
{
  c.family = F_GIBBS;
  c.ndim   = 2;
  double L = 10.;
  int nvar = r.coin(0.3) ? 2 : 1;
  c.model  = drawModel(r, 2, nvar, L, {"SPHERICAL", "EXPONENTIAL", "GAUSSIAN", "CUBIC", "MATERN"}, 1, false);
  c.model.means.assign(nvar, 0.);
  // Gibbs works on Gaussian scale: unit-ish variances
  {
    CovSpec& cv = c.model.covs[0];
    if (nvar == 1) cv.sills[0] = 1.;
    else
    {
      double rho = r.uni(-0.9, 0.9);
      cv.sills   = {1., rho, rho, 1.};
    }
  }
  drawPointTarget(r, c, L, 0);
  int n  = r.irange(4, th ? 60 : 22);
  c.ndat = n;
  c.datTarget.assign(n, -1);
  c.dfree.resize(2 * n);
  for (auto& v : c.dfree) v = r.uni(0, L);
  c.L.assign(nvar * n, 1.234e30);
  c.U.assign(nvar * n, 1.234e30);
  int style = r.irange(0, 4); // 0 mixed, 1 mostly tight/tail, 2 mostly one-sided, 3 few constraints, 4 mutually consistent
  double latent = r.uni(-2., 2.);
  for (int k = 0; k < nvar * n; k++)
  {
    int t = r.irange(0, 9);
    if (style == 4)
    {
      // intervals around a common level: constraints that a correlated field can satisfy together
      double y = latent + 0.3 * r.normal(), w = r.loguni(1e-4, 0.5);
      switch (r.irange(0, 4))
      {
        case 0: break;
        case 1: c.L[k] = y - w; break;
        case 2: c.U[k] = y + w; break;
        case 3: c.L[k] = y - w * r.u01(); c.U[k] = c.L[k] + w; break;
        case 4: c.L[k] = c.U[k] = y; break;
      }
      continue;
    }
    if (style == 1) t = r.coin(0.7) ? 6 + r.irange(0, 1) : t;
    if (style == 2) t = r.coin(0.7) ? 1 + r.irange(0, 1) : t;
    if (style == 3) t = r.coin(0.7) ? 0 : t;
    double a = r.uni(-2.5, 2.5);
    switch (t)
    {
      case 0: break;                                                          // free
      case 1: c.L[k] = a; break;                                              // lower only
      case 2: c.U[k] = a; break;                                              // upper only
      case 3:
      case 4: c.L[k] = a; c.U[k] = a + r.uni(0.2, 2.); break;                 // two-sided
      case 5: c.L[k] = c.U[k] = a; break;                                     // equality
      case 6: c.L[k] = a; c.U[k] = a + r.loguni(1e-6, 0.05); break;           // tight
      case 7: { double s = r.coin() ? 1 : -1, b = r.uni(3., 4.5);             // tight, far in the tail
                double w = r.loguni(1e-4, 0.05);
                c.L[k] = s > 0 ? b : -b - w; c.U[k] = s > 0 ? b + w : -b; break; }
      case 8: c.L[k] = r.uni(2.5, 4.); break;                                 // one-sided in the tail
      case 9: c.U[k] = -r.uni(2.5, 4.); break;
    }
  }
  for (int iv = 0; iv < nvar; iv++) c.L[iv * n] = c.U[iv * n] = 1.234e30; // sample 0 stays free (see caseGibbs)
  c.nburn   = r.irange(3, 15);
  c.niter   = c.nburn + r.irange(5, th ? 100 : 40);
  c.gMoving = r.coin(0.3);
  c.gNorm   = r.coin(0.3);
  c.gMM     = r.coin(0.2);
  if (AVOID_GIBBS_MULTIMONO_NVAR2 && nvar > 1) c.gMM = false;
  c.percent = r.pick(std::vector<double>{0., 1., 5., 10.});
  c.nbsimu  = r.irange(1, 3);
  c.seed    = drawSeed(r);
  c.gseed   = c.seed <= 0 ? drawGSeed(r) : 0;
  c.sig     = fmt("gibbs:nvar=%d:c0=%s:style=%d:moving=%d:norm=%d:mm=%d:nbs=%d:seed=%s", nvar,
                  c.model.covs[0].type.c_str(), style, (int)c.gMoving, (int)c.gNorm, (int)c.gMM, c.nbsimu,
                  c.seed <= 0 ? "global" : c.seed >= 20452226 ? "wrap" : "plain");
}
static void drawLgbb(Rng& r, Cfg& c, bool th)
{
  c.family = F_LGBB;
  int n    = th ? 60 : 30;
  const double T = 1.234e30;
  for (int i = 0; i < n; i++)
  {
    double a = T, b = T;
    std::string cl;
    switch (r.irange(0, 9))
    {
      case 0: a = r.uni(-4, 4); b = a + r.uni(0.01, 4); cl = "two-sided"; break;
      case 1: a = r.uni(-12, 12); cl = "lower-only"; break;
      case 2: b = r.uni(-12, 12); cl = "upper-only"; break;
      case 3: a = b = r.uni(-6, 6); cl = "equal"; break;
      case 4: a = r.uni(-9, 9); b = a + r.loguni(1e-12, 1e-3); cl = "tight"; break;
      case 5: { double s = r.coin() ? 1 : -1, t = r.uni(4, 38), w = r.loguni(1e-6, 1.);
                a = s > 0 ? t : -t - w; b = s > 0 ? t + w : -t; cl = "tail-two-sided"; break; }
      case 6: a = r.uni(12, 19.5); cl = "lower-only-tail"; break;
      case 7: b = -r.uni(12, 19.5); cl = "upper-only-tail"; break;
      case 8: if (r.coin()) { a = r.uni(20.5, 40); cl = "lower-only-beyond-20"; } else { b = -r.uni(20.5, 40); cl = "upper-only-beyond-20"; } break;
      case 9: a = r.uni(-3, 0); b = r.uni(0, 3); cl = "straddle-zero"; break;
    }
    c.la.push_back(a);
    c.lb.push_back(b);
    c.lclass.push_back(cl);
  }
  c.ldraws = th ? 200 : 60;
  do c.seed = drawSeed(r); while (c.seed <= 0);
  c.sig = "lgbb";
}

// ---- lithotype rules ---------------------------------------------------------------------------------------
static int buildRule(Rng& r, std::vector<RNode>& nodes, std::vector<int>& facs, int lo, int hi, int depth)
{
  RNode n;
  int id = (int)nodes.size();
  nodes.push_back(n);
  if (hi - lo == 1)
  {
    nodes[id].type = 0;
    nodes[id].fac  = facs[lo];
    return id;
  }
  nodes[id].type = (depth == 0) ? 1 : (r.coin() ? 1 : 2);
  int mid        = r.irange(lo + 1, hi - 1);
  int l          = buildRule(r, nodes, facs, lo, mid, depth + 1);
  int rr         = buildRule(r, nodes, facs, mid, hi, depth + 1);
  nodes[id].l    = l;
  nodes[id].r    = rr;
  return id;
}
static void ruleNames(const std::vector<RNode>& nodes, int id, std::vector<std::string>& out)
{
  const RNode& n = nodes[id];
  if (n.type == 0) { out.push_back("F" + std::to_string(n.fac)); return; }
  out.push_back(n.type == 1 ? "S" : "T");
  ruleNames(nodes, n.l, out);
  ruleNames(nodes, n.r, out);
}
static bool ruleUsesT(const std::vector<RNode>& nodes)
{
  for (auto& n : nodes)
    if (n.type == 2) return true;
  return false;
}
static void drawRule(Rng& r, int nfac, std::vector<RNode>& nodes, std::vector<std::string>& names)
{
  std::vector<int> facs(nfac);
  for (int i = 0; i < nfac; i++) facs[i] = i + 1;
  r.shuffle(facs);
  nodes.clear();
  names.clear();
  buildRule(r, nodes, facs, 0, nfac, 0);
  ruleNames(nodes, 0, names);
}
static void drawProps(Rng& r, int n, std::vector<double>& p)
{
  p.resize(n);
  double s = 0;
  for (auto& v : p) { v = 0.4 + r.u01(); s += v; }
  for (auto& v : p) v /= s;
}
static void drawPgs(Rng& r, Cfg& c, bool th, bool bi)
{
  c.family = bi ? F_BIPGS : F_PGS;
  c.ndim   = 2;
  double L = 10.;
  std::vector<std::string> allowed = {"SPHERICAL", "EXPONENTIAL", "CUBIC", "MATERN"};
  c.model  = drawModel(r, 2, 1, L, allowed, 1, false);
  c.model2 = drawModel(r, 2, 1, L, allowed, 1, false);
  c.model.covs[0].sills = {1.};
  c.model2.covs[0].sills = {1.};
  c.model.means = c.model2.means = {0.};
  drawGridTarget(r, c, L, th ? 225 : 64);
  c.nfac = r.irange(2, 5);
  drawRule(r, c.nfac, c.rule, c.ruleNames);
  if (bi)
  {
    c.nfac2 = r.irange(2, 3);
    drawRule(r, c.nfac2, c.rule2, c.ruleNames2);
    drawProps(r, c.nfac * c.nfac2, c.props);
  }
  else drawProps(r, c.nfac, c.props);
  c.cond = r.coin(0.75);
  if (c.cond)
  {
    int n  = r.irange(4, th ? 30 : 12);
    c.ndat = n;
    c.datTarget.assign(n, -1);
    c.dfree.resize(2 * n);
    for (auto& v : c.dfree) v = r.uni(0, L);
    std::vector<int> p = r.perm(c.ntarget);
    for (int i = 0; i < n && i < (int)p.size(); i++)
      if (r.coin(0.8) || i == 0) c.datTarget[i] = p[i];
    int nz = bi ? 2 : 1;
    c.dvals.resize(nz * n);
    for (int i = 0; i < n; i++)
    {
      c.dvals[i] = r.irange(1, c.nfac);
      if (bi) c.dvals[n + i] = r.irange(1, c.nfac2);
    }
  }
  c.flagGaus = r.coin(0.4);
  c.nbsimu   = r.irange(1, 3);
  c.nbtuba   = r.pick(std::vector<int>{10, 30, 100});
  c.nburn    = 10;
  c.niter    = r.irange(40, 100);
  c.seed     = drawSeed(r);
  c.gseed    = c.seed <= 0 ? drawGSeed(r) : 0;
  int ngrf   = ruleUsesT(c.rule) ? 2 : 1;
  c.sig      = fmt("%s:%s:nfac=%d:ngrf=%d:gaus=%d:nbs=%d:seed=%s", bi ? "simbipgs" : "simpgs", c.cond ? "cond" : "nc", c.nfac,
                   ngrf, (int)c.flagGaus, c.nbsimu, c.seed <= 0 ? "global" : c.seed >= 20452226 ? "wrap" : "plain");
  if (bi) c.sig += fmt(":nfac2=%d:ngrf2=%d", c.nfac2, ruleUsesT(c.rule2) ? 2 : 1);
}

// ---- fixed scenarios ---------------------------------------------------------------------------------------------
// Every FIXED_PERIOD-th case is a fixed (seed-independent) scenario, so that the input classes of the open findings that the
// random generator only reaches occasionally are exercised by every run of both tiers, under the same keys as the random cases:
//   0  gibbs, upper-only bound next to a conflicting lower-only bound (normalised upper bound below -20)
//   1  gibbs with a moving neighbourhood on a 7x7 lattice with a gaussian covariance (condition number ~1e6)
//   2  gibbs multi-mono with a bivariate model
//   3  generator-level seed semantics
static const long FIXED_PERIOD = 200, FIXED_PHASE = 7;
static bool isFixedCase(long icase) { return icase % FIXED_PERIOD == FIXED_PHASE; }
static void fixedGibbs(Cfg& c, int sub)
{
  const double T = 1.234e30;
  c.family = F_GIBBS;
  c.ndim   = 2;
  c.model.ndim = 2;
  c.targetGrid = false;
  c.ntarget    = 0;
  CovSpec cv;
  cv.param = 1.;
  if (sub == 0)
  {
    // samples 1 and 2 are 0.08 apart under a cubic covariance of range 5 (correlation 0.998, conditional st. dev. 0.06):
    // with Y1 >= 2.8 the bound Y2 <= 1.1 is 28 conditional standard deviations below the conditional mean
    c.model.nvar = 1;
    cv.type = "CUBIC"; cv.ranges = {5., 5.}; cv.sills = {1.};
    c.ndat  = 6;
    c.dfree = {1., 5., 5.08, 9., 2., 8.,   1., 5., 5., 2., 8., 7.};
    c.L = {T, 2.8, T, T, T, T};
    c.U = {T, T, 1.1, T, T, T};
    c.gMoving = false; c.nburn = 5; c.niter = 40; c.percent = 0.;
    c.sig = "fixed:gibbs:upper-only-vs-close-lower-only";
  }
  else if (sub == 1)
  {
    c.model.nvar = 1;
    cv.type = "GAUSSIAN"; cv.ranges = {3.5, 3.5}; cv.sills = {1.};
    int k = 7, n = k * k;
    c.ndat = n;
    c.dfree.resize(2 * n);
    for (int i = 0; i < n; i++)
    {
      c.dfree[i]     = (i % k) * 1.0 + 0.013 * ((i * 7) % 5);
      c.dfree[n + i] = (i / k) * 1.0 + 0.011 * ((i * 3) % 7);
    }
    c.L.assign(n, T);
    c.U.assign(n, T);
    c.gMoving = true; c.nburn = 5; c.niter = 80; c.percent = 0.;
    c.sig = "fixed:gibbs:moving:gaussian-lattice";
  }
  else
  {
    c.model.nvar = 2;
    cv.type = "SPHERICAL"; cv.ranges = {5., 5.}; cv.sills = {1., 0.5, 0.5, 1.};
    c.ndat  = 5;
    c.dfree = {1., 4., 7., 2., 8.,   3., 9., 2., 6., 1.};
    c.L.assign(10, T);
    c.U.assign(10, T);
    c.L[1] = 0.5; c.U[7] = -0.5;
    c.gMoving = false; c.gMM = true; c.nburn = 5; c.niter = 30; c.percent = 5.;
    c.sig = "fixed:gibbs:multimono-bivariate";
  }
  c.model.covs  = {cv};
  c.model.means.assign(c.model.nvar, 0.);
  c.datTarget.assign(c.ndat, -1);
  c.gNorm = false;
  c.nbsimu = 1;
  c.seed   = 4321;
  c.gseed  = 0;
}

static Cfg drawCfg(Rng& r, bool th, long icase)
{
  Cfg c;
  if (isFixedCase(icase))
  {
    int sub = (int)((icase / FIXED_PERIOD) % 4);
    if (sub == 2 && AVOID_GIBBS_MULTIMONO_NVAR2) sub = 0;
    if (sub < 3) fixedGibbs(c, sub);
    else { c.family = F_SEED; c.sig = "fixed:seed"; }
    return c;
  }
  int f = r.irange(0, 99);
  if (f < 45) drawTub(r, c, th);
  else if (f < 53) drawFft(r, c, th);
  else if (f < 58) drawSpde(r, c, th);
  else if (f < 73) drawGibbs(r, c, th);
  else if (f < 80) drawLgbb(r, c, th);
  else if (f < 92) drawPgs(r, c, th, false);
  else if (f < 98) drawPgs(r, c, th, true);
  else { c.family = F_SEED; c.sig = "seed"; }
  // one non-conditional monovariate turning-bands case in three simulates a POWER (intrinsic) structure: its 1-D process is
  // initialised from the exponent AND the scale (CalcSimuTurningBands::_power1DInit)
  if (c.family == F_TUB && !c.cond && c.model.nvar == 1 && icase % 3 == 1)
  {
    c.model.covs[0].type  = "POWER";
    c.model.covs[0].param = 0.4 + 0.1 * (double)(icase % 15);
    c.sig += ":power";
  }
  // one case in four runs with the new-style generator (decided on the case index: the draws above are unchanged)
  if (c.family != F_SEED && icase % 4 == 2)
  {
    c.newStyle = true;
    c.sig += ":newstyle";
  }
  return c;
}

// ------------------------------------------------------------------------------------------------------------
// building library objects
// ------------------------------------------------------------------------------------------------------------
static std::unique_ptr<Model> buildModel(const ModelSpec& m)
{
  Model* model = nullptr;
  for (size_t i = 0; i < m.covs.size(); i++)
  {
    const CovSpec& c = m.covs[i];
    ECov type        = ECov::fromKey(c.type);
    VectorDouble ranges(c.ranges), sills(c.sills), angles(c.angles);
    if (i == 0) model = Model::createFromParam(type, 1., 1., c.param, ranges, sills, angles);
    else model->addCovFromParam(type, 1., 1., c.param, ranges, sills, angles);
  }
  if (model == nullptr) throw SkipCase{"model-null"};
  model->setMeans(VectorDouble(m.means));
  if (m.drift == 0) model->setDriftIRF(0);
  return std::unique_ptr<Model>(model);
}
static std::unique_ptr<Db> buildTarget(const Cfg& c)
{
  if (c.targetGrid)
    return std::unique_ptr<Db>(DbGrid::create(VectorInt(c.nx), VectorDouble(c.dx), VectorDouble(c.x0), VectorDouble(c.gangles)));
  VectorString names, locs;
  for (int d = 0; d < c.ndim; d++)
  {
    names.push_back("x" + std::to_string(d + 1));
    locs.push_back("x" + std::to_string(d + 1));
  }
  return std::unique_ptr<Db>(Db::createFromSamples(c.ntarget, ELoadBy::COLUMN, VectorDouble(c.tcoords), names, locs));
}
// data Db: coordinates copied from the target Db for coinciding data (so that they coincide to the last bit)
static std::unique_ptr<Db> buildData(const Cfg& c, const Db* target, const std::vector<std::string>& extraNames,
                                     const std::vector<std::string>& extraLocs, const std::vector<double>& extra)
{
  int n = c.ndat;
  std::vector<double> tab(c.ndim * n);
  for (int i = 0; i < n; i++)
    for (int d = 0; d < c.ndim; d++)
    {
      if (c.datTarget[i] >= 0 && target != nullptr) tab[d * n + i] = target->getCoordinate(c.datTarget[i], d);
      else if (!c.datNear.empty() && c.datNear[i] >= 0 && target != nullptr)
        tab[d * n + i] = target->getCoordinate(c.datNear[i], d) + c.nearOff[d * n + i];
      else tab[d * n + i] = c.dfree[d * n + i];
    }
  tab.insert(tab.end(), extra.begin(), extra.end());
  VectorString names, locs;
  for (int d = 0; d < c.ndim; d++)
  {
    names.push_back("x" + std::to_string(d + 1));
    locs.push_back("x" + std::to_string(d + 1));
  }
  for (auto& s : extraNames) names.push_back(s);
  for (auto& s : extraLocs) locs.push_back(s);
  return std::unique_ptr<Db>(Db::createFromSamples(n, ELoadBy::COLUMN, VectorDouble(tab), names, locs));
}
static void collect(const Db* db, int ncol0, Out& o)
{
  int nc = db->getColumnNumber(), n = db->getSampleNumber();
  for (int ic = ncol0; ic < nc; ic++)
  {
    o.names.push_back(db->getNameByColIdx(ic));
    std::vector<double> v(n);
    for (int i = 0; i < n; i++) v[i] = db->getValueByColIdx(i, ic);
    o.cols.push_back(v);
  }
}

// ------------------------------------------------------------------------------------------------------------
// executions (one library call on freshly built inputs)
// ------------------------------------------------------------------------------------------------------------
static Out execTub(const Cfg& c, int seed, int gseed)
{
  defineDefaultSpace(ESpaceType::RN, c.ndim);
  auto target = buildTarget(c);
  auto model  = buildModel(c.model);
  std::unique_ptr<Db> data;
  std::unique_ptr<ANeigh> neigh;
  if (c.cond)
  {
    std::vector<std::string> nm, lc;
    for (int iv = 0; iv < c.model.nvar; iv++)
    {
      nm.push_back("v" + std::to_string(iv + 1));
      lc.push_back("z" + std::to_string(iv + 1));
    }
    data = buildData(c, target.get(), nm, lc, c.dvals);
    if (c.neighMoving)
    {
      VectorDouble coeffs;
      if (AVOID_MOVING_RADIUS_NOCOEFFS_NOT2D && c.ndim != 2) coeffs = VectorDouble(c.ndim, 1.);
      neigh.reset(NeighMoving::create(false, c.nmaxi, c.radius, 1, 1, ITEST, coeffs));
    }
    else neigh.reset(NeighUnique::create());
  }
  Out o;
  int ncol0 = target->getColumnNumber();
  if (gseed > 0) law_set_random_seed(gseed);
  o.rc = simtub(data.get(), target.get(), model.get(), neigh.get(), c.nbsimu, seed, c.nbtuba);
  collect(target.get(), ncol0, o);
  return o;
}
static Out execFft(const Cfg& c, int seed, int gseed)
{
  defineDefaultSpace(ESpaceType::RN, c.ndim);
  auto target  = buildTarget(c);
  auto model   = buildModel(c.model);
  DbGrid* grid = dynamic_cast<DbGrid*>(target.get());
  SimuFFTParam par(c.fftAlias, c.fftPercent);
  Out o;
  int ncol0 = target->getColumnNumber();
  if (gseed > 0) law_set_random_seed(gseed);
  o.rc = simfft(grid, model.get(), par, c.nbsimu, seed);
  collect(target.get(), ncol0, o);
  return o;
}
static Out execSpde(const Cfg& c, int /*seed*/, int gseed)
{
  defineDefaultSpace(ESpaceType::RN, c.ndim);
  auto target = buildTarget(c);
  auto model  = buildModel(c.model);
  std::unique_ptr<Db> data;
  if (c.cond) data = buildData(c, target.get(), {"v1"}, {"z1"}, c.dvals);
  SPDEParam par(8, 10, 4);
  Out o;
  int ncol0 = target->getColumnNumber();
  // documented convention (tests/cpp/test_SPDEAPI.cpp): the global seed is set immediately before the call
  law_set_random_seed(gseed);
  o.rc = simulateSPDE(data.get(), target.get(), model.get(), nullptr, c.nbsimu, nullptr, c.chol, par);
  collect(target.get(), ncol0, o);
  return o;
}
static Out execGibbs(const Cfg& c, int seed, int gseed)
{
  defineDefaultSpace(ESpaceType::RN, c.ndim);
  auto model = buildModel(c.model);
  int nvar   = c.model.nvar;
  std::vector<std::string> nm, lc;
  std::vector<double> extra;
  for (int iv = 0; iv < nvar; iv++) { nm.push_back("lo" + std::to_string(iv + 1)); lc.push_back("lower" + std::to_string(iv + 1)); }
  for (int iv = 0; iv < nvar; iv++) { nm.push_back("up" + std::to_string(iv + 1)); lc.push_back("upper" + std::to_string(iv + 1)); }
  extra.insert(extra.end(), c.L.begin(), c.L.end());
  extra.insert(extra.end(), c.U.begin(), c.U.end());
  auto data = buildData(c, nullptr, nm, lc, extra);
  Out o;
  int ncol0 = data->getColumnNumber();
  if (gseed > 0) law_set_random_seed(gseed);
  o.rc = gibbs_sampler(data.get(), model.get(), c.nbsimu, seed, c.nburn, c.niter, c.gMoving, c.gNorm, c.gMM, false, false, 0,
                       c.percent, false, false, false);
  collect(data.get(), ncol0, o);
  return o;
}
static Out execPgs(const Cfg& c, int seed, int gseed)
{
  defineDefaultSpace(ESpaceType::RN, c.ndim);
  auto target = buildTarget(c);
  auto m1     = buildModel(c.model);
  auto m2     = buildModel(c.model2);
  std::unique_ptr<Db> data;
  std::unique_ptr<ANeigh> neigh(NeighUnique::create());
  if (c.cond) data = buildData(c, target.get(), {"fac"}, {"z1"}, c.dvals);
  std::unique_ptr<Rule> rule(Rule::createFromNames(VectorString(c.ruleNames)));
  if (!rule) throw SkipCase{"rule-null"};
  std::unique_ptr<RuleProp> rp(RuleProp::createFromRule(rule.get(), VectorDouble(c.props)));
  if (!rp) throw SkipCase{"ruleprop-null"};
  bool useT = ruleUsesT(c.rule);
  Out o;
  int ncol0 = target->getColumnNumber();
  if (gseed > 0) law_set_random_seed(gseed);
  o.rc = simpgs(data.get(), target.get(), rp.get(), m1.get(), useT ? m2.get() : nullptr, neigh.get(), c.nbsimu, seed,
                c.flagGaus, false, false, false, c.nbtuba, c.nburn, c.niter);
  collect(target.get(), ncol0, o);
  return o;
}
static Out execBiPgs(const Cfg& c, int seed, int gseed)
{
  defineDefaultSpace(ESpaceType::RN, c.ndim);
  auto target = buildTarget(c);
  auto m11 = buildModel(c.model), m12 = buildModel(c.model2), m21 = buildModel(c.model2), m22 = buildModel(c.model);
  std::unique_ptr<Db> data;
  std::unique_ptr<ANeigh> neigh(NeighUnique::create());
  if (c.cond) data = buildData(c, target.get(), {"fac1", "fac2"}, {"z1", "z2"}, c.dvals);
  std::unique_ptr<Rule> rule1(Rule::createFromNames(VectorString(c.ruleNames)));
  std::unique_ptr<Rule> rule2(Rule::createFromNames(VectorString(c.ruleNames2)));
  if (!rule1 || !rule2) throw SkipCase{"rule-null"};
  std::unique_ptr<RuleProp> rp(RuleProp::createFromRules(rule1.get(), rule2.get(), VectorDouble(c.props)));
  if (!rp) throw SkipCase{"ruleprop-null"};
  Out o;
  int ncol0 = target->getColumnNumber();
  if (gseed > 0) law_set_random_seed(gseed);
  o.rc = simbipgs(data.get(), target.get(), rp.get(), m11.get(), ruleUsesT(c.rule) ? m12.get() : nullptr, m21.get(),
                  ruleUsesT(c.rule2) ? m22.get() : nullptr, neigh.get(), c.nbsimu, seed, c.flagGaus, false, false, false,
                  c.nbtuba, c.nburn, c.niter);
  collect(target.get(), ncol0, o);
  return o;
}
static Out execLgbb(const Cfg& c, int seed, int /*gseed*/)
{
  Out o;
  o.rc = 0;
  law_set_random_seed(seed);
  for (size_t i = 0; i < c.la.size(); i++)
  {
    std::vector<double> v(c.ldraws);
    for (auto& x : v) x = law_gaussian_between_bounds(c.la[i], c.lb[i]);
    o.cols.push_back(v);
    o.names.push_back(c.lclass[i]);
  }
  return o;
}
static Out execute1(const Cfg& c, int seed, int gseed)
{
  switch (c.family)
  {
    case F_TUB: return execTub(c, seed, gseed);
    case F_FFT: return execFft(c, seed, gseed);
    case F_SPDE: return execSpde(c, seed, gseed);
    case F_GIBBS: return execGibbs(c, seed, gseed);
    case F_LGBB: return execLgbb(c, seed, gseed);
    case F_PGS: return execPgs(c, seed, gseed);
    case F_BIPGS: return execBiPgs(c, seed, gseed);
  }
  return Out();
}
static Out execute(const Cfg& c, int seed, int gseed)
{
  // law_set_old_style: "true for using Old Style; false for using New Style" (Law.cpp); old style is the default
  law_set_old_style(!c.newStyle);
  Out o = execute1(c, seed, gseed);
  law_set_old_style(true);
  return o;
}

// unrelated use of the global generator and of the default space between two runs
static void perturb(uint64_t k)
{
  law_set_random_seed((int)(k % 1000003ULL) + 17);
  double s = 0;
  int n    = 3 + (int)(k % 11);
  for (int i = 0; i < n; i++) s += law_gaussian() + law_uniform(0., 1.);
  (void)law_poisson(3.);
  (void)law_random_path(5);
  defineDefaultSpace(ESpaceType::RN, 1 + (int)(k % 3));
  (void)s;
}

// ---- pristine-process execution ----------------------------------------------------------------------------
struct FreshReq
{
  uint64_t vseed;
  int64_t icase;
  int32_t thorough, simseed, gseed;
};
static Blob freshFn(const Blob& req)
{
  FreshReq q;
  if (req.size() != sizeof q) return Blob();
  memcpy(&q, req.data(), sizeof q);
  Rng r(q.vseed, "C13", (uint64_t)q.icase);
  Cfg c = drawCfg(r, q.thorough != 0, (long)q.icase);
  Out o = execute(c, q.simseed, q.gseed);
  return o.pack();
}
static c13::Fresh g_fresh;

// ------------------------------------------------------------------------------------------------------------
// oracles
// ------------------------------------------------------------------------------------------------------------
static const double TESTV = 1.234e30;
static bool undef(double v) { return v > 1.0e30 || std::isnan(v); }

static std::string K(const Cfg& c, const std::string& what) { return std::string("C13:") + FAMN[c.family] + ":" + what; }

static std::string diffDetail(const Out& a, const Out& b)
{
  if (a.rc != b.rc) return fmt("rc %d vs %d", a.rc, b.rc);
  if (a.cols.size() != b.cols.size()) return fmt("columns %zu vs %zu", a.cols.size(), b.cols.size());
  if (a.names != b.names) return "column names differ";
  auto d = a.firstDiff(b);
  if (d.first < 0) return "sizes differ";
  return fmt("col %d (%s) sample %d: %.17g vs %.17g", d.first, a.names[d.first].c_str(), d.second, a.cols[d.first][d.second],
             b.cols[d.first][d.second]);
}

// reproducibility trio + seeds-differ; 'mask' = samples on which two different realisations are allowed to coincide
static void reproOracles(Rng& r, Ctx& c, const Cfg& cfg, const Out& A, const std::string& cls, const std::vector<char>& freeSample,
                         bool discreteOutput = false)
{
  Out B = execute(cfg, cfg.seed, cfg.gseed);
  c.check("repro-b2b", K(cfg, "repro:back-to-back" + cls), A.sameBits(B), A.sameBits(B) ? 0 : 1, 0, A.sameBits(B) ? "" : diffDetail(A, B));
  perturb(r.next());
  if (cfg.family == F_TUB)
  {
    // unrelated use of the SAME simulator on sibling models: other third parameters, then the same parameters at another
    // scale (what a cache keyed on part of the model would confuse with the configuration under test)
    Cfg s1 = cfg, s2 = cfg;
    for (auto& cv : s1.model.covs)
    {
      if (cv.type == "POWER") cv.param = cv.param < 1. ? cv.param + 0.7 : cv.param - 0.6;
      else if (cv.type == "STABLE") cv.param = cv.param < 1.2 ? cv.param + 0.5 : cv.param - 0.5;
      else if (cv.type == "MATERN") cv.param = cv.param == 0.5 ? 1.5 : 0.5;
      else if (cv.type == "BESSELJ") cv.param = cv.param + 0.5;
    }
    for (auto& cv : s2.model.covs)
      for (auto& rg : cv.ranges) rg *= 3.7;
    (void)execute(s1, cfg.seed > 0 ? cfg.seed + 11 : cfg.seed, cfg.gseed > 0 ? cfg.gseed + 11 : cfg.gseed);
    (void)execute(s2, cfg.seed > 0 ? cfg.seed + 12 : cfg.seed, cfg.gseed > 0 ? cfg.gseed + 12 : cfg.gseed);
    c.probe("repro:after-sibling-simulations");
  }
  Out C = execute(cfg, cfg.seed, cfg.gseed);
  c.check("repro-perturbed", K(cfg, "repro:after-unrelated-random-calls" + cls), A.sameBits(C), A.sameBits(C) ? 0 : 1, 0,
          A.sameBits(C) ? "" : diffDetail(A, C));
  if (g_fresh.ready())
  {
    FreshReq q{c.seed, c.icase, c.thorough() ? 1 : 0, cfg.seed, cfg.gseed};
    Blob req((char*)&q, (char*)&q + sizeof q), rep;
    int st = g_fresh.request(req, rep);
    Out D;
    if (st == 0 && Out::unpack(rep, D))
      c.check("repro-fresh", K(cfg, "repro:fresh-process" + cls), A.sameBits(D), A.sameBits(D) ? 0 : 1, 0, A.sameBits(D) ? "" : diffDetail(A, D));
    else if (st == 1)
      c.check("repro-fresh", K(cfg, "repro:fresh-process:child-died" + cls), false, 1, 0, "the pristine child process died while the same call succeeded in this process");
    else
      c.skip("fresh-transport");
  }
  else c.skip("fresh-unavailable");

  // another seed (or another global seed for the "do not reseed" class). Facies maps are discrete: two different
  // realisations may legitimately coincide on a small grid, so "different" is only asserted on continuous outputs
  if (discreteOutput) { c.skip("seeds-differ:discrete-output"); return; }
  int s2 = cfg.seed, g2 = cfg.gseed;
  if (cfg.seed > 0)
  {
    do s2 = drawSeed(r); while (s2 <= 0 || lcgFirst(s2) == lcgFirst(cfg.seed));
  }
  else
  {
    do g2 = drawGSeed(r); while (lcgFirst(g2) == lcgFirst(cfg.gseed));
  }
  Out E = execute(cfg, s2, g2);
  bool differs = false, comparable = false;
  if (E.cols.size() == A.cols.size())
    for (size_t i = 0; i < A.cols.size() && !differs; i++)
      for (size_t k = 0; k < A.cols[i].size(); k++)
      {
        if (!freeSample.empty() && !freeSample[k]) continue;
        if (undef(A.cols[i][k]) && undef(E.cols[i][k])) continue;
        comparable = true;
        if (A.cols[i][k] != E.cols[i][k]) { differs = true; break; }
      }
  if (comparable || E.cols.size() != A.cols.size())
    c.check("seeds-differ", K(cfg, "seeds-differ" + cls), differs, differs ? 0 : 1, 0,
            differs ? "" : fmt("seed %d/g%d and seed %d/g%d give the same realisation", cfg.seed, cfg.gseed, s2, g2));
  else c.skip("seeds-differ:nothing-free");
}

// columns i != j of the same variable must differ somewhere on the free samples
static void ranksOracle(Ctx& c, const Cfg& cfg, const Out& A, int nvar, int nbsimu, const std::function<int(int, int)>& colOf,
                        const std::vector<char>& freeSample, const std::string& cls)
{
  if (nbsimu < 2) return;
  for (int iv = 0; iv < nvar; iv++)
    for (int i = 0; i < nbsimu; i++)
      for (int j = i + 1; j < nbsimu; j++)
      {
        int ci = colOf(iv, i), cj = colOf(iv, j);
        if (ci < 0 || cj < 0 || ci >= (int)A.cols.size() || cj >= (int)A.cols.size()) continue;
        bool differs = false, comparable = false;
        for (size_t k = 0; k < A.cols[ci].size(); k++)
        {
          if (!freeSample.empty() && !freeSample[k]) continue;
          if (undef(A.cols[ci][k]) && undef(A.cols[cj][k])) continue;
          comparable = true;
          if (A.cols[ci][k] != A.cols[cj][k]) { differs = true; break; }
        }
        if (!comparable) { c.skip("ranks-differ:nothing-free"); continue; }
        c.check("ranks-differ", K(cfg, "ranks-identical" + cls), differs, differs ? 0 : 1, 0,
                differs ? "" : fmt("simulations %d and %d of variable %d are identical (%s, %s)", i + 1, j + 1, iv + 1,
                                   A.names[ci].c_str(), A.names[cj].c_str()));
      }
}

// ---- conditional simulation vs kriging ------------------------------------------------------------------------
// A conditional simulation is S(x) = Snc(x) + sum_a lambda_a(x) (z_a - Snc(x_a)) (CalcSimuTurningBands::_difference +
// _krigsim): S(x) - K(x) is the kriging error of the non conditional field, whose variance under the model is the kriging
// variance sK2(x). Near a datum sK(x) is tiny, so a conditioning that mixes simulation ranks, forgets a datum or uses other
// weights is off by O(sqrt(sill)) >> sK(x). The reference kriging (simple or ordinary cokriging, unique neighbourhood) is
// solved here in long double from pointwise Model::eval. Bound: F * sK(x) + 1e-4 * scale with F = 50: the turning-bands
// field is only approximately Gaussian / of the model covariance (finite number of bands), a factor 50 on the standard
// deviation (2500 on the variance) absorbs that; evaluated for nbtuba >= 10 only.
static void krigResidual(Ctx& c, const Cfg& cfg, const Out& A, const std::string& tk, const std::vector<char>& freeS)
{
  if (cfg.nbtuba < 10) { c.skip("krig-residual:few-bands"); return; }
  // structures with a linear behaviour at the origin are simulated by 1-D jump processes (CalcSimuTurningBands:
  // _migrationInit for exponential / matern / stable, _dilutionInit for spherical): over the 2e-4 separation between a
  // target and its datum a band either does not move or jumps by ~2 sqrt(sill/nbtuba), i.e. the increment is far from Gaussian
  // and a few simultaneous jumps exceed any multiple of sK. The oracle is restricted to the structures simulated by smooth
  // processes (spectral method: gaussian, sincard, besselj; dilution by a continuous function: cubic)
  for (auto& cv : cfg.model.covs)
    if (cv.type != "GAUSSIAN" && cv.type != "CUBIC" && cv.type != "SINCARD" && cv.type != "BESSELJ" && cv.type != "NUGGET")
    {
      c.skip("krig-residual:jump-process-structure");
      return;
    }
  int nvar = cfg.model.nvar, nbs = cfg.nbsimu, nd = cfg.ndat;
  defineDefaultSpace(ESpaceType::RN, cfg.ndim);
  auto target = buildTarget(cfg);
  auto model  = buildModel(cfg.model);
  auto data   = buildData(cfg, target.get(), {}, {}, {});
  auto pt = [&](const Db* db, int i) {
    VectorDouble x(cfg.ndim);
    for (int d = 0; d < cfg.ndim; d++) x[d] = db->getCoordinate(i, d);
    return SpacePoint(x);
  };
  std::vector<int> ui, uv; // unknowns: (datum, variable) with a defined value
  for (int iv = 0; iv < nvar; iv++)
    for (int i = 0; i < nd; i++)
      if (!undef(cfg.dvals[iv * nd + i])) { ui.push_back(i); uv.push_back(iv); }
  int n = (int)ui.size(), nc = cfg.model.drift == 0 ? nvar : 0, M = n + nc;
  if (cfg.model.drift == 0)
    for (int iv = 0; iv < nvar; iv++)
      if (std::count(uv.begin(), uv.end(), iv) == 0) { c.skip("krig-residual:variable-without-data"); return; }
  std::vector<SpacePoint> P;
  for (int i = 0; i < nd; i++) P.push_back(pt(data.get(), i));
  ref::Mat Am(M, M);
  for (int p = 0; p < n; p++)
  {
    for (int q = 0; q < n; q++) Am(p, q) = model->eval(P[ui[p]], P[ui[q]], uv[p], uv[q]);
    for (int v = 0; v < nc; v++) Am(p, n + v) = Am(n + v, p) = (uv[p] == v) ? 1. : 0.;
  }
  ref::LU lu(Am);
  if (!lu.ok || lu.cond() > 1e8) { c.skip("krig-residual:illcond"); return; }
  auto colOf = [&](int iv, int is) { return Db::getSimRank(is, iv, 0, nbs, nvar); };
  for (int iv = 0; iv < nvar; iv++)
  {
    double scale = std::fabs(cfg.model.means[iv]) + 4 * std::sqrt(cfg.model.totalSill(iv)) + 1;
    std::vector<double> worstR(nbs, 0), worstE(nbs, 0), worstT(nbs, 0);
    std::vector<int> worstS(nbs, -1);
    double minsk = INFINITY;
    for (int t = 0; t < cfg.ntarget; t++)
    {
      if (!freeS[t]) continue;
      SpacePoint X = pt(target.get(), t);
      std::vector<ref::LD> rhs(M, 0);
      for (int p = 0; p < n; p++) rhs[p] = model->eval(P[ui[p]], X, uv[p], iv);
      if (nc) rhs[n + iv] = 1;
      auto sol   = lu.solve(rhs);
      ref::LD k  = nc ? 0 : cfg.model.means[iv], s2 = model->eval(X, X, iv, iv);
      for (int p = 0; p < n; p++) k += sol[p] * (cfg.dvals[uv[p] * nd + ui[p]] - (nc ? 0. : cfg.model.means[uv[p]]));
      for (int p = 0; p < M; p++) s2 -= sol[p] * rhs[p];
      double sk  = std::sqrt(std::max((double)s2, 0.));
      double tol = 50 * sk + 1e-4 * scale;
      minsk      = std::min(minsk, sk);
      for (int is = 0; is < nbs; is++)
      {
        double v = A.cols[colOf(iv, is)][t];
        double e = (undef(v) || !std::isfinite(v)) ? INFINITY : std::fabs(v - (double)k);
        if (e / tol > worstR[is]) { worstR[is] = e / tol; worstE[is] = e; worstT[is] = tol; worstS[is] = t; }
      }
    }
    for (int is = 0; is < nbs; is++)
    {
      // (two variables: the non conditional turning-bands fields do not have the cross-covariance of the model - finding of C14 -
      //  so the kriging error of the simulated field is not the model's kriging error: kept under its own key)
      std::string kk = K(cfg, "cond-vs-kriging" + tk + (nvar > 1 ? ":nvar=2" : ":nvar=1"));
      if (worstS[is] < 0) { c.check("krig-residual", kk, true, 0, 1, ""); continue; }
      c.check("krig-residual", kk, worstR[is] <= 1, worstE[is], worstT[is],
              worstR[is] <= 1 ? "" : fmt("variable %d simulation %d target %d: |S - K| = %g, bound 50 sK + 1e-4 scale = %g", iv + 1, is + 1,
                                         worstS[is], worstE[is], worstT[is]));
    }
    if (minsk < 0.05 * std::sqrt(cfg.model.totalSill(iv))) c.probe("krig-residual-sharp");
  }
}

static void caseTub(Rng& r, Ctx& c, const Cfg& cfg)
{
  int nvar = cfg.model.nvar, nbs = cfg.nbsimu;
  Out A    = execute(cfg, cfg.seed, cfg.gseed);
  std::string tk = cfg.targetGrid ? ":grid-target" : ":point-target";
  std::string cls = std::string(cfg.cond ? ":cond" : ":nc") + tk;
  if (!c.truth("rc", K(cfg, "returns-error" + cls), A.rc == 0, fmt("simtub returned %d", A.rc))) return;
  if (!c.truth("ncols", K(cfg, "ncols" + cls), (int)A.cols.size() == nvar * nbs,
               fmt("%zu columns created, nvar*nbsimu = %d", A.cols.size(), nvar * nbs)))
    return;
  // samples where a different realisation must be allowed to give the same value: targets carrying a datum
  std::vector<char> freeS(cfg.ntarget, 1);
  if (cfg.cond)
    for (int i = 0; i < cfg.ndat; i++)
      if (cfg.datTarget[i] >= 0) freeS[cfg.datTarget[i]] = 0;
  // all values defined (unique neighbourhood or non conditional)
  if (!cfg.cond || !cfg.neighMoving)
  {
    int bad = 0;
    for (auto& col : A.cols)
      for (double v : col)
        if (undef(v) || !std::isfinite(v)) bad++;
    c.truth("defined", K(cfg, "undefined-values" + cls), bad == 0, fmt("%d undefined / non finite simulated values", bad));
  }
  auto colOf = [&](int iv, int is) { return Db::getSimRank(is, iv, 0, nbs, nvar); };
  // conditioning data honoured at coinciding targets. Tolerance: that of an exact kriging (the library additionally
  // copies the datum, CalcSimuTurningBands::_updateData2ToTarget), i.e. round-off relative to the data scale.
  if (cfg.cond)
  {
    for (int iv = 0; iv < nvar; iv++)
    {
      double scale = std::fabs(cfg.model.means[iv]) + 4 * std::sqrt(cfg.model.totalSill(iv)) + 1;
      double tol   = 1e-5 * scale; // exact kriging with condition numbers up to ~1e8 (smooth structures); a copy gives 0
      for (int i = 0; i < cfg.ndat; i++)
      {
        int t    = cfg.datTarget[i];
        double z = cfg.dvals[iv * cfg.ndat + i];
        if (t < 0 || undef(z)) continue;
        for (int is = 0; is < nbs; is++)
        {
          double got = A.cols[colOf(iv, is)][t];
          c.close("cond-exact", K(cfg, "datum-not-honoured" + tk + (cfg.neighMoving ? ":moving" : ":unique")), got, z, tol,
                  fmt("datum %d (var %d) on target %d, simulation %d", i, iv + 1, t, is + 1));
        }
      }
    }
  }
  if (cfg.cond && !cfg.neighMoving) krigResidual(c, cfg, A, tk, freeS);
  // "different seeds or simulation ranks produce different realisations" is only asserted where two independent realisations
  // coincide with probability ~0: some structures (exponential, stable, Matern of low order, ...) are spread along a band as a
  // piecewise-constant +-1 process, and with a few bands and a range that is long against the field two realisations are equal
  // on all targets with a probability of up to 2^-nbtuba (seen once in 10 seeds x 1000 cases: 1-D, one band, exponential).
  // Asserted when a nugget is present, or every structure is spread by a continuous random-phase / dilution process (the list
  // used for the kriging residual), or there are at least 30 bands.
  bool differAsserted = cfg.nbtuba >= 30;
  {
    bool allSmooth = true;
    for (auto& cv : cfg.model.covs)
    {
      if (cv.type == "NUGGET") differAsserted = true;
      if (!(cv.type == "GAUSSIAN" || cv.type == "CUBIC" || cv.type == "SINCARD" || cv.type == "BESSELJ" || cv.type == "NUGGET")) allSmooth = false;
    }
    if (allSmooth) differAsserted = true;
  }
  if (differAsserted) ranksOracle(c, cfg, A, nvar, nbs, colOf, freeS, cls);
  else if (nbs > 1) c.skip("ranks-differ:piecewise-constant-band-process-with-few-bands");
  reproOracles(r, c, cfg, A, cls, freeS, !differAsserted);
}

static void caseFft(Rng& r, Ctx& c, const Cfg& cfg)
{
  Out A = execute(cfg, cfg.seed, cfg.gseed);
  if (!c.truth("rc", K(cfg, "returns-error"), A.rc == 0, fmt("simfft returned %d", A.rc))) return;
  c.truth("ncols", K(cfg, cfg.nbsimu > 1 ? "ncols:nbsimu>1" : "ncols:nbsimu=1"), (int)A.cols.size() == cfg.nbsimu,
          fmt("%zu columns created for nbsimu = %d", A.cols.size(), cfg.nbsimu));
  int bad = 0;
  for (auto& col : A.cols)
    for (double v : col)
      if (undef(v) || !std::isfinite(v)) bad++;
  c.truth("defined", K(cfg, "undefined-values"), bad == 0, fmt("%d undefined values", bad));
  auto colOf = [&](int, int is) { return is; };
  ranksOracle(c, cfg, A, 1, (int)A.cols.size(), colOf, {}, "");
  reproOracles(r, c, cfg, A, "", {});
}

static void caseSpde(Rng& r, Ctx& c, const Cfg& cfg)
{
  Out A = execute(cfg, cfg.seed, cfg.gseed);
  std::string cls = std::string(cfg.cond ? ":cond" : ":nc") + (cfg.chol ? ":cholesky" : ":iterative");
  // the return value of simulateSPDE is documented as an error code but is the UID of the first created column
  // (SPDE::compute returns iptr): not asserted. Success is judged on the created columns.
  if (!c.truth("ncols", K(cfg, "ncols" + cls), (int)A.cols.size() == cfg.nbsimu,
               fmt("%zu columns created for nbsimu = %d (rc=%d)", A.cols.size(), cfg.nbsimu, A.rc)))
    return;
  int bad = 0;
  for (auto& col : A.cols)
    for (double v : col)
      if (undef(v) || !std::isfinite(v)) bad++;
  c.truth("defined", K(cfg, "undefined-values" + cls), bad == 0, fmt("%d undefined values", bad));
  auto colOf = [&](int, int is) { return is; };
  ranksOracle(c, cfg, A, 1, cfg.nbsimu, colOf, {}, cls);
  reproOracles(r, c, cfg, A, cls, {});
}

// position of the column named <prefix>.<v>.<s> / <prefix>.<s> / <prefix>
static int findCol(const Out& A, const std::string& name)
{
  for (size_t i = 0; i < A.names.size(); i++)
    if (A.names[i] == name) return (int)i;
  return -1;
}

static void caseGibbs(Rng& r, Ctx& c, const Cfg& cfg)
{
  int nvar = cfg.model.nvar, nbs = cfg.nbsimu, n = cfg.ndat;
  std::string cls = fmt(":nvar=%d%s%s", nvar, cfg.gMoving ? ":moving" : ":unique", cfg.gMM ? ":multimono" : "");
  Out A = execute(cfg, cfg.seed, cfg.gseed);
  if (!c.truth("rc", K(cfg, "returns-error" + cls), A.rc == 0, fmt("gibbs_sampler returned %d", A.rc))) return;
  if (!c.truth("ncols", K(cfg, "ncols" + cls), (int)A.cols.size() == nvar * nbs,
               fmt("%zu columns created, nvar*nbsimu = %d", A.cols.size(), nvar * nbs)))
    return;
  // violation of [L,U] of variable iv by column col; tolerance = round-off of "yk + sk * x" on values of order 1-10
  auto viol = [&](int col, int iv, int& worstSample) {
    double w = 0;
    worstSample = -1;
    for (int i = 0; i < n; i++)
    {
      double v = A.cols[col][i], lo = cfg.L[iv * n + i], up = cfg.U[iv * n + i];
      double e = 0;
      if (undef(v) || !std::isfinite(v)) e = INFINITY;
      else
      {
        if (!undef(lo) && v < lo) e = std::max(e, lo - v);
        if (!undef(up) && v > up) e = std::max(e, v - up);
      }
      if (e > w) { w = e; worstSample = i; }
    }
    return w;
  };
  const double tol = 1e-10;
  // ill-conditioned systems are excluded (and counted): the sampler works with the inverse of the data covariance matrix;
  // beyond a condition number of 1e8 (smooth structures, many points, strongly correlated variables; Model::stabilize only
  // adds its nugget to monovariate pure-gaussian models) conditional variances 1/Cinv(i,i) come out negative or huge and
  // the output is NaN or O(100). Reproducibility is still monitored on those cases.
  bool illcond = false;
  double kappaOut = 0;
  {
    defineDefaultSpace(ESpaceType::RN, cfg.ndim);
    ModelSpec ms = cfg.model;
    bool pureGauss = true;
    for (auto& cv : ms.covs) if (cv.type != "GAUSSIAN") pureGauss = false;
    auto model = buildModel(ms);
    auto data  = buildData(cfg, nullptr, {}, {}, {});
    std::vector<SpacePoint> P;
    for (int i = 0; i < n; i++)
    {
      VectorDouble x(cfg.ndim);
      for (int d = 0; d < cfg.ndim; d++) x[d] = data->getCoordinate(i, d);
      P.emplace_back(x);
    }
    int M = nvar * n;
    ref::Mat Cm(M, M);
    double nug = (nvar == 1 && pureGauss && cfg.percent > 0) ? cfg.percent / 100. : 0.; // Model::stabilize
    for (int iv = 0; iv < nvar; iv++)
      for (int jv = 0; jv < nvar; jv++)
        for (int i = 0; i < n; i++)
          for (int j = 0; j < n; j++)
            Cm(iv * n + i, jv * n + j) = model->eval(P[i], P[j], iv, jv) * (1. - nug) + ((i == j && iv == jv) ? nug * model->eval(P[i], P[i], iv, iv) : 0.);
    ref::LU lu(Cm);
    double kappa = lu.ok ? (double)lu.cond() : INFINITY;
    illcond = !(kappa <= 1e8);
    if (c.verbose) fprintf(stderr, "gibbs: condition number of the data covariance matrix %.3g\n", kappa);
    c.putn("kappa", kappa);
    kappaOut = kappa;
  }
  if (illcond) c.skip("gibbs:bounds:illcond");
  else
  {
    // a NaN / infinite / absurd (|y| > 1000 for unit-variance Gaussian values with bounds inside +-5) output with return code 0
    // is reported once, under its own key (the bounds oracles would only repeat it)
    int bad = 0;
    double worst = 0;
    for (auto& col : A.cols)
      for (double v : col)
        if (!std::isfinite(v) || std::fabs(v) > 1e3) { bad++; worst = std::isfinite(v) ? std::max(worst, std::fabs(v)) : INFINITY; }
    if (!c.truth("defined", K(cfg, std::string("diverges") + (cfg.gMoving ? ":moving" : ":unique")), bad == 0,
                 fmt("%d NaN / infinite / diverged values (largest %g) returned with return code 0; condition number of the data covariance %.3g",
                     bad, worst, kappaOut)))
      illcond = true; // skip the bounds oracles below
  }
  auto btype = [&](int iv, int i) -> std::string {
    if (i < 0) return "none";
    double lo = cfg.L[iv * n + i], up = cfg.U[iv * n + i];
    if (undef(lo) && undef(up)) return "free";
    if (undef(lo)) return "upper-only";
    if (undef(up)) return "lower-only";
    return lo == up ? "equality" : "two-sided";
  };
  // (a) by documented name: NamingConvention names the columns <prefix>.<variable>.<simulation> (variable-major)
  for (int iv = 0; iv < nvar && !illcond; iv++)
    for (int is = 0; is < nbs; is++)
    {
      std::string nm = "Gibbs";
      if (nvar > 1) nm += "." + std::to_string(iv + 1);
      if (nbs > 1) nm += "." + std::to_string(is + 1);
      int col = findCol(A, nm);
      if (col < 0) { c.skip("gibbs:name-not-found"); continue; }
      int ws;
      double e = viol(col, iv, ws);
      c.check("bounds-named", K(cfg, nvar > 1 && nbs > 1 ? std::string("bounds:by-name:nvar>1:nbsimu>1") : "bounds:" + btype(iv, ws)),
              e <= tol, e, tol,
              e <= tol ? "" : fmt("column %s sample %d value %.17g outside [%g,%g] of variable %d", nm.c_str(), ws, A.cols[col][ws],
                                  cfg.L[iv * n + ws], cfg.U[iv * n + ws], iv + 1));
    }
  // (b) whatever the layout: under the variable-major layout of the names or under the simulation-major layout
  //     (column = ivar + nvar * isimu), every column honours the bounds of its variable
  if (!illcond)
  {
    double bestW = INFINITY;
    int bc = -1, bsam = -1, bvar = 0, blay = 0;
    for (int lay = 0; lay < (nvar > 1 && nbs > 1 ? 2 : 1); lay++)
    {
      double w = 0;
      int wc = -1, wsam = -1, wvar = 0;
      for (int iv = 0; iv < nvar; iv++)
        for (int is = 0; is < nbs; is++)
        {
          int col = lay == 0 ? is + nbs * iv : iv + nvar * is, ws;
          double e = viol(col, iv, ws);
          if (e > w) { w = e; wc = col; wsam = ws; wvar = iv; }
        }
      if (w < bestW) { bestW = w; bc = wc; bsam = wsam; bvar = wvar; blay = lay; }
    }
    std::string det;
    if (bestW > tol && bc >= 0 && bsam >= 0)
      det = fmt("%s layout: column %s sample %d value %.17g outside [%g,%g] of variable %d", blay == 0 ? "variable-major" : "simulation-major",
                A.names[bc].c_str(), bsam, A.cols[bc][bsam], cfg.L[bvar * n + bsam], cfg.U[bvar * n + bsam], bvar + 1);
    c.check("bounds", K(cfg, std::string("bounds:") + btype(bvar, bestW > tol ? bsam : -1)), bestW <= tol, bestW, tol, det);
  }
  // equalities are reproduced exactly (AGibbs::_isConstraintTight: "data is a hard data")
  // free samples = not an equality in any variable
  // "different realisation" is only asserted on samples without any constraint (continuous conditional law): under
  // constraints that the model can hardly satisfy law_gaussian_between_bounds degenerates to an end of the interval
  // (total <= 0 branch), and two realisations may then legitimately coincide. The generator leaves sample 0 unconstrained.
  std::vector<char> freeS(n, 1);
  for (int i = 0; i < n; i++)
    for (int iv = 0; iv < nvar; iv++)
      if (!undef(cfg.L[iv * n + i]) || !undef(cfg.U[iv * n + i])) freeS[i] = 0;
  // ranks: compare columns pairwise regardless of the variable they belong to (two columns may never be identical)
  {
    int ncol = nvar * nbs;
    for (int i = 0; i < ncol; i++)
      for (int j = i + 1; j < ncol; j++)
      {
        bool differs = false, comparable = false;
        for (int k = 0; k < n; k++)
        {
          if (!freeS[k]) continue;
          comparable = true;
          if (A.cols[i][k] != A.cols[j][k]) { differs = true; break; }
        }
        if (!comparable) { c.skip("ranks-differ:nothing-free"); continue; }
        c.check("ranks-differ", K(cfg, "ranks-identical" + cls), differs, differs ? 0 : 1, 0,
                differs ? "" : fmt("columns %s and %s are identical", A.names[i].c_str(), A.names[j].c_str()));
      }
  }
  reproOracles(r, c, cfg, A, cls, freeS);
}

static void caseLgbb(Rng& r, Ctx& c, const Cfg& cfg)
{
  Out A = execute(cfg, cfg.seed, 0);
  for (size_t i = 0; i < cfg.la.size(); i++)
  {
    double a = cfg.la[i], b = cfg.lb[i], worst = 0, wv = 0;
    for (double x : A.cols[i])
    {
      double e = 0;
      if (!std::isfinite(x) || undef(x)) e = INFINITY;
      else
      {
        if (!undef(a) && x < a) e = std::max(e, a - x);
        if (!undef(b) && x > b) e = std::max(e, x - b);
      }
      if (e > worst) { worst = e; wv = x; }
    }
    // round-off of exp/log/sqrt on the interval ends: a few ulp of the bound
    double mag = std::max(1., std::max(undef(a) ? 0. : std::fabs(a), undef(b) ? 0. : std::fabs(b)));
    double tol = 16 * 2.220446049250313e-16 * mag;
    c.check("bounds", K(cfg, "bounds:" + cfg.lclass[i]), worst <= tol, worst, tol,
            worst <= tol ? "" : fmt("law_gaussian_between_bounds(%s, %s) returned %.17g", undef(a) ? "TEST" : fmt("%.17g", a).c_str(),
                                    undef(b) ? "TEST" : fmt("%.17g", b).c_str(), wv));
  }
  Out B = execute(cfg, cfg.seed, 0);
  c.check("repro-b2b", K(cfg, "repro:back-to-back"), A.sameBits(B), A.sameBits(B) ? 0 : 1, 0, A.sameBits(B) ? "" : diffDetail(A, B));
  (void)r;
}

// ---- plurigaussian ------------------------------------------------------------------------------------------
static long double gcdf(long double x) { return 0.5L * erfcl(-x / sqrtl(2.0L)); }
static long double ginv(long double p)
{
  if (p <= 0) return -INFINITY;
  if (p >= 1) return INFINITY;
  long double lo = -40, hi = 40;
  for (int i = 0; i < 200; i++)
  {
    long double mid = 0.5L * (lo + hi);
    if (gcdf(mid) < p) lo = mid; else hi = mid;
  }
  return 0.5L * (lo + hi);
}
struct Rect { double lo[2], hi[2]; };
static double sumProps(const std::vector<RNode>& nodes, int id, const std::vector<double>& p)
{
  const RNode& n = nodes[id];
  if (n.type == 0) return p[n.fac - 1];
  return sumProps(nodes, n.l, p) + sumProps(nodes, n.r, p);
}
// thresholds of a rule with independent underlying Gaussians (rho = 0): at each node the first child takes the lower
// part of the current interval of y1 ("S") or y2 ("T"), with Gaussian mass proportional to its proportion
static void rectangles(const std::vector<RNode>& nodes, int id, const std::vector<double>& p, Rect cur, std::map<int, Rect>& out)
{
  const RNode& n = nodes[id];
  if (n.type == 0) { out[n.fac] = cur; return; }
  int ax         = n.type - 1;
  long double ga = gcdf(cur.lo[ax]), gb = gcdf(cur.hi[ax]);
  long double pl = sumProps(nodes, n.l, p), pr = sumProps(nodes, n.r, p);
  long double t  = ginv(ga + (gb - ga) * pl / (pl + pr));
  Rect a = cur, b = cur;
  a.hi[ax] = (double)t;
  b.lo[ax] = (double)t;
  rectangles(nodes, n.l, p, a, out);
  rectangles(nodes, n.r, p, b, out);
}

static void casePgs(Rng& r, Ctx& c, const Cfg& cfg)
{
  int nbs  = cfg.nbsimu;
  int ngrf = ruleUsesT(cfg.rule) ? 2 : 1;
  std::string cls = fmt(":%s:ngrf=%d%s", cfg.cond ? "cond" : "nc", ngrf, cfg.flagGaus ? ":gaus" : "");
  Out A = execute(cfg, cfg.seed, cfg.gseed);
  if (!c.truth("rc", K(cfg, "returns-error" + cls), A.rc == 0, fmt("simpgs returned %d", A.rc))) return;
  int want = cfg.flagGaus ? ngrf * nbs : nbs;
  if (!c.truth("ncols", K(cfg, "ncols" + cls), (int)A.cols.size() == want, fmt("%zu columns created, expected %d", A.cols.size(), want)))
    return;
  std::vector<char> freeS(cfg.ntarget, 1);
  if (cfg.cond)
    for (int i = 0; i < cfg.ndat; i++)
      if (cfg.datTarget[i] >= 0) freeS[cfg.datTarget[i]] = 0;
  std::string nk = nbs > 1 ? ":nbsimu>1" : ":nbsimu=1";
  if (!cfg.flagGaus)
  {
    // facies are integers of 1..nfac everywhere
    int bad = 0;
    for (auto& col : A.cols)
      for (double v : col)
        if (!(v >= 1 && v <= cfg.nfac && v == std::floor(v))) bad++;
    c.truth("facies-range", K(cfg, "facies-out-of-range" + cls), bad == 0, fmt("%d simulated facies outside 1..%d", bad, cfg.nfac));
    // facies at data locations = observed facies; column of simulation s is named <prefix>.<s> (single variable)
    if (cfg.cond)
      for (int is = 0; is < nbs; is++)
      {
        int nbad = 0, first = -1;
        for (int i = 0; i < cfg.ndat; i++)
        {
          int t = cfg.datTarget[i];
          if (t < 0) continue;
          if (A.cols[is][t] != cfg.dvals[i]) { nbad++; if (first < 0) first = i; }
        }
        c.check("facies-at-data", K(cfg, fmt("facies-at-data:ngrf=%d", ngrf) + nk), nbad == 0, nbad, 0,
                nbad == 0 ? "" : fmt("simulation %d: %d data not honoured, e.g. datum %d facies %g, simulated %g at its grid node", is + 1, nbad,
                                     first, cfg.dvals[first], A.cols[is][cfg.datTarget[first]]));
      }
  }
  else if (cfg.cond && (ngrf == 1 || nbs == 1))
  {
    // gaussian values at data nodes inside the rectangle of the observed facies (layout unambiguous here:
    // ngrf == 1 -> column s = simulation s; nbs == 1 -> column g = GRF g)
    std::map<int, Rect> rect;
    Rect all{{-INFINITY, -INFINITY}, {INFINITY, INFINITY}};
    rectangles(cfg.rule, 0, cfg.props, all, rect);
    const double tol = 1e-3; // thresholds are computed by the library with 1e-7-accurate cdf approximations
    for (int is = 0; is < nbs; is++)
      for (int g = 0; g < ngrf; g++)
      {
        int col      = ngrf == 1 ? is : g;
        double worst = 0;
        int wi       = -1;
        for (int i = 0; i < cfg.ndat; i++)
        {
          int t = cfg.datTarget[i];
          if (t < 0) continue;
          const Rect& R = rect[(int)cfg.dvals[i]];
          double v = A.cols[col][t], e = 0;
          if (undef(v) || !std::isfinite(v)) e = INFINITY;
          else e = std::max(0., std::max(R.lo[g] - v, v - R.hi[g]));
          if (e > worst) { worst = e; wi = i; }
        }
        c.check("bounds", K(cfg, fmt("gaussian-at-data-outside-facies-thresholds:ngrf=%d", ngrf) + nk), worst <= tol, worst, tol,
                worst <= tol ? "" : fmt("GRF %d simulation %d datum %d (facies %g): gaussian %.6g outside [%.6g,%.6g]", g + 1, is + 1, wi,
                                        cfg.dvals[wi], A.cols[col][cfg.datTarget[wi]], rect[(int)cfg.dvals[wi]].lo[g], rect[(int)cfg.dvals[wi]].hi[g]));
      }
  }
  if (cfg.flagGaus && ngrf == 1)
  {
    // continuous output, one column per simulation: two ranks may not coincide
    auto colOf = [&](int, int is) { return is; };
    ranksOracle(c, cfg, A, 1, nbs, colOf, freeS, cls);
  }
  reproOracles(r, c, cfg, A, cls, freeS, !cfg.flagGaus);
}

static void caseBiPgs(Rng& r, Ctx& c, const Cfg& cfg)
{
  int nbs = cfg.nbsimu;
  std::string cls = fmt(":%s%s", cfg.cond ? "cond" : "nc", cfg.flagGaus ? ":gaus" : "");
  Out A = execute(cfg, cfg.seed, cfg.gseed);
  if (!c.truth("rc", K(cfg, "returns-error" + cls), A.rc == 0, fmt("simbipgs returned %d", A.rc))) return;
  std::vector<char> freeS(cfg.ntarget, 1);
  if (cfg.cond)
    for (int i = 0; i < cfg.ndat; i++)
      if (cfg.datTarget[i] >= 0) freeS[cfg.datTarget[i]] = 0;
  if (!cfg.flagGaus)
  {
    if (!c.truth("ncols", K(cfg, "ncols" + cls), (int)A.cols.size() == 2 * nbs, fmt("%zu columns created, expected %d", A.cols.size(), 2 * nbs)))
      return;
    if (cfg.cond)
    {
      // the layout (pgs, simulation) -> column is not documented: accept pgs-major or simulation-major, whichever fits
      int n = cfg.ndat;
      int badA = 0, badB = 0;
      for (int ip = 0; ip < 2; ip++)
        for (int is = 0; is < nbs; is++)
          for (int i = 0; i < n; i++)
          {
            int t = cfg.datTarget[i];
            if (t < 0) continue;
            double f = cfg.dvals[ip * n + i];
            if (A.cols[is + nbs * ip][t] != f) badA++;
            if (A.cols[ip + 2 * is][t] != f) badB++;
          }
      int bad = std::min(badA, badB);
      // two input classes: the storage of the Gibbs gaussians depends on the layout as soon as nbsimu > 1 or the two rules use a
      // different number of GRFs (open finding on AGibbs::storeResult / getRank); otherwise it does not
      int g1 = ruleUsesT(cfg.rule) ? 2 : 1, g2 = ruleUsesT(cfg.rule2) ? 2 : 1;
      c.check("facies-at-data", K(cfg, (nbs > 1 || g1 != g2) ? "facies-at-data:nbsimu>1-or-ngrf1!=ngrf2" : "facies-at-data:nbsimu=1:ngrf1=ngrf2"), bad == 0, bad, 0,
              bad == 0 ? "" : fmt("ngrf=%d+%d nbsimu=%d: ", g1, g2, nbs) + fmt("%d (pgs-major layout) / %d (simulation-major layout) data facies not honoured", badA, badB));
    }
  }
  reproOracles(r, c, cfg, A, cls, freeS, !cfg.flagGaus);
}

// ---- generator-level seed semantics -------------------------------------------------------------------------
static void caseSeed(Rng& r, Ctx& c)
{
  // law_set_random_seed / law_get_random_seed round trip and stream reproducibility
  int s = drawSeed(r);
  if (s <= 0) s = 1 - s;
  law_set_random_seed(s);
  c.truth("seed-roundtrip", "C13:seed:get-after-set", law_get_random_seed() == s, fmt("set %d get %d", s, law_get_random_seed()));
  std::vector<double> a(20), b(20);
  for (auto& v : a) v = law_gaussian();
  law_set_random_seed(s);
  for (auto& v : b) v = law_gaussian();
  c.truth("repro-b2b", "C13:seed:law_gaussian-stream", memcmp(a.data(), b.data(), 20 * sizeof(double)) == 0, "");
  // a seed <= 0 leaves the stream untouched (documented by the code: "if (seed > 0)")
  law_set_random_seed(s);
  (void)law_uniform();
  int st = law_get_random_seed();
  law_set_random_seed(r.coin() ? 0 : -r.irange(1, 1000));
  c.truth("seed-nonpositive", "C13:seed:nonpositive-reseeds", law_get_random_seed() == st, "a seed <= 0 changed the generator state");
  // different seeds -> different streams, also for seeds that are multiples of the modulus of the congruential generator
  // (Random_congruent = 20000159): with such a seed the state becomes 0 and stays 0, every uniform draw is 0
  // (105 * seed must not wrap for the residue to be 0: seeds 20000159 and 40000318)
  int k = r.irange(1, 2);
  std::vector<double> u1(8), u2(8);
  law_set_random_seed(k * LCG_M);
  for (auto& v : u1) v = law_uniform();
  law_set_random_seed((k % 2 + 1) * LCG_M);
  for (auto& v : u2) v = law_uniform();
  bool same = memcmp(u1.data(), u2.data(), 8 * sizeof(double)) == 0;
  bool constant = true;
  for (auto v : u1) if (v != u1[0]) constant = false;
  c.check("seeds-differ", "C13:seed:multiple-of-modulus:degenerate-stream", !same && !constant, 1, 0,
          fmt("law_set_random_seed(%d) then 8 x law_uniform(): %g %g %g ... ; seed %d gives %s", k * LCG_M, u1[0], u1[1], u1[2],
              (k % 2 + 1) * LCG_M, same ? "the same stream" : "another stream"));
  law_set_random_seed(4324324);
}

static void dumpCfg(const Cfg& c)
{
  fprintf(stderr, "CFG %s seed=%d gseed=%d nbsimu=%d nbtuba=%d ndim=%d ntarget=%d ndat=%d\n", c.sig.c_str(), c.seed, c.gseed, c.nbsimu,
          c.nbtuba, c.ndim, c.ntarget, c.ndat);
  auto pm = [&](const char* nm, const ModelSpec& m) {
    for (auto& cv : m.covs)
      fprintf(stderr, "  %s cov %s param=%g ranges=%s angles=%s sills=%s\n", nm, cv.type.c_str(), cv.param, jvec(cv.ranges).c_str(),
              jvec(cv.angles).c_str(), jvec(cv.sills).c_str());
    fprintf(stderr, "  %s means=%s drift=%d\n", nm, jvec(m.means).c_str(), m.drift);
  };
  if (!c.model.covs.empty()) pm("model", c.model);
  if (!c.model2.covs.empty()) pm("model2", c.model2);
  if (c.targetGrid) fprintf(stderr, "  grid nx=%s dx=%s x0=%s angles=%s\n", jvec(c.nx).c_str(), jvec(c.dx).c_str(), jvec(c.x0).c_str(), jvec(c.gangles).c_str());
  else fprintf(stderr, "  tcoords=%s\n", jvec(c.tcoords, 400).c_str());
  fprintf(stderr, "  datTarget=%s\n  dfree=%s\n  dvals=%s\n", jvec(c.datTarget, 400).c_str(), jvec(c.dfree, 400).c_str(), jvec(c.dvals, 400).c_str());
  if (!c.L.empty()) fprintf(stderr, "  L=%s\n  U=%s\n  nburn=%d niter=%d moving=%d norm=%d mm=%d percent=%g\n", jvec(c.L, 400).c_str(), jvec(c.U, 400).c_str(), c.nburn, c.niter, (int)c.gMoving, (int)c.gNorm, (int)c.gMM, c.percent);
  if (!c.ruleNames.empty())
  {
    std::string s, s2;
    for (auto& x : c.ruleNames) s += x + " ";
    for (auto& x : c.ruleNames2) s2 += x + " ";
    fprintf(stderr, "  rule=%s rule2=%s props=%s gaus=%d niter=%d neigh=%d nmaxi=%d radius=%g\n", s.c_str(), s2.c_str(), jvec(c.props).c_str(), (int)c.flagGaus, c.niter, c.neighMoving, c.nmaxi, c.radius);
  }
}

static void run_case(Rng& r, Ctx& c)
{
  Cfg cfg = drawCfg(r, c.thorough(), c.icase);
  c.setSig(cfg.sig);
  c.puts("family", FAMN[cfg.family]);
  c.puts("config", cfg.sig);
  c.putn("seed", cfg.seed);
  c.putn("gseed", cfg.gseed);
  if (cfg.family != F_LGBB && cfg.family != F_SEED)
  {
    c.putn("ndat", cfg.ndat);
    c.putn("ntarget", cfg.ntarget);
  }
  if (!cfg.ruleNames.empty())
  {
    std::string s;
    for (auto& x : cfg.ruleNames) s += x + " ";
    c.puts("rule", s);
    c.put("props", jvec(cfg.props));
  }
  if (c.verbose) dumpCfg(cfg);
  OptDbg::reset();
  switch (cfg.family)
  {
    case F_TUB: caseTub(r, c, cfg); break;
    case F_FFT: caseFft(r, c, cfg); break;
    case F_SPDE: caseSpde(r, c, cfg); break;
    case F_GIBBS: caseGibbs(r, c, cfg); break;
    case F_LGBB: caseLgbb(r, c, cfg); break;
    case F_PGS: casePgs(r, c, cfg); break;
    case F_BIPGS: caseBiPgs(r, c, cfg); break;
    case F_SEED: caseSeed(r, c); break;
  }
}

int main(int argc, char** argv)
{
  // the zygote must be forked before this process touches the library
  g_fresh.start(freshFn);
  return run_main(argc, argv, "C13", run_case);
}
