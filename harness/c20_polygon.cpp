// C20 — point-in-polygon decisions and polygon selections are geometrically exact.
// Reference: harness/common/ref_poly.hpp (integer arithmetic, exact). Polygon vertices live on an even integer lattice,
// query points on the integer lattice ("half-lattice"); an integer k is handed to the library as h*(k+offset), h a power
// of two, so the library's arithmetic is exact as well. Points ON a boundary are detected exactly and skipped.
//
// Case kinds:  single (one polygon: PolyElem::inside, Polygons::inside, closed / open ring)
//              set    (2-5 polygons: union rule vs nested odd-count rule, vertical limits)
//              db     (db_polygon on gridded Dbs 2-D / 3-D, previous selection, dbPolygonDistance 'polin')
//              hull   (Polygons::createFromDb convex hull, Db::addSelectionFromDbByConvexHull, dilation)
#include "common/vh.hpp"
#include "common/ref_poly.hpp"

#include "Polygon/Polygons.hpp"
#include "Polygon/PolyElem.hpp"
#include "Db/Db.hpp"
#include "Db/DbGrid.hpp"
#include "Space/ASpaceObject.hpp"
#include "geoslib_io.h"
#include <cmath>
#include <memory>
#include <functional>
#include <sys/wait.h>
#include <time.h>
#include <unistd.h>

using namespace vh;
using refp::I64;
using refp::Pt;
using refp::Ring;

static const double TESTV = 1.234e30;
struct LibAbort
{
};
static void onLibExit() { throw LibAbort(); }

// Run fn in a forked child with a wall-clock limit: 0 = returned, 1 = still running after 'seconds' (killed), 2 = died.
// Used where a library call was seen not to terminate, so that the event is an oracle failure and not a stalled worker.
static int runGuarded(const std::function<void()>& fn, int seconds)
{
  fflush(nullptr);
  pid_t pid = fork();
  if (pid < 0) return 0; // cannot fork: run unguarded
  if (pid == 0)
  {
    fn();
    _exit(0);
  }
  for (int t = 0; t < seconds * 100; t++)
  {
    int st  = 0;
    pid_t w = waitpid(pid, &st, WNOHANG);
    if (w == pid) return (WIFEXITED(st) && WEXITSTATUS(st) == 0) ? 0 : 2;
    struct timespec ts = {0, 10 * 1000 * 1000};
    nanosleep(&ts, nullptr);
  }
  kill(pid, SIGKILL);
  waitpid(pid, nullptr, 0);
  return 1;
}

// ------------------------------------------------------------------------------------------------------------
// integer -> double mapping
// ------------------------------------------------------------------------------------------------------------
struct Frame
{
  double h = 1; // size of a half-unit (power of two)
  I64 ox = 0, oy = 0;
  double X(I64 k) const { return h * (double)(k + ox); }
  double Y(I64 k) const { return h * (double)(k + oy); }
};
static Frame genFrame(Rng& r, bool allowTiny = false)
{
  Frame f;
  f.h = std::ldexp(1.0, r.irange(-4, 2));
  // small-scale stratum: a half-unit of about 1e-6 (a polygon of a few metres in degrees)
  if (allowTiny && r.coin(0.06))
  {
    f.h = std::ldexp(1.0, r.irange(-20, -18));
    return f;
  }
  if (r.coin(0.4))
  {
    f.ox = (r.coin() ? 1 : -1) * (I64)r.irange(1000, 1 << 20);
    f.oy = (r.coin() ? 1 : -1) * (I64)r.irange(1000, 1 << 20);
  }
  return f;
}

// ------------------------------------------------------------------------------------------------------------
// polygon generators (rings in half-units, even coordinates, no repeated last vertex)
// ------------------------------------------------------------------------------------------------------------
static I64 gcdll(I64 a, I64 b) { a = std::llabs(a); b = std::llabs(b); while (b) { I64 t = a % b; a = b; b = t; } return a; }

// insert the even-lattice points lying on the edges (consecutive collinear vertices)
static Ring addCollinear(Rng& r, const Ring& in, double p)
{
  Ring out;
  int n = (int)in.size();
  for (int i = 0; i < n; i++)
  {
    Pt a = in[i], b = in[(i + 1) % n];
    out.push_back(a);
    I64 dx = (b.x - a.x) / 2, dy = (b.y - a.y) / 2;
    I64 g = gcdll(dx, dy);
    for (I64 t = 1; t < g; t++)
      if (r.coin(p)) out.push_back(Pt{a.x + 2 * t * (dx / g), a.y + 2 * t * (dy / g)});
  }
  return out;
}

static Ring genConvex(Rng& r, int R)
{
  for (int att = 0; att < 20; att++)
  {
    int np = r.irange(3, 40);
    std::vector<Pt> p;
    bool disc = r.coin(0.5);
    for (int i = 0; i < np; i++)
    {
      I64 x = r.irange(0, R), y = r.irange(0, R);
      if (disc && (2 * x - R) * (2 * x - R) + (2 * y - R) * (2 * y - R) > (I64)R * R) { i--; continue; }
      p.push_back(Pt{2 * x, 2 * y});
    }
    Ring h = refp::convexHull(p);
    if (h.size() >= 3 && refp::area2(h) != 0) return h;
  }
  return Ring{{0, 0}, {8, 0}, {0, 8}};
}

// star-shaped polygon around a centre: distinct primitive directions sorted by angle, one vertex per direction
static Ring genStar(Rng& r, int R)
{
  for (int att = 0; att < 30; att++)
  {
    int nd = r.irange(5, 60);
    std::set<std::pair<I64, I64>> dirs;
    for (int i = 0; i < nd * 3 && (int)dirs.size() < nd; i++)
    {
      I64 dx = r.irange(-6, 6), dy = r.irange(-6, 6);
      if (dx == 0 && dy == 0) continue;
      I64 g = gcdll(dx, dy);
      dirs.insert({dx / g, dy / g});
    }
    std::vector<std::pair<I64, I64>> d(dirs.begin(), dirs.end());
    auto half = [](const std::pair<I64, I64>& v) { return (v.second > 0 || (v.second == 0 && v.first > 0)) ? 0 : 1; };
    std::sort(d.begin(), d.end(), [&](const std::pair<I64, I64>& a, const std::pair<I64, I64>& b)
              {
                int ha = half(a), hb = half(b);
                if (ha != hb) return ha < hb;
                return a.first * b.second - a.second * b.first > 0;
              });
    Ring ring;
    for (auto& v : d)
    {
      I64 len = std::max(std::llabs(v.first), std::llabs(v.second));
      I64 tmax = std::max<I64>(1, R / (2 * len));
      I64 t = r.irange(1, (int)tmax);
      ring.push_back(Pt{2 * (R / 2 + t * v.first), 2 * (R / 2 + t * v.second)});
    }
    if (ring.size() >= 3 && refp::isSimple(ring)) return ring;
  }
  return genConvex(r, R);
}

// polyomino shapes
static refp::Cells cellsBlob(Rng& r, int W, int H, int ncell)
{
  refp::Cells g;
  g.init(W, H);
  std::vector<std::pair<int, int>> fr;
  int i0 = r.irange(0, W - 1), j0 = r.irange(0, H - 1);
  g.set(i0, j0);
  fr.push_back({i0, j0});
  int guard = 0;
  while (g.count() < ncell && guard++ < ncell * 50)
  {
    auto [i, j] = fr[r.irange(0, (int)fr.size() - 1)];
    static const int di[4] = {1, -1, 0, 0}, dj[4] = {0, 0, 1, -1};
    int d = r.irange(0, 3);
    int a = i + di[d], b = j + dj[d];
    if (a < 0 || b < 0 || a >= W || b >= H || g.get(a, b)) continue;
    g.set(a, b);
    fr.push_back({a, b});
  }
  return g;
}
static refp::Cells cellsComb(Rng& r, int nteeth, int maxlen, bool twoSided)
{
  refp::Cells g;
  int W = 2 * nteeth + 1, H = 2 * maxlen + 2;
  g.init(W, H);
  int spine = twoSided ? maxlen : 0;
  for (int i = 0; i < W; i++) g.set(i, spine);
  if (twoSided)
    for (int i = 0; i < W; i++) g.set(i, spine + 1);
  for (int t = 0; t < nteeth; t++)
  {
    int len = r.coin(0.3) ? maxlen : r.irange(1, maxlen);
    for (int k = 1; k <= len; k++) g.set(2 * t + 1, spine + (twoSided ? 1 : 0) + k);
    if (twoSided)
    {
      int l2 = r.irange(0, maxlen);
      for (int k = 1; k <= l2; k++) g.set(2 * t + (r.coin() ? 1 : 0), spine - k);
    }
  }
  return g;
}
static refp::Cells cellsSpiral(Rng& r, int turns)
{
  // corridor of width 1 cell, walls of width 1 cell: walk a square spiral inward
  refp::Cells g;
  int S = 4 * turns + 3;
  g.init(S, S);
  int i = 0, j = 0, di = 1, dj = 0;
  int lo = 0, hi = S - 1; // current ring bounds
  int x0 = 0, y0 = 0, x1 = S - 1, y1 = S - 1;
  (void)lo; (void)hi;
  // segments: right along y0, up along x1, left along y1, down along x0 (stopping 2 above the start), then shrink
  for (int t = 0; t < 4 * turns + 2; t++)
  {
    int len;
    if (di == 1) len = x1 - i;
    else if (dj == 1) len = y1 - j;
    else if (di == -1) len = i - x0;
    else len = j - y0;
    if (len <= 0) break;
    for (int k = 0; k <= len; k++) g.set(i + k * di, j + k * dj);
    i += len * di;
    j += len * dj;
    // shrink the side we just left behind us
    if (di == 1) y0 += 2;
    else if (dj == 1) x1 -= 2;
    else if (di == -1) y1 -= 2;
    else x0 += 2;
    int ndi = -dj, ndj = di; // turn left
    di = ndi; dj = ndj;
  }
  (void)r;
  return g;
}
static refp::Cells cellsHistogram(Rng& r, int ncol, int maxh, bool twoSided)
{
  refp::Cells g;
  g.init(ncol, 2 * maxh + 1);
  int prevTop = maxh, prevBot = maxh;
  for (int i = 0; i < ncol; i++)
  {
    int top = maxh + (r.coin(0.3) ? prevTop - maxh : r.irange(0, maxh));
    int bot = twoSided ? maxh - (r.coin(0.3) ? maxh - prevBot : r.irange(0, maxh)) : maxh;
    if (top < bot) std::swap(top, bot);
    // columns must overlap with the previous one to stay connected without pinches
    if (i > 0) { bot = std::min(bot, prevTop); top = std::max(top, prevBot); }
    for (int j = bot; j <= top; j++) g.set(i, j);
    prevTop = top; prevBot = bot;
  }
  return g;
}

struct PolyGen
{
  Ring ring;
  std::string kind;
};

static Ring transformRing(Rng& r, const Ring& in, std::string& tag)
{
  Ring out = in;
  I64 a = r.pick(std::vector<int>{1, 1, 2, 3}), b = r.pick(std::vector<int>{1, 1, 2, 3});
  I64 sh = r.coin(0.5) ? 0 : r.irange(-2, 2);
  bool tr = r.coin(0.4), rf = r.coin(0.5);
  for (auto& p : out)
  {
    I64 x = a * p.x + sh * p.y, y = b * p.y; // shear keeps horizontal edges horizontal, tilts the vertical ones
    if (tr) std::swap(x, y);
    if (rf) x = -x;
    p = Pt{x, y};
  }
  // random starting vertex
  std::rotate(out.begin(), out.begin() + r.irange(0, (int)out.size() - 1), out.end());
  if (r.coin(0.3)) std::reverse(out.begin(), out.end());
  tag = std::string(sh ? "sheared" : "plain") + (tr ? "+transposed" : "");
  // move into the positive quadrant
  I64 mx = out[0].x, my = out[0].y;
  for (auto& p : out) { mx = std::min(mx, p.x); my = std::min(my, p.y); }
  for (auto& p : out) { p.x -= mx; p.y -= my; }
  return out;
}

static PolyGen genPolygon(Rng& r, Ctx& c, int maxVert)
{
  for (int att = 0; att < 20; att++)
  {
    PolyGen g;
    int k = r.irange(0, 9);
    Ring base;
    bool cells = false;
    refp::Cells cg;
    if (k == 0) { g.kind = "convex"; base = genConvex(r, r.pick(std::vector<int>{6, 12, 30})); }
    else if (k == 1) { g.kind = "star"; base = genStar(r, r.pick(std::vector<int>{12, 24, 48})); }
    else if (k <= 4)
    {
      g.kind = "blob";
      int W = r.irange(3, 16), H = r.irange(3, 16);
      cg = cellsBlob(r, W, H, r.irange(3, W * H * 2 / 3 + 1));
      cells = true;
    }
    else if (k <= 6) { g.kind = "comb"; cg = cellsComb(r, r.irange(2, c.thorough() ? 30 : 14), r.irange(1, 8), r.coin(0.4)); cells = true; }
    else if (k == 7) { g.kind = "spiral"; cg = cellsSpiral(r, r.irange(1, c.thorough() ? 8 : 5)); cells = true; }
    else { g.kind = "histogram"; cg = cellsHistogram(r, r.irange(2, 30), r.irange(1, 8), r.coin(0.5)); cells = true; }
    bool keepCol = r.coin(0.35);
    if (cells)
    {
      refp::keepOneComponent(cg);
      refp::repair(cg);
      base = refp::traceBoundary(cg, keepCol);
      if (base.size() < 4) continue;
      for (auto& p : base) { p.x *= 2; p.y *= 2; }
      if (keepCol) g.kind += "+collinear";
    }
    else if (keepCol)
    {
      base = addCollinear(r, base, 0.7);
      g.kind += "+collinear";
    }
    std::string tag;
    Ring ring = transformRing(r, base, tag);
    if ((int)ring.size() > maxVert || ring.size() < 3) continue;
    if (!refp::isSimple(ring)) { c.skip("generator-nonsimple"); continue; }
    g.ring = ring;
    g.kind += ":" + tag;
    return g;
  }
  PolyGen g;
  g.kind = "convex:plain";
  g.ring = Ring{{0, 0}, {8, 0}, {8, 8}, {0, 8}};
  return g;
}

static PolyElem mkElem(const Ring& ring, const Frame& f, bool closed, double zmin = TESTV, double zmax = TESTV)
{
  int n = (int)ring.size();
  VectorDouble x(n + (closed ? 1 : 0)), y(n + (closed ? 1 : 0));
  for (int i = 0; i < n; i++) { x[i] = f.X(ring[i].x); y[i] = f.Y(ring[i].y); }
  if (closed) { x[n] = x[0]; y[n] = y[0]; }
  return PolyElem(x, y, zmin, zmax);
}

static void bbox(const Ring& ring, I64& x0, I64& x1, I64& y0, I64& y1)
{
  x0 = x1 = ring[0].x; y0 = y1 = ring[0].y;
  for (auto& p : ring) { x0 = std::min(x0, p.x); x1 = std::max(x1, p.x); y0 = std::min(y0, p.y); y1 = std::max(y1, p.y); }
}

static Pt genQuery(Rng& r, const Ring& ring, I64 x0, I64 x1, I64 y0, I64 y1)
{
  int n = (int)ring.size();
  int t = r.irange(0, 99);
  auto rx = [&]() { return (I64)r.irange((int)x0 - 3, (int)x1 + 3); };
  auto ry = [&]() { return (I64)r.irange((int)y0 - 3, (int)y1 + 3); };
  if (t < 30) return Pt{rx(), ry()};
  if (t < 62) return Pt{rx(), ring[r.irange(0, n - 1)].y};                                          // level with a vertex
  if (t < 77) { Pt v = ring[r.irange(0, n - 1)]; return Pt{v.x + r.irange(-2, 2), v.y + r.irange(-2, 2)}; } // around a vertex
  if (t < 90)
  {
    int i = r.irange(0, n - 1);
    Pt a = ring[i], b = ring[(i + 1) % n];
    return Pt{(a.x + b.x) / 2 + r.irange(-1, 1), (a.y + b.y) / 2 + r.irange(-1, 1)};                  // around an edge midpoint
  }
  return Pt{ring[r.irange(0, n - 1)].x, ry()};                                                       // below / above a vertex
}

static const char* ALN[] = {"generic", "level-vertex", "level-horizontal-edge", "level-many"};

// ------------------------------------------------------------------------------------------------------------
// kind 1: one polygon
// ------------------------------------------------------------------------------------------------------------
static void caseSingle(Rng& r, Ctx& c)
{
  int maxV   = c.thorough() ? 400 : 250;
  PolyGen g  = genPolygon(r, c, maxV);
  Frame f    = genFrame(r, true);
  bool closed = r.coin(0.5);
  I64 ar     = refp::area2(g.ring);
  c.setSig(fmt("single:%s:%s:%s:n%d:h%g:off%d", g.kind.c_str(), closed ? "closed" : "open", ar > 0 ? "ccw" : "cw",
               (int)g.ring.size() / 25, f.h, (int)(f.ox != 0)));
  c.puts("kind", "single");
  c.puts("polygon", g.kind);
  c.putn("nvert", (double)g.ring.size());
  c.putn("h", f.h);
  {
    std::vector<double> vx, vy;
    for (auto& p : g.ring) { vx.push_back((double)p.x); vy.push_back((double)p.y); }
    c.put("ring_x_halfunits", jvec(vx, 40));
    c.put("ring_y_halfunits", jvec(vy, 40));
  }
  PolyElem pe = mkElem(g.ring, f, closed);
  Polygons pol;
  pol.addPolyElem(pe);
  c.truth("build", "C20:Polygons:addPolyElem", pol.getPolyElemNumber() == 1, "polygon with >= 3 vertices accepted");
  if (pol.getPolyElemNumber() != 1) return;
  PolyElem peClosed = pe;
  peClosed.closePolyElem();
  c.truth("build", (!closed && f.h < 1e-4) ? "C20:closePolyElem:tiny-open-ring" : "C20:PolyElem:closePolyElem",
          peClosed.getNPoints() == (int)g.ring.size() + 1,
          fmt("closed ring has %d points for %zu vertices", peClosed.getNPoints(), g.ring.size()));

  I64 x0, x1, y0, y1;
  bbox(g.ring, x0, x1, y0, y1);
  int nq = c.thorough() ? 1000 : 300;
  std::string cl = closed ? "closed" : "open";
  // small-scale stratum with an open ring: whether the ring gets closed is decided by an absolute tolerance; everything
  // observed there is reported under one key
  bool tinyOpen = !closed && f.h < 1e-4;
  auto K = [&](const std::string& k) { return tinyOpen ? std::string("C20:closePolyElem:tiny-open-ring") : k; };
  for (int iq = 0; iq < nq; iq++)
  {
    Pt q = genQuery(r, g.ring, x0, x1, y0, y1);
    int par;
    int loc = refp::locate(g.ring, q, &par);
    if (loc == 0) { c.skip("on-boundary"); continue; }
    if ((loc > 0) != (par == 1)) { c.skip("generator-winding-parity"); continue; } // cannot happen for a simple polygon
    bool want = loc > 0;
    int al    = refp::alignment(g.ring, q);
    c.probe(std::string("align-") + ALN[al]);
    VectorDouble coor = {f.X(q.x), f.Y(q.y)};
    std::string w = fmt("q=(%lld,%lld) half-units, %s, want %d, polygon %s %zu vertices", q.x, q.y, ALN[al], (int)want,
                        g.kind.c_str(), g.ring.size());
    // Polygons::inside closes the ring itself (getClosedPolyElem); both rules coincide for one polygon
    bool g1 = pol.inside(coor, false), g2 = pol.inside(coor, true);
    c.truth("polygons-inside", K(std::string("C20:Polygons.inside:") + cl + ":" + ALN[al]), g1 == want, w);
    c.truth("polygons-inside", K(std::string("C20:Polygons.inside:nested-flag:") + cl + ":" + ALN[al]), g2 == want, w);
    // PolyElem::inside on the closed ring
    bool g3 = peClosed.inside(coor);
    c.truth("polyelem-inside", K(std::string("C20:PolyElem.inside:closed:") + ALN[al]), g3 == want, w);
    if (!closed)
    {
      // PolyElem::inside on a ring left open (the statement covers "closed or left open")
      bool g4 = pe.inside(coor);
      c.truth("polyelem-inside-open", K("C20:PolyElem.inside:open-ring"), g4 == want, w);
    }
  }
}

// ------------------------------------------------------------------------------------------------------------
// kind 2: polygon sets
// ------------------------------------------------------------------------------------------------------------
struct SetGen
{
  std::vector<Ring> rings;
  std::vector<double> zmin, zmax; // in z half-units (even) or TESTV
  std::string kind;
};
static SetGen genSet(Rng& r, Ctx& c, bool withZ)
{
  SetGen s;
  int np = r.irange(2, 5);
  if (r.coin(0.4))
  {
    // concentric copies: ring_k = centre + k (v - centre): nesting depth np
    s.kind = "concentric";
    Ring base = r.coin() ? genConvex(r, 10) : genStar(r, 12);
    // centre: a point strictly inside (try the vertex average rounded to even, else first lattice point found inside)
    I64 cx = 0, cy = 0;
    for (auto& p : base) { cx += p.x; cy += p.y; }
    cx = 2 * (cx / (2 * (I64)base.size()));
    cy = 2 * (cy / (2 * (I64)base.size()));
    if (refp::locate(base, Pt{cx, cy}) <= 0)
    {
      bool found = false;
      I64 x0, x1, y0, y1;
      bbox(base, x0, x1, y0, y1);
      for (I64 y = y0; y <= y1 && !found; y += 2)
        for (I64 x = x0; x <= x1 && !found; x += 2)
          if (refp::locate(base, Pt{x, y}) > 0) { cx = x; cy = y; found = true; }
      if (!found) { base = Ring{{0, 0}, {8, 0}, {8, 8}, {0, 8}}; cx = cy = 4; }
    }
    std::vector<int> ks;
    for (int k = 1; k <= np; k++) ks.push_back(k);
    r.shuffle(ks);
    for (int k : ks)
    {
      Ring rr;
      for (auto& p : base) rr.push_back(Pt{cx + k * (p.x - cx), cy + k * (p.y - cy)});
      if (r.coin(0.3)) std::reverse(rr.begin(), rr.end());
      s.rings.push_back(rr);
    }
    // shift to positive coordinates
    I64 mx = 0, my = 0;
    for (auto& rr : s.rings) for (auto& p : rr) { mx = std::min(mx, p.x); my = std::min(my, p.y); }
    for (auto& rr : s.rings) for (auto& p : rr) { p.x -= mx; p.y -= my; }
  }
  else
  {
    s.kind = "overlapping";
    for (int i = 0; i < np; i++)
    {
      PolyGen g = genPolygon(r, c, 120);
      I64 dx = 2 * r.irange(0, 12), dy = 2 * r.irange(0, 12);
      for (auto& p : g.ring) { p.x += dx; p.y += dy; }
      s.rings.push_back(g.ring);
    }
  }
  s.zmin.assign(s.rings.size(), TESTV);
  s.zmax.assign(s.rings.size(), TESTV);
  if (withZ)
    for (size_t i = 0; i < s.rings.size(); i++)
    {
      int t = r.irange(0, 3);
      double lo = 2 * r.irange(-4, 2), hi = lo + 2 * r.irange(1, 5);
      if (t == 0 || t == 1) s.zmin[i] = lo;
      if (t == 0 || t == 2) s.zmax[i] = hi;
    }
  return s;
}
// expected membership of one polygon of the set: -1 undetermined (on the boundary)
static int memberOf(const SetGen& s, size_t i, const Pt& q, bool hasZ, I64 qz)
{
  int loc = refp::locate(s.rings[i], q);
  if (loc == 0) return -1;
  bool in = loc > 0;
  // vertical limits: "When coor is dimensioned to 3, the third dimension test is performed"; query z is an odd number of
  // half-units and the limits are even, so equality never happens
  if (hasZ)
  {
    if (s.zmin[i] != TESTV && (double)qz < s.zmin[i]) in = false;
    if (s.zmax[i] != TESTV && (double)qz > s.zmax[i]) in = false;
  }
  return in ? 1 : 0;
}

static void caseSet(Rng& r, Ctx& c)
{
  bool withZ = r.coin(0.45);
  SetGen s   = genSet(r, c, withZ);
  Frame f    = genFrame(r);
  bool closed = r.coin(0.5);
  c.setSig(fmt("set:%s:np%zu:z%d:%s:h%g", s.kind.c_str(), s.rings.size(), (int)withZ, closed ? "closed" : "open", f.h));
  c.puts("kind", "set");
  c.puts("set", s.kind);
  c.putn("npoly", (double)s.rings.size());
  c.put("zmin_halfunits", jvec(s.zmin));
  c.put("zmax_halfunits", jvec(s.zmax));
  Polygons pol;
  for (size_t i = 0; i < s.rings.size(); i++)
    pol.addPolyElem(mkElem(s.rings[i], f, closed, s.zmin[i] == TESTV ? TESTV : f.h * s.zmin[i],
                           s.zmax[i] == TESTV ? TESTV : f.h * s.zmax[i]));
  if (!c.truth("build", "C20:Polygons:addPolyElem", pol.getPolyElemNumber() == (int)s.rings.size(), "all polygons accepted"))
    return;
  Ring all;
  for (auto& rr : s.rings) all.insert(all.end(), rr.begin(), rr.end());
  I64 x0, x1, y0, y1;
  bbox(all, x0, x1, y0, y1);
  int nq = c.thorough() ? 800 : 300;
  for (int iq = 0; iq < nq; iq++)
  {
    const Ring& pickr = s.rings[r.irange(0, (int)s.rings.size() - 1)];
    Pt q = genQuery(r, pickr, x0, x1, y0, y1);
    // third coordinate: absent, undefined (TEST: no vertical test), or an odd number of half-units
    int zt   = withZ ? r.irange(0, 9) : 0;
    bool hasZ = withZ && zt >= 2;
    I64 qz   = 2 * r.irange(-6, 8) + 1;
    int count = 0, nmember = 0;
    bool undet = false;
    for (size_t i = 0; i < s.rings.size(); i++)
    {
      int m = memberOf(s, i, q, hasZ, qz);
      if (m < 0) { undet = true; break; }
      count += m;
      nmember++;
    }
    if (undet) { c.skip("on-boundary"); continue; }
    bool wantUnion = count > 0, wantNested = (count % 2) == 1;
    VectorDouble coor = {f.X(q.x), f.Y(q.y)};
    if (withZ && zt == 1) coor.push_back(TESTV);
    if (hasZ) coor.push_back(f.h * (double)qz);
    std::string zs = !withZ ? "2d" : (hasZ ? "z" : (zt == 1 ? "z-undefined" : "z-absent"));
    std::string w  = fmt("q=(%lld,%lld) z=%s%lld half-units: member of %d of %zu polygons [%s]", q.x, q.y, hasZ ? "" : "none ",
                         hasZ ? qz : 0LL, count, s.rings.size(), s.kind.c_str());
    // "If flag_nested=FALSE, a sample is masked off as soon as it belongs to one PolyElem"
    bool gu = pol.inside(coor, false);
    c.truth("set-union", "C20:Polygons.inside:set:union:" + zs, gu == wantUnion, w);
    // "If flag_nested=TRUE, a sample is masked off if the number of polyelems to which it belongs is odd"
    bool gn = pol.inside(coor, true);
    c.truth("set-nested", "C20:Polygons.inside:set:nested:" + zs, gn == wantNested, w);
    if (count >= 2) c.probe("set-multi-member");
    if (count >= 2 && count % 2 == 0) c.probe("set-even-member");
  }
}

// ------------------------------------------------------------------------------------------------------------
// kind 3: selection of gridded samples
// ------------------------------------------------------------------------------------------------------------
static void caseDb(Rng& r, Ctx& c)
{
  bool is3d  = r.coin(0.3);
  bool withZ = is3d && r.coin(0.7);
  SetGen s;
  if (r.coin(0.5))
  {
    PolyGen g = genPolygon(r, c, 200);
    s.rings.push_back(g.ring);
    s.kind = "one:" + g.kind;
    s.zmin.assign(1, TESTV);
    s.zmax.assign(1, TESTV);
    if (withZ) { s.zmin[0] = 2 * r.irange(-3, 0); s.zmax[0] = 2 * r.irange(1, 4); }
  }
  else
    s = genSet(r, c, withZ);
  Frame f;
  f.h = std::ldexp(1.0, r.irange(-3, 1));
  bool polin = !is3d && r.coin(0.12); // dbPolygonDistance sub-case
  if (r.coin(0.3)) { f.ox = (I64)r.irange(-100000, 100000); f.oy = (I64)r.irange(-100000, 100000); }
  Ring all;
  for (auto& rr : s.rings) all.insert(all.end(), rr.begin(), rr.end());
  I64 x0, x1, y0, y1;
  bbox(all, x0, x1, y0, y1);
  // grid: step 1 or 2 half-units, covering the bounding box + margin, node count bounded
  int step = r.coin(0.5) ? 2 : 1;
  I64 gx0 = x0 - 2 * r.irange(1, 2), gy0 = y0 - 2 * r.irange(1, 2);
  int nx = (int)((x1 + 4 - gx0) / step) + 1, ny = (int)((y1 + 4 - gy0) / step) + 1;
  int nz = is3d ? r.irange(2, 4) : 1;
  int maxNodes = c.thorough() ? 20000 : 5000;
  while ((long)nx * ny * nz > maxNodes) { step *= 2; nx = (int)((x1 + 4 - gx0) / step) + 1; ny = (int)((y1 + 4 - gy0) / step) + 1; }
  bool nested  = r.coin(0.5);
  bool flagSel = r.coin(0.4);
  bool closed  = r.coin(0.5);
  // flag_period: "true if first coordinate is longitude (in degree) and must be cycled for the check": a sample counts
  // if x, x-360 or x+360 passes. 360 degrees = P half-units (h is a power of two >= 1/8, so P is an integer); in half of
  // these cases the grid is moved one period away from the polygons.
  bool period = !polin && r.coin(0.12);
  I64 P       = (I64)std::llround(360.0 / f.h);
  int pshift  = 0;
  if (period)
  {
    pshift = r.irange(-1, 1);
    gx0 += pshift * P;
  }
  c.setSig(fmt("db:%s:np%zu:%s:z%d:%s:sel%d:step%d:%s:polin%d:period%d", s.kind.c_str(), s.rings.size(), is3d ? "3d" : "2d",
               (int)withZ, nested ? "nested" : "union", (int)flagSel, step, closed ? "closed" : "open", (int)polin,
               period ? 2 + pshift : 0));
  c.puts("kind", "db");
  c.puts("set", s.kind);
  c.putn("nx", nx);
  c.putn("ny", ny);
  c.putn("nz", nz);
  c.putn("step_halfunits", step);
  defineDefaultSpace(ESpaceType::RN, is3d ? 3 : 2);
  VectorInt vnx = {nx, ny};
  VectorDouble vdx = {f.h * step, f.h * step}, vx0 = {f.X(gx0), f.Y(gy0)};
  I64 gz0 = -5, zstep = 4; // z nodes: odd half-units -5, -1, 3, 7
  if (is3d) { vnx.push_back(nz); vdx.push_back(f.h * zstep); vx0.push_back(f.h * gz0); }
  std::unique_ptr<DbGrid> db(DbGrid::create(vnx, vdx, vx0));
  if (!db) throw SkipCase{"grid-creation"};
  int n = db->getSampleNumber();
  std::vector<double> presel(n, 1.);
  if (flagSel || r.coin(0.2))
  {
    for (auto& v : presel) v = r.coin(0.7) ? 1. : 0.;
    db->addColumns(VectorDouble(presel), "presel", ELoc::SEL, 0);
  }
  bool hasPresel = db->hasLocVariable(ELoc::SEL);
  Polygons pol;
  for (size_t i = 0; i < s.rings.size(); i++)
    pol.addPolyElem(mkElem(s.rings[i], f, closed, s.zmin[i] == TESTV ? TESTV : f.h * s.zmin[i],
                           s.zmax[i] == TESTV ? TESTV : f.h * s.zmax[i]));
  if (!c.truth("build", "C20:Polygons:addPolyElem", pol.getPolyElemNumber() == (int)s.rings.size(), "all polygons accepted"))
    return;

  // expected membership per node (exact)
  std::vector<int> want(n, -1);
  std::vector<Pt> qs(n);
  std::vector<I64> qzs(n, 0);
  for (int i = 0; i < n; i++)
  {
    int ix = i % nx, iy = (i / nx) % ny, iz = i / (nx * ny);
    Pt q{gx0 + (I64)ix * step, gy0 + (I64)iy * step};
    I64 qz = gz0 + (I64)iz * zstep;
    qs[i] = q; qzs[i] = qz;
    bool undet = false;
    int res    = 0;
    for (int sh = (period ? -1 : 0); sh <= (period ? 1 : 0) && !undet; sh++)
    {
      Pt qq{q.x + sh * P, q.y};
      int count = 0;
      for (size_t k = 0; k < s.rings.size(); k++)
      {
        int m = memberOf(s, k, qq, is3d, qz);
        if (m < 0) { undet = true; break; }
        count += m;
      }
      if (!undet && (nested ? (count % 2) : (count > 0))) res = 1;
    }
    if (undet) continue;
    want[i] = res;
  }
  // the point test on every node, before the Db is modified
  std::vector<int> test(n);
  for (int i = 0; i < n; i++)
  {
    VectorDouble coor(is3d ? 3 : 2);
    for (int k = 0; k < (int)coor.size(); k++) coor[k] = db->getCoordinate(i, k);
    test[i] = pol.inside(coor, nested) ? 1 : 0;
    if (period)
      for (int sh = -1; sh <= 1; sh += 2)
      {
        VectorDouble c2 = coor;
        c2[0] += sh * 360.;
        if (pol.inside(c2, nested)) test[i] = 1;
      }
  }
  // key: one per (dimension, rule); sets of several polygons with vertical limits have their own key
  std::string kd = std::string("C20:db_polygon:") + (is3d ? "3d" : "2d") + ":" + (nested ? "nested" : "union");
  if (withZ && s.rings.size() > 1) kd = "C20:db_polygon:3d:zlimits:multi";
  else
  {
    if (withZ) kd += ":zlimits";
    if (period) kd += ":period";
  }
  int ncolBefore = db->getColumnNumber();
  db_polygon(db.get(), &pol, flagSel, period, nested);
  if (period) c.probe(pshift ? "period-shifted" : "period-unshifted");
  c.truth("db-shape", kd + ":one-new-column", db->getColumnNumber() == ncolBefore + 1, "db_polygon adds exactly one column");
  VectorDouble selv = db->getColumnByLocator(ELoc::SEL, 0);
  if (!c.truth("db-shape", kd + ":selection-locator", (int)selv.size() == n, "the new column carries the selection locator"))
    return;
  for (int i = 0; i < n; i++)
  {
    std::string w = fmt("node %d q=(%lld,%lld,%lld) half-units sel=%g [%s]", i, qs[i].x, qs[i].y, qzs[i], selv[i], s.kind.c_str());
    bool masked = flagSel && hasPresel && presel[i] == 0.;
    if (masked)
    {
      // "flag_sel: true if previous selection must be taken into account": a masked sample stays masked
      c.truth("db-presel", kd + ":masked-sample-selected", selv[i] == 0., w);
      continue;
    }
    // the selection marks exactly the samples whose location passes the point test ...
    c.truth("db-vs-test", kd + ":differs-from-point-test", (selv[i] != 0.) == (test[i] != 0), w);
    // ... and the geometric truth
    if (want[i] < 0) { c.skip("on-boundary"); continue; }
    c.truth("db-exact", kd, (selv[i] != 0.) == (want[i] != 0), w + " " + ALN[std::min(3, refp::alignment(s.rings[0], qs[i]))]);
    if (selv[i] != 0. && selv[i] != 1.) c.truth("db-shape", kd + ":value-not-0-1", false, w);
  }

  // ---- dbPolygonDistance(..., polin = +1 / -1): "if sample is outside (inside) polygon, return TEST"
  if (polin)
  {
    std::unique_ptr<DbGrid> d2(DbGrid::create(vnx, vdx, vx0));
    int pl = r.coin() ? 1 : -1;
    Polygons pol2; // 2-D, union rule
    for (size_t i = 0; i < s.rings.size(); i++) pol2.addPolyElem(mkElem(s.rings[i], f, true));
    int nc0 = d2->getColumnNumber();
    int err = 1;
    try { err = dbPolygonDistance(d2.get(), &pol2, TESTV, 0, pl); }
    catch (const LibAbort&) { err = 99; }
    std::string kq = "C20:dbPolygonDistance:polin";
    if (c.truth("polin", kq + ":failed", err == 0 && d2->getColumnNumber() == nc0 + 1, fmt("error code %d", err)))
    {
      VectorDouble dv = d2->getColumnByColIdx(nc0);
      for (int i = 0; i < n && i < (int)dv.size(); i++)
      {
        int count = 0;
        bool undet = false;
        for (size_t k = 0; k < s.rings.size(); k++)
        {
          int loc = refp::locate(s.rings[k], qs[i]);
          if (loc == 0) undet = true;
          if (loc > 0) count++;
        }
        if (undet) { c.skip("on-boundary"); continue; }
        bool inside   = count > 0;
        bool wantTest = pl > 0 ? !inside : inside;
        bool isTest   = dv[i] > 1e30;
        c.truth("polin", kq, isTest == wantTest,
                fmt("polin=%d node %d q=(%lld,%lld) inside=%d value=%g", pl, i, qs[i].x, qs[i].y, (int)inside, dv[i]));
      }
    }
  }
}

// ------------------------------------------------------------------------------------------------------------
// kind 4: convex hull of samples
// ------------------------------------------------------------------------------------------------------------
static void caseHull(Rng& r, Ctx& c)
{
  defineDefaultSpace(ESpaceType::RN, 2);
  Frame f = genFrame(r);
  // small-scale stratum: data sets whose whole extent is 1e-2 .. 1e-5 (e.g. metres expressed in kilometres)
  bool small = r.coin(0.06);
  if (small) { f = Frame(); f.h = std::ldexp(1.0, r.irange(-20, -12)); }
  int lay = r.irange(0, 4);
  int n   = r.coin(0.2) ? r.irange(3, 6) : r.irange(7, c.thorough() ? 150 : 60);
  int R   = r.pick(std::vector<int>{3, 6, 12, 30});
  std::vector<Pt> pts;
  std::string lname;
  for (int i = 0; i < n; i++)
  {
    Pt p{0, 0};
    switch (lay)
    {
      case 0: lname = "lattice-box"; p = Pt{2 * r.irange(0, R), 2 * r.irange(0, R)}; break;     // many collinear hull points
      case 1: lname = "disc";
        do { p = Pt{2 * r.irange(0, R), 2 * r.irange(0, R)}; } while ((p.x - R) * (p.x - R) + (p.y - R) * (p.y - R) > (I64)R * R);
        break;
      case 2: lname = "cross"; p = r.coin() ? Pt{2 * r.irange(0, R), (I64)R} : Pt{(I64)R, 2 * r.irange(0, R)}; p.x &= ~1LL; p.y &= ~1LL; break;
      case 3: lname = "triangle"; { I64 a = r.irange(0, R), b = r.irange(0, R - (int)a); p = Pt{2 * a, 2 * b}; } break;
      default: lname = "diagonal-band"; { I64 a = r.irange(0, R); p = Pt{2 * a, 2 * (a + r.irange(0, 2))}; } break;
    }
    pts.push_back(p);
  }
  bool dupl = r.coin(0.2);
  if (dupl) for (int t = 0; t < 3; t++) pts[r.irange(0, n - 1)] = pts[r.irange(0, n - 1)];
  bool hasSel = r.coin(0.3);
  std::vector<double> sel(n, 1.);
  if (hasSel) for (auto& v : sel) v = r.coin(0.7) ? 1. : 0.;
  std::vector<Pt> act;
  for (int i = 0; i < n; i++) if (sel[i] != 0.) act.push_back(pts[i]);
  Ring hull = refp::convexHull(act);
  double dilate = r.coin(0.3) ? f.h * r.pick(std::vector<double>{0.5, 2., 7.}) : 0.;
  c.setSig(fmt("hull:%s:n%d:R%d:dup%d:sel%d:dil%d:h%g", lname.c_str(), n / 10, R, (int)dupl, (int)hasSel, (int)(dilate > 0), f.h));
  c.putn("h", f.h);
  c.puts("kind", "hull");
  c.puts("layout", lname);
  c.putn("n", n);
  c.putn("dilate", dilate);
  {
    std::vector<double> vx, vy;
    for (auto& p : pts) { vx.push_back((double)p.x); vy.push_back((double)p.y); }
    c.put("x_halfunits", jvec(vx, 40));
    c.put("y_halfunits", jvec(vy, 40));
  }
  if (hull.size() < 3 || refp::area2(hull) == 0) { c.skip("degenerate-hull"); throw SkipCase{"collinear-points"}; }

  std::unique_ptr<Db> db(Db::create());
  {
    VectorDouble x(n), y(n);
    for (int i = 0; i < n; i++) { x[i] = f.X(pts[i].x); y[i] = f.Y(pts[i].y); }
    db->addColumns(x, "x1", ELoc::X, 0);
    db->addColumns(y, "x2", ELoc::X, 1);
    if (hasSel) db->addColumns(VectorDouble(sel), "sel", ELoc::SEL, 0);
  }
  if (small)
  {
    // the hull construction was seen not to terminate on small-extent data: try it in a child first
    Db* dbp = db.get();
    int g   = runGuarded([dbp, dilate]() { Polygons* p = Polygons::createFromDb(dbp, dilate); (void)p; }, 5);
    if (!c.truth("hull-build", "C20:hull:small-scale", g != 1, "Polygons::createFromDb does not return (stopped after 5 s)")) return;
    if (!c.truth("hull-build", "C20:hull:small-scale", g != 2, "Polygons::createFromDb aborts the process")) return;
  }
  std::unique_ptr<Polygons> pol(Polygons::createFromDb(db.get(), dilate));
  std::string kh = std::string("C20:hull:") + (dilate > 0 ? "dilated" : "plain");
  // one key for everything observed in the small-scale stratum
  auto KH = [&](const char* suffix) { return small ? std::string("C20:hull:small-scale") : kh + suffix; };
  if (!c.truth("hull-build", KH(":createFromDb-failed"), pol != nullptr && pol->getPolyElemNumber() == 1,
               "Polygons::createFromDb on >= 3 non-collinear active samples"))
    return;
  const PolyElem& pe = pol->getPolyElem(0);
  int nv = pe.getNPoints();
  if (dilate == 0.)
  {
    // returned vertices back to integers (they must be samples)
    Ring got;
    bool allSamples = true;
    for (int i = 0; i < nv; i++)
    {
      double gx = pe.getX(i) / f.h - (double)f.ox, gy = pe.getY(i) / f.h - (double)f.oy;
      Pt p{(I64)std::llround(gx), (I64)std::llround(gy)};
      if ((double)p.x != gx || (double)p.y != gy || std::find(act.begin(), act.end(), p) == act.end()) allSamples = false;
      got.push_back(p);
    }
    c.truth("hull-vertices", KH(":vertex-not-a-sample"), allSamples, "every hull vertex is an active sample");
    if (!allSamples) return;
    if (got.size() > 1 && got.front() == got.back()) got.pop_back();
    // the hull contains all the points it was built from
    bool contains = true;
    std::string miss;
    for (auto& p : act)
      if (got.size() < 3 || refp::locate(got, p) < 0) { contains = false; miss = fmt("(%lld,%lld)", p.x, p.y); break; }
    c.truth("hull-contains", KH(":sample-outside-hull"), contains, "active sample strictly outside the returned hull " + miss);
    // it is the convex hull: every true hull vertex is returned, every returned vertex lies on the true hull boundary
    bool exact = true;
    for (auto& p : hull) if (std::find(got.begin(), got.end(), p) == got.end()) exact = false;
    for (auto& p : got) if (refp::locate(hull, p) != 0) exact = false;
    c.truth("hull-exact", KH(":not-the-convex-hull"), exact, fmt("%zu returned vertices, %zu true hull vertices", got.size(), hull.size()));
    // point test on the samples: strictly interior samples are inside
    for (auto& p : act)
    {
      if (refp::locate(hull, p) <= 0) { c.skip("on-boundary"); continue; }
      VectorDouble coor = {f.X(p.x), f.Y(p.y)};
      c.truth("hull-inside", KH(":interior-sample-not-inside"), pol->inside(coor, false), fmt("sample (%lld,%lld)", p.x, p.y));
    }
  }
  // ---- selection of a second (gridded) Db by the hull of the first
  I64 x0, x1, y0, y1;
  bbox(hull, x0, x1, y0, y1);
  int step = 1;
  I64 mg = 2 + (I64)std::ceil(dilate / f.h) + 2;
  I64 gx0 = x0 - mg, gy0 = y0 - mg;
  int nx = (int)(x1 + mg - gx0) + 1, ny = (int)(y1 + mg - gy0) + 1;
  while ((long)nx * ny > 4000) { step *= 2; nx = (int)((x1 + mg - gx0) / step) + 1; ny = (int)((y1 + mg - gy0) / step) + 1; }
  std::unique_ptr<DbGrid> g(DbGrid::create(VectorInt({nx, ny}), VectorDouble({f.h * step, f.h * step}),
                                           VectorDouble({f.X(gx0), f.Y(gy0)})));
  if (!g) return;
  int ng = g->getSampleNumber();
  // a previous selection on the target must not matter: "all samples must be checked as a sample, initially masked, can be
  // masked OFF as it belongs to the convex hull" (db_selhull): every other case the grid carries one, masking half of its nodes
  if (c.icase % 2 == 0)
  {
    Rng r2(c.seed, "C20presel", (uint64_t)c.icase);
    VectorDouble pre(ng);
    for (auto& v : pre) v = r2.coin(0.5) ? 1. : 0.;
    g->addSelection(pre, "presel");
    c.probe("hull-target-with-previous-selection");
  }
  int err = g->addSelectionFromDbByConvexHull(db.get(), dilate);
  if (!c.truth("hull-select", KH(":addSelectionFromDbByConvexHull-failed"), err == 0, fmt("error code %d", err))) return;
  VectorDouble sv = g->getColumnByLocator(ELoc::SEL, 0);
  if (!c.truth("hull-select", KH(":selection-locator"), (int)sv.size() == ng, "selection column present")) return;
  for (int i = 0; i < ng; i++)
  {
    Pt q{gx0 + (I64)(i % nx) * step, gy0 + (I64)(i / nx) * step};
    int loc = refp::locate(hull, q);
    std::string w = fmt("node (%lld,%lld) half-units sel=%g", q.x, q.y, sv[i]);
    if (dilate == 0.)
    {
      if (loc == 0) { c.skip("on-boundary"); continue; }
      c.truth("hull-select", KH(":selection"), (sv[i] != 0.) == (loc > 0), w);
    }
    else
    {
      // dilated hull: between the hull (must be selected) and the hull grown by the radius (beyond: not selected)
      if (loc > 0) { c.truth("hull-select", KH(":inside-hull-not-selected"), sv[i] != 0., w); continue; }
      long double dmin = 1e30L;
      int nh = (int)hull.size();
      for (int k = 0; k < nh; k++)
        dmin = std::min(dmin, refp::distToSegment((long double)q.x, (long double)q.y, (long double)hull[k].x, (long double)hull[k].y,
                                                  (long double)hull[(k + 1) % nh].x, (long double)hull[(k + 1) % nh].y));
      long double rad = (long double)dilate / f.h;
      if (dmin > rad * (1 + 1e-9L) + 1e-9L) c.truth("hull-select", KH(":beyond-radius-selected"), sv[i] == 0., w + fmt(" dist %.6Lg radius %.6Lg", dmin, rad));
      else c.skip("dilation-band");
    }
  }
}

static void run_case(Rng& r, Ctx& c)
{
  redefine_exit(onLibExit);
  defineDefaultSpace(ESpaceType::RN, 2);
  int k = r.irange(0, 99);
  if (k < 45) caseSingle(r, c);
  else if (k < 65) caseSet(r, c);
  else if (k < 85) caseDb(r, c);
  else caseHull(r, c);
}

int main(int argc, char** argv) { return run_main(argc, argv, "C20", run_case); }
