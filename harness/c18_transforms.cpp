// C18 — data transforms and their inverses compose to the identity (to the accuracy of the method).
//
// Each case draws one transform family and a data set (skewed / multimodal / with ties / with TEST / with a selection):
//   hermite   AnamHermite fit, raw->gaussian->raw and gaussian->raw->gaussian (vector and Db forms) inside the interval the
//             anamorphosis reports, forward transform = sum psi_n H_n(y) (own long-double recurrence), monotone on the
//             practical interval on the library's own 0.1 grid
//   empirical AnamEmpirical (normal score / gaussian dilution / lognormal dilution) round trips on strictly increasing segments
//   hpoly     hermitePolynomials orthonormal for the Gaussian law (Gauss-Hermite quadrature, own nodes and weights, long double)
//   pca/maf   PCA::dbZ2F then dbF2Z = identity, factors centred, uncorrelated, unit variance (MAF: diagonal lagged variogram matrix)
//   nscore    VH::normalScore rank preserving, TEST preserving, quantiles of the plotting position used by the code
//   rotation  Rotation::rotateDirect o rotateInverse = identity (2-D, 3-D), matrices mutually transposed and orthonormal
#include "common/vh.hpp"
#include "common/ref_linalg.hpp"

#include "Anamorphosis/AnamContinuous.hpp"
#include "Anamorphosis/AnamEmpirical.hpp"
#include "Anamorphosis/AnamHermite.hpp"
#include "Basic/Law.hpp"
#include "Basic/NamingConvention.hpp"
#include "Basic/VectorHelper.hpp"
#include "Db/Db.hpp"
#include "Geometry/Rotation.hpp"
#include "Polynomials/Hermite.hpp"
#include "Space/ASpaceObject.hpp"
#include "Stats/PCA.hpp"

#include <memory>

using namespace vh;
using ref::LD;
using ref::Mat;

static const double EPS = 2.220446049250313e-16;
static const double PI  = 3.14159265358979323846;

// ------------------------------------------------------------------------------------------------
// reference pieces (harness side, long double)
// ------------------------------------------------------------------------------------------------
// normalised Hermite polynomials with the sign convention of Hermite.cpp: H0 = 1, H1 = -y,
// H_n = -(y H_{n-1} + sqrt(n-1) H_{n-2}) / sqrt(n)   (orthonormal for N(0,1))
static void refHermite(LD y, int n, std::vector<LD>& h)
{
  h.assign(n, 0);
  if (n > 0) h[0] = 1;
  if (n > 1) h[1] = -y;
  for (int k = 2; k < n; k++) h[k] = -(y * h[k - 1] + std::sqrt((LD)(k - 1)) * h[k - 2]) / std::sqrt((LD)k);
}
// Phi(y) = sum psi_n H_n(y) and its derivative (H_n' = -sqrt(n) H_{n-1}); also sum |psi_n H_n| for the rounding bound
static void refPhi(const std::vector<double>& psi, double y, LD& val, LD& der, LD& mag)
{
  int n = (int)psi.size();
  std::vector<LD> h;
  refHermite(y, n, h);
  val = der = mag = 0;
  for (int k = 0; k < n; k++)
  {
    val += psi[k] * h[k];
    mag += std::fabs(psi[k] * h[k]);
    if (k > 0) der += psi[k] * (-std::sqrt((LD)k) * h[k - 1]);
  }
}
// standard normal cdf and its inverse in long double (Newton on erfc)
static LD refCdf(LD x) { return 0.5L * erfcl(-x / std::sqrt(2.0L)); }
static LD refInvCdf(LD p)
{
  if (p <= 0) return -INFINITY;
  if (p >= 1) return INFINITY;
  LD lo = -40, hi = 40;
  for (int it = 0; it < 200; it++)
  {
    LD mid = 0.5L * (lo + hi);
    if (refCdf(mid) < p) lo = mid; else hi = mid;
  }
  return 0.5L * (lo + hi);
}
static double refPdf(double x) { return std::exp(-0.5 * x * x) / std::sqrt(2 * PI); }

// Gauss-Hermite rule for the weight exp(-x^2/2)/sqrt(2 pi): nodes = eigenvalues of the Jacobi matrix (off-diagonal sqrt(k)),
// weights by the Christoffel formula w_i = 1 / sum_{k<N} H_k(x_i)^2 (well conditioned), all in long double.
struct GH
{
  std::vector<LD> x, w;
};
static const GH& gaussHermite(int N)
{
  static std::map<int, GH> cache;
  auto it = cache.find(N);
  if (it != cache.end()) return it->second;
  Mat J(N, N);
  for (int k = 1; k < N; k++) J(k, k - 1) = J(k - 1, k) = std::sqrt((LD)k);
  GH g;
  g.x = ref::eigsym(J);
  // polish the nodes by Newton on H_N (H_N' = -sqrt(N) H_{N-1})
  std::vector<LD> h;
  for (auto& xi : g.x)
    for (int itn = 0; itn < 3; itn++)
    {
      refHermite(xi, N + 1, h);
      LD d = -std::sqrt((LD)N) * h[N - 1];
      if (d != 0) xi -= h[N] / d;
    }
  g.w.resize(N);
  for (int i = 0; i < N; i++)
  {
    refHermite(g.x[i], N, h);
    LD s = 0;
    for (int k = 0; k < N; k++) s += h[k] * h[k];
    g.w[i] = 1 / s;
  }
  return cache[N] = g;
}

// ------------------------------------------------------------------------------------------------
// data sets
// ------------------------------------------------------------------------------------------------
enum Dist { D_LOGN = 0, D_BIMODAL, D_UNIF, D_EXPO, D_GAUSS, NDIST };
static const char* DISTN[] = {"lognormal", "bimodal", "uniform", "exponential", "gaussian"};
struct Sample
{
  int dist = 0;
  bool ties = false, hasTest = false, positive = false;
  VectorDouble z;
  int ndef = 0;
};
static Sample genSample(Rng& r, int n, bool forcePositive = false)
{
  Sample s;
  s.dist    = r.irange(0, NDIST - 1);
  if (forcePositive && (s.dist == D_BIMODAL || s.dist == D_GAUSS)) s.dist = D_LOGN;
  s.ties    = r.coin(0.3);
  s.hasTest = r.coin(0.3);
  double scale = r.pick(std::vector<double>{1., 1., 10., 1000., 0.01});
  double shift = forcePositive ? 0. : r.pick(std::vector<double>{0., 0., 5., -100.});
  s.z.resize(n);
  for (int i = 0; i < n; i++)
  {
    double v = 0;
    switch (s.dist)
    {
      case D_LOGN: v = std::exp(0.8 * r.normal()); break;
      case D_BIMODAL: v = r.coin(0.4) ? -2 + 0.5 * r.normal() : 3 + r.normal(); break;
      case D_UNIF: v = r.uni(0.5, 4); break;
      case D_EXPO: v = 0.05 - std::log(1 - r.u01()); break;
      default: v = r.normal(); break;
    }
    if (s.ties) v = std::round(v * 4) / 4.;
    if (forcePositive && v <= 0) v = 0.25;
    v = v * scale + shift;
    s.z[i] = v;
  }
  if (s.hasTest)
    for (int i = 0; i < n; i++)
      if (r.coin(0.1)) s.z[i] = TEST;
  for (int i = 0; i < n; i++)
    if (!FFFF(s.z[i])) s.ndef++;
  if (s.ndef < 5)
    for (int i = 0; i < n && s.ndef < 5; i++)
      if (FFFF(s.z[i])) { s.z[i] = scale * (1 + 0.37 * i) + shift; s.ndef++; }
  s.positive = true;
  for (int i = 0; i < n; i++)
    if (!FFFF(s.z[i]) && s.z[i] <= 0) s.positive = false;
  return s;
}
static int drawN(Rng& r, bool thorough)
{
  double p = r.u01();
  if (p < 0.5) return r.irange(20, 120);
  if (p < 0.85) return r.irange(120, 500);
  return r.irange(500, thorough ? 2000 : 900);
}

// ------------------------------------------------------------------------------------------------
// Root-cause keys of the open findings (reports/C18_open_findings.json): one key per cause.
// ------------------------------------------------------------------------------------------------
static const char* K_NONMONO  = "C18:hermite:practical-interval-not-monotone";                 // AnamHermite::_defineBounds
static const char* K_NONPOS   = "C18:empirical:gaussian-dilution:non-positive-data-ignored";   // AnamEmpirical::_fitWithDilutionGaussian
static const char* K_TABLE    = "C18:empirical:gaussian-dilution:table-not-monotone";          // law_invcdf_gaussian(p < 1.1e-16) = -0

// ------------------------------------------------------------------------------------------------
// family: Hermite anamorphosis
// ------------------------------------------------------------------------------------------------
static void famHermiteBody(Rng& r, Ctx& c, const Sample& s, int nbpoly, bool bound, bool viaDb, bool useSel, bool useWt, bool byLoc, const char* scriptedName);
static void famHermite(Rng& r, Ctx& c)
{
  int n       = drawN(r, c.thorough());
  Sample s    = genSample(r, n);
  int nbpoly  = r.coin(0.5) ? r.irange(3, 30) : r.irange(3, 100);
  bool bound  = !r.coin(0.2);
  bool viaDb  = r.coin(0.4);
  bool useSel = viaDb && r.coin(0.5);
  bool useWt  = !viaDb && r.coin(0.25);
  bool byLoc  = viaDb && r.coin(0.3);
  famHermiteBody(r, c, s, nbpoly, bound, viaDb, useSel, useWt, byLoc, nullptr);
}
static void famHermiteBody(Rng& r, Ctx& c, const Sample& s, int nbpoly, bool bound, bool viaDb, bool useSel, bool useWt, bool byLoc, const char* scriptedName)
{
  int n = (int)s.z.size();
  if (scriptedName) c.setSig(std::string("scripted:") + scriptedName);
  else
  c.setSig(fmt("hermite:dist=%s:ties=%d:test=%d:nb=%s:bound=%d:db=%d:sel=%d:wt=%d:byloc=%d", DISTN[s.dist], s.ties, s.hasTest,
               nbpoly <= 10 ? "3-10" : (nbpoly <= 30 ? "11-30" : "31-100"), bound, viaDb, useSel, useWt, byLoc));
  c.putn("n", n);
  c.putn("nbpoly", nbpoly);
  c.put("z(head)", jvec(s.z.getVector(), 12));

  std::unique_ptr<AnamHermite> anam(AnamHermite::create(nbpoly, bound));
  std::unique_ptr<Db> db;
  VectorDouble sel;
  VectorDouble zfit = s.z; // what the anamorphosis is fitted on
  if (viaDb)
  {
    db.reset(Db::create());
    db->addColumns(s.z, "z", ELoc::Z, 0);
    if (useSel)
    {
      sel.resize(n);
      for (int i = 0; i < n; i++) sel[i] = r.coin(0.7) ? 1. : 0.;
      int nact = 0;
      for (int i = 0; i < n; i++) if (sel[i] > 0 && !FFFF(s.z[i])) nact++;
      if (nact < 5) for (int i = 0; i < n; i++) sel[i] = 1.;
      db->addColumns(sel, "sel", ELoc::SEL, 0);
    }
    int err = byLoc ? anam->fitFromLocator(db.get()) : anam->fit(db.get(), "z");
    if (err != 0) { c.truth("hermite-fit", "C18:hermite:fit-failed:db", false, ""); return; }
  }
  else
  {
    VectorDouble wt;
    if (useWt)
    {
      wt.resize(n);
      for (int i = 0; i < n; i++) wt[i] = r.uni(0.2, 3.);
    }
    int err = anam->fitFromArray(s.z, wt);
    if (err != 0) { c.truth("hermite-fit", "C18:hermite:fit-failed:array", false, ""); return; }
  }
  std::vector<double> psi = anam->getPsiHns().getVector();
  double pymin = anam->getPymin(), pymax = anam->getPymax(), pzmin = anam->getPzmin(), pzmax = anam->getPzmax();
  double aymin = anam->getAymin(), aymax = anam->getAymax(), azmin = anam->getAzmin(), azmax = anam->getAzmax();
  c.put("bounds(ay,py,pz,az)", jvec(std::vector<double>{aymin, aymax, pymin, pymax, pzmin, pzmax, azmin, azmax}));
  bool bok = std::isfinite(pymin) && std::isfinite(pymax) && std::isfinite(pzmin) && std::isfinite(pzmax) &&
             !FFFF(pymin) && !FFFF(pymax) && !FFFF(pzmin) && !FFFF(pzmax);
  c.truth("hermite-bounds", "C18:hermite:practical-bounds-undefined", bok, fmt("py [%g,%g] pz [%g,%g]", pymin, pymax, pzmin, pzmax));
  if (!bok) return;
  if (!(pymin < pymax && pzmin <= pzmax)) { c.skip("hermite:degenerate-practical-interval"); return; } // nothing is claimed on a point
  std::string bk = bound ? "bounded" : "unbounded";

  // The claim is checked on the intersection of the practical and (when bounds are enforced) the absolute interval:
  // outside the absolute interval the bounded transform clips by design. (The library sometimes reports a practical
  // interval that is wider than the absolute one; that is mentioned in the report, not asserted.)
  double vymin = pymin, vymax = pymax, vzmin = pzmin, vzmax = pzmax;
  if (bound)
  {
    vymin = std::max(pymin, aymin); vymax = std::min(pymax, aymax);
    vzmin = std::max(pzmin, azmin); vzmax = std::min(pzmax, azmax);
  }
  if (!(vymin < vymax && vzmin < vzmax)) { c.skip("hermite:empty-validity-interval"); return; }
  // ---- forward transform = sum psi_n H_n(y) inside the practical interval ("Normal inversion": hermiteCondExpElement(y,0,psi))
  for (int k = 0; k < 12; k++)
  {
    double y = r.uni(vymin, vymax);
    LD val, der, mag;
    refPhi(psi, y, val, der, mag);
    double got = anam->transformToRawValue(y);
    double want = (double)val;
    if (bound) want = std::min(std::max(want, azmin), azmax);
    double tol = 64 * nbpoly * EPS * (double)mag + 1e-300;
    c.close("hermite-forward", "C18:hermite:forward-differs-from-expansion:" + bk, got, want, tol, fmt("y=%.17g nbpoly=%d", y, nbpoly));
  }

  bool nonmono = false;
  // ---- monotone where declared: the practical interval is the stretch around the median on which the transform is
  // non-decreasing on the library's own grid (y = 0 -/+ k*0.1, AnamHermite::_defineBounds)
  {
    std::vector<double> grid;
    double y = 0;
    std::vector<double> neg;
    for (int k = 0; k < 100; k++) { y -= 0.1; neg.push_back(y); }
    for (int k = (int)neg.size() - 1; k >= 0; k--) grid.push_back(neg[k]);
    grid.push_back(0.);
    y = 0;
    for (int k = 0; k < 100; k++) { y += 0.1; grid.push_back(y); }
    bool mono = true;
    std::string det;
    double prev = NAN;
    int nin = 0;
    for (double g : grid)
    {
      if (g < vymin || g > vymax) continue;
      double v = anam->transformToRawValue(g);
      if (c.verbose) fprintf(stderr, "grid y=%.17g Phi=%.17g\n", g, v);
      nin++;
      if (!std::isnan(prev) && v < prev) { mono = false; det = fmt("Phi(%.3f)=%.17g < previous %.17g", g, v, prev); }
      prev = v;
    }
    nonmono = !mono;
    if (nin >= 2) c.truth("hermite-monotone", K_NONMONO, mono, det + " (" + bk + ")");
    else c.skip("hermite-monotone:interval-too-short");
  }

  // ---- z -> y -> z
  double z1 = anam->transformToRawValue(-1), z2 = anam->transformToRawValue(1);
  double dzmax = std::fabs(z2 - z1) / 100000.; // AnamHermite::rawToTransformValue: "Calculate the precision on Z"
  double dymax = 1e-7;                         // same function: dymax = 0.0000001
  std::vector<double> ztest;
  for (int i = 0; i < n && (int)ztest.size() < 60; i++)
    if (!FFFF(s.z[i]) && r.coin(n <= 60 ? 1. : 60. / n)) ztest.push_back(s.z[i]);
  for (int k = 0; k < 25; k++) ztest.push_back(r.uni(vzmin, vzmax));
  if (bound)
    for (int k = 0; k < 10; k++) ztest.push_back(r.uni(azmin, azmax));
  VectorDouble zv(ztest.size());
  for (size_t i = 0; i < ztest.size(); i++) zv[i] = ztest[i];
  VectorDouble yv  = anam->rawToGaussianVector(zv);
  VectorDouble zb  = anam->gaussianToRawVector(yv);
  double zrange    = std::max(std::fabs(vzmax - vzmin), 1e-300);
  // when the reported interval is not monotone the inverse cannot be one: same root cause, same key
  double marg      = 1e-6 * zrange;
  for (size_t i = 0; i < ztest.size(); i++)
  {
    double z = ztest[i], y = yv[i], zz = zb[i];
    bool inPractical = z >= vzmin + marg && z <= vzmax - marg;
    bool inAbsolute  = bound && z >= azmin && z <= azmax;
    if (inPractical)
    {
      if (!(y >= vymin - 1e-6 && y <= vymax + 1e-6))
      {
        // the value lies on a stretch where the expansion is not monotone between grid nodes: outside the claim
        c.skip("hermite-z2y2z:gaussian-outside-practical-interval");
        continue;
      }
      LD val, der, mag;
      refPhi(psi, y, val, der, mag);
      double slope = std::fabs((double)der);
      double tol   = 4 * std::max(dzmax, slope * dymax) + 64 * nbpoly * EPS * (double)mag;
      c.close("hermite-z2y2z", nonmono ? std::string(K_NONMONO) : "C18:hermite:z2y2z:practical-interval:" + bk, zz, z, tol, fmt("z=%.17g y=%.17g slope=%g dzmax=%g", z, y, slope, dzmax));
    }
    else if (inAbsolute && !nonmono && (z < pzmin - marg || z > pzmax + marg))
    {
      // between the practical and the absolute bounds both directions are the same straight line
      double tol = 1e-9 * std::max(std::fabs(azmax - azmin), std::fabs(z));
      c.close("hermite-z2y2z-ext", "C18:hermite:z2y2z:linear-extension", zz, z, tol, fmt("z=%.17g y=%.17g", z, y));
    }
    else
      c.skip("hermite-z2y2z:outside-reported-interval");
  }

  // ---- y -> z -> y inside the practical interval. The inverse brackets the root by stepping away from y = 0
  // ("Look for a first interval in Y containing Z"): it returns the branch nearest to the median, so the identity is only
  // claimed when the (monotone) practical interval contains y = 0.
  for (int k = 0; k < 25; k++)
  {
    if (!(vymin <= 0 && vymax >= 0)) { c.skip("hermite-y2z2y:practical-interval-excludes-median"); break; }
    double y = r.uni(vymin + 0.05 * (vymax - vymin), vymax - 0.05 * (vymax - vymin));
    double slope = INFINITY;
    for (double dy : {-0.1, -0.03, 0., 0.03, 0.1})
    {
      LD val, der, mag;
      refPhi(psi, y + dy, val, der, mag);
      slope = std::min(slope, (double)der);
    }
    if (!(slope > 0)) { c.skip("hermite-y2z2y:flat-or-decreasing"); continue; }
    double toly = 4 * std::max(dymax, dzmax / slope);
    if (toly > 0.02) { c.skip("hermite-y2z2y:flat-or-decreasing"); continue; }
    double z  = anam->transformToRawValue(y);
    if (bound && (z <= azmin || z >= azmax)) { c.skip("hermite-y2z2y:clipped"); continue; }
    double yy = anam->rawToTransformValue(z);
    c.close("hermite-y2z2y", nonmono ? std::string(K_NONMONO) : "C18:hermite:y2z2y:practical-interval:" + bk, yy, y, toly, fmt("y=%.17g z=%.17g slope=%g", y, z, slope));
  }

  // ---- Db forms agree with the vector forms and round-trip
  if (viaDb)
  {
    int e1 = byLoc ? anam->rawToGaussianByLocator(db.get()) : anam->rawToGaussian(db.get(), "z");
    c.truth("hermite-db-run", "C18:hermite:db:rawToGaussian-failed", e1 == 0, "");
    if (e1 != 0) return;
    VectorDouble ycol = db->getColumn("Y.z", false);
    if ((int)ycol.size() != n) { c.truth("hermite-db-run", "C18:hermite:db:Y-column-missing", false, ""); return; }
    int e2 = byLoc ? anam->gaussianToRawByLocator(db.get()) : anam->gaussianToRaw(db.get(), "Y.z");
    c.truth("hermite-db-run", std::string("C18:hermite:db:gaussianToRaw-failed") + (byLoc ? ":ByLocator" : ""), e2 == 0, "");
    if (e2 != 0) return;
    VectorDouble zcol = db->getColumn("Z.Y.z", false);
    if ((int)zcol.size() != n)
    {
      c.truth("hermite-db-run", std::string("C18:hermite:db:Z-column-missing") + (byLoc ? ":ByLocator" : ""), false, "");
      return;
    }
    VectorDouble yref = anam->rawToGaussianVector(s.z);
    VectorDouble zref = anam->gaussianToRawVector(yref);
    int nchk = 0;
    for (int i = 0; i < n; i++)
    {
      if (useSel && sel[i] == 0) continue; // masked samples: no claim here (C05)
      if (FFFF(s.z[i]))
      {
        c.truth("hermite-db-test", "C18:hermite:db:TEST-not-preserved", FFFF(ycol[i]) && FFFF(zcol[i]), fmt("sample %d y=%g z=%g", i, ycol[i], zcol[i]));
        continue;
      }
      if (nchk++ > 80) continue;
      c.close("hermite-db-y", "C18:hermite:db:rawToGaussian-differs-from-vector-form", ycol[i], yref[i], 0., fmt("sample %d", i));
      c.close("hermite-db-z", std::string("C18:hermite:db:gaussianToRaw-differs-from-vector-form") + (byLoc ? ":ByLocator" : ""), zcol[i], zref[i], 0.,
              fmt("sample %d z=%.17g y=%.17g", i, s.z[i], ycol[i]));
    }
  }
}

// ------------------------------------------------------------------------------------------------
// family: empirical anamorphosis
// ------------------------------------------------------------------------------------------------
static void famEmpiricalBody(Rng& r, Ctx& c, int mode, const Sample& s, int ndisc, double sigma2e, const char* scriptedName);
static void famEmpirical(Rng& r, Ctx& c)
{
  int mode  = r.irange(0, 2); // 0 normal score, 1 gaussian dilution, 2 lognormal dilution
  int n     = std::min(drawN(r, c.thorough()), 600);
  Sample s  = genSample(r, n, mode == 2);
  int ndisc = r.irange(10, 200);
  double sigma2e = r.coin(0.5) ? TEST : -1;
  famEmpiricalBody(r, c, mode, s, ndisc, sigma2e, nullptr);
}
static void famEmpiricalBody(Rng& r, Ctx& c, int mode, const Sample& s, int ndisc, double sigma2e, const char* scriptedName)
{
  int n = (int)s.z.size();
  static const char* MN[] = {"normalscore", "gaussian-dilution", "lognormal-dilution"};
  if (scriptedName) c.setSig(std::string("scripted:") + scriptedName);
  else
  c.setSig(fmt("empirical:mode=%s:dist=%s:ties=%d:test=%d:sigma=%s", MN[mode], DISTN[s.dist], s.ties, s.hasTest, FFFF(sigma2e) ? "default" : "user"));
  c.putn("n", n);
  c.putn("ndisc", ndisc);
  // user-defined dilution variance: a fraction of the data variance
  if (!FFFF(sigma2e))
  {
    double m = 0, m2 = 0;
    int k = 0;
    for (int i = 0; i < n; i++) if (!FFFF(s.z[i])) { m += s.z[i]; m2 += s.z[i] * s.z[i]; k++; }
    m /= k; m2 = m2 / k - m * m;
    sigma2e = std::max(m2, 1e-12) * r.loguni(1e-3, 0.3);
  }
  AnamEmpirical anam(ndisc, sigma2e, mode != 0, mode != 2);
  int err = 0;
  try
  {
    err = anam.fitFromArray(s.z);
  }
  catch (const std::exception& e)
  {
    // fitFromArray documents a return code; an exception is a failure of the fit protocol
    bool nonpos = false;
    for (int i = 0; i < n; i++) if (!FFFF(s.z[i]) && s.z[i] <= 0) nonpos = true;
    c.check("empirical-fit", (mode == 1 && nonpos) ? std::string(K_NONPOS) : std::string("C18:empirical:fit-throws:") + MN[mode], false, 1, 0, std::string(e.what()).substr(0, 160));
    return;
  }
  if (err != 0)
  {
    // the lognormal dilution documents the rejection of negative data; anything else is a failure
    c.truth("empirical-fit", std::string("C18:empirical:fit-failed:") + MN[mode], mode == 2 && !s.positive, "");
    return;
  }
  const VectorDouble& Z = anam.getZDisc();
  const VectorDouble& Y = anam.getYDisc();
  int nd = (int)Z.size();
  c.putn("ndisc_final", nd);
  if (c.verbose)
    for (int i = 0; i < nd; i++) fprintf(stderr, "table %d Z=%.17g Y=%.17g\n", i, Z[i], Y[i]);
  if (nd < 2 || (int)Y.size() != nd) { c.skip("empirical:degenerate-discretisation"); return; }
  bool fin = true;
  for (int i = 0; i < nd; i++) fin &= std::isfinite(Z[i]) && std::isfinite(Y[i]);
  c.truth("empirical-table", std::string("C18:empirical:non-finite-discretisation:") + MN[mode], fin, "");
  if (!fin) return;
  bool tablesSorted = true;
  for (int i = 1; i < nd; i++) tablesSorted &= Z[i] >= Z[i - 1] && Y[i] >= Y[i - 1];
  bool knownTable = !tablesSorted && mode == 1;
  // z -> y -> z on segments where both tables increase strictly (elsewhere the piecewise-linear map is not injective and
  // the library clamps Y to [-10,10]: outside the claim)
  VectorDouble zt, yt;
  std::vector<int> seg;
  for (int k = 0; k < 60; k++)
  {
    int i = r.irange(0, nd - 2);
    if (!(Z[i + 1] > Z[i] && Y[i + 1] > Y[i]) || Y[i] <= -10 || Y[i + 1] >= 10) { c.skip("empirical:flat-or-clamped-segment"); continue; }
    double t = r.coin(0.15) ? 0. : r.uni(0.02, 0.98);
    zt.push_back(Z[i] + t * (Z[i + 1] - Z[i]));
    yt.push_back(Y[i] + t * (Y[i + 1] - Y[i]));
    seg.push_back(i);
  }
  if (zt.empty()) return;
  VectorDouble y1 = anam.rawToGaussianVector(zt);
  VectorDouble z1 = anam.gaussianToRawVector(y1);
  VectorDouble z2 = anam.gaussianToRawVector(yt);
  VectorDouble y2 = anam.rawToGaussianVector(z2);
  for (size_t k = 0; k < zt.size(); k++)
  {
    int i = seg[k];
    // a value exactly on a table node may be attributed to the neighbouring segment: use the local worst slope
    double sz = 0, sy = 0;
    for (int j = std::max(0, i - 1); j <= std::min(nd - 2, i + 1); j++)
    {
      if (Y[j + 1] > Y[j]) sz = std::max(sz, (Z[j + 1] - Z[j]) / (Y[j + 1] - Y[j]));
      if (Z[j + 1] > Z[j]) sy = std::max(sy, (Y[j + 1] - Y[j]) / (Z[j + 1] - Z[j]));
    }
    double zmag = std::max(std::fabs(Z[i]), std::fabs(Z[i + 1])), ymag = std::max(std::fabs(Y[i]), std::fabs(Y[i + 1]));
    double tolz = 256 * EPS * (zmag + ymag * sz) + 1e-300;
    double toly = 256 * EPS * (ymag + zmag * sy) + 1e-300;
    c.close("empirical-z2y2z", knownTable ? std::string(K_TABLE) : std::string("C18:empirical:z2y2z:") + MN[mode], z1[k], zt[k], tolz, fmt("z=%.17g y=%.17g segment %d", zt[k], y1[k], i));
    c.close("empirical-y2z2y", knownTable ? std::string(K_TABLE) : std::string("C18:empirical:y2z2y:") + MN[mode], y2[k], yt[k], toly, fmt("y=%.17g z=%.17g segment %d", yt[k], z2[k], i));
  }
  // monotone: the transform of increasing raw values is non-decreasing
  {
    VectorDouble zs(40);
    double lo = Z[0], hi = Z[nd - 1];
    for (int k = 0; k < 40; k++) zs[k] = lo + (hi - lo) * k / 39.;
    VectorDouble ys = anam.rawToGaussianVector(zs);
    bool mono = true;
    for (int k = 1; k < 40; k++) mono &= ys[k] >= ys[k - 1] - 8 * EPS * std::max(1., std::fabs(ys[k])); // interpolation round-off on plateaus
    if (tablesSorted) c.truth("empirical-monotone", std::string("C18:empirical:not-monotone:") + MN[mode], mono, "");
    c.truth("empirical-table-sorted", mode == 1 ? std::string(K_TABLE) : std::string("C18:empirical:tables-not-sorted:") + MN[mode], tablesSorted, "");
  }
}

// ------------------------------------------------------------------------------------------------
// family: Hermite polynomials
// ------------------------------------------------------------------------------------------------
static void famHpoly(Rng& r, Ctx& c)
{
  int nb   = r.coin(0.4) ? r.irange(3, 20) : r.irange(3, 101);
  double rr = r.coin(0.6) ? 1. : r.uni(0.3, 0.99);
  c.setSig(fmt("hpoly:nb=%d:r=%s", nb, rr == 1. ? "1" : "<1"));
  c.putn("nbpoly", nb);
  c.putn("r", rr);
  int N        = nb + 2; // exact for degree <= 2N-1 >= 2(nb-1)
  const GH& gh = gaussHermite(N);
  Mat G(nb, nb);
  double maxabs = 0;
  for (int i = 0; i < N; i++)
  {
    VectorDouble h = hermitePolynomials((double)gh.x[i], rr, nb);
    // the node is rounded to double for the library: evaluate the reference weight at the same abscissa (no loss:
    // the quadrature identity is a polynomial identity in the nodes up to O(eps) perturbations of a smooth integrand)
    for (int a = 0; a < nb; a++)
      for (int b = 0; b <= a; b++) G(a, b) += gh.w[i] * (LD)h[a] * (LD)h[b];
    for (int a = 0; a < nb; a++) maxabs = std::max(maxabs, std::fabs(h[a]));
  }
  double worst = 0;
  int wa = 0, wb = 0;
  for (int a = 0; a < nb; a++)
    for (int b = 0; b <= a; b++)
    {
      LD want = (a == b) ? std::pow((LD)rr, 2 * a) : 0;
      double e = std::fabs((double)(G(a, b) - want)) / std::pow(rr, a + b);
      if (e > worst || std::isnan(e)) { worst = std::isnan(e) ? INFINITY : e; wa = a; wb = b; }
    }
  // every term w_i H_a H_b is bounded by 1 (Christoffel); the recurrence of order nb in double carries ~ nb*eps relative error,
  // amplified by the node rounding eps*|x|*|H'| ~ eps*sqrt(nb)*2*sqrt(nb): tolerance N * nb^2 * eps * c
  double tol = 64. * N * nb * nb * EPS;
  c.check("hpoly-orthonormal", "C18:hermite-poly:not-orthonormal", worst <= tol, worst, tol,
          fmt("nb=%d r=%g worst at (%d,%d): %.6g", nb, rr, wa, wb, (double)G(wa, wb)));
  // hermiteCondExpElement(y, 0, psi) = sum psi_n H_n(y)
  std::vector<double> psi(nb);
  for (int k = 0; k < nb; k++) psi[k] = r.normal() / (1 + k);
  VectorDouble psiv(nb);
  for (int k = 0; k < nb; k++) psiv[k] = psi[k];
  for (int t = 0; t < 6; t++)
  {
    double y = r.uni(-4, 4);
    LD val, der, mag;
    refPhi(psi, y, val, der, mag);
    double got = hermiteCondExpElement(y, 0., psiv);
    c.close("hpoly-expansion", "C18:hermite-poly:condexp-at-zero-std-differs-from-expansion", got, (double)val, 64 * nb * EPS * (double)mag, fmt("y=%g nb=%d", y, nb));
  }
}

// ------------------------------------------------------------------------------------------------
// family: PCA / MAF
// ------------------------------------------------------------------------------------------------
static void famPca(Rng& r, Ctx& c, bool maf)
{
  int nvar   = r.irange(2, 6);
  int n      = r.irange(std::max(20, 4 * nvar), c.thorough() ? 500 : 250);
  bool colin = r.coin(0.35);
  bool het   = r.coin(0.4);
  bool sel   = r.coin(0.4);
  int ndim   = maf ? r.irange(1, 3) : 2;
  defineDefaultSpace(ESpaceType::RN, ndim);
  c.setSig(fmt("%s:nvar=%d:collinear=%d:hetero=%d:sel=%d:ndim=%d", maf ? "maf" : "pca", nvar, colin, het, sel, ndim));
  c.putn("n", n);
  // data = latent factors mixed; near-collinearity: one variable = combination of others + small noise
  std::vector<VectorDouble> x(ndim, VectorDouble(n)), z(nvar, VectorDouble(n));
  for (int i = 0; i < n; i++)
    for (int d = 0; d < ndim; d++) x[d][i] = r.uni(0, 100);
  Mat A(nvar, nvar);
  for (auto& v : A.a) v = r.uni(-1, 1);
  std::vector<double> off(nvar), sc(nvar);
  for (int v = 0; v < nvar; v++) { off[v] = r.pick(std::vector<double>{0., 10., -1000.}); sc[v] = r.pick(std::vector<double>{1., 1., 100., 0.01}); }
  double ceps = r.loguni(1e-5, 1e-2);
  for (int i = 0; i < n; i++)
  {
    std::vector<double> f(nvar);
    for (int k = 0; k < nvar; k++) f[k] = r.normal() + (maf ? std::sin(x[0][i] / (5. + 7 * k)) * 1.5 : 0.);
    for (int v = 0; v < nvar; v++)
    {
      double s = 0;
      for (int k = 0; k < nvar; k++) s += (double)A(v, k) * f[k];
      z[v][i] = s;
    }
    if (colin) z[nvar - 1][i] = 0.6 * z[0][i] - 0.8 * z[1 % nvar][i] + ceps * r.normal();
    for (int v = 0; v < nvar; v++) z[v][i] = off[v] + sc[v] * z[v][i];
  }
  std::vector<VectorDouble> z0 = z;
  if (het)
    for (int i = 0; i < n; i++)
      if (r.coin(0.1)) z[r.irange(0, nvar - 1)][i] = TEST;
  VectorDouble selv(n, 1.);
  if (sel)
    for (int i = 0; i < n; i++) selv[i] = r.coin(0.75) ? 1. : 0.;
  std::unique_ptr<Db> db(Db::create());
  for (int d = 0; d < ndim; d++) db->addColumns(x[d], "x" + std::to_string(d + 1), ELoc::X, d);
  for (int v = 0; v < nvar; v++) db->addColumns(z[v], "v" + std::to_string(v + 1), ELoc::Z, v);
  if (sel) db->addColumns(selv, "sel", ELoc::SEL, 0);
  // active isotopic samples (Db::isActive && Db::isIsotopic, as PCA documents by construction)
  std::vector<int> act;
  for (int i = 0; i < n; i++)
  {
    bool ok = selv[i] > 0;
    for (int v = 0; v < nvar; v++) ok &= !FFFF(z[v][i]);
    if (ok) act.push_back(i);
  }
  int m = (int)act.size();
  if (m < 3 * nvar + 5) throw SkipCase{"too-few-active-samples"};
  // reference covariance (N-1) and its conditioning
  std::vector<LD> mean(nvar, 0);
  for (int v = 0; v < nvar; v++) { for (int i : act) mean[v] += z[v][i]; mean[v] /= m; }
  Mat C(nvar, nvar);
  for (int a = 0; a < nvar; a++)
    for (int b = 0; b < nvar; b++)
    {
      LD s = 0;
      for (int i : act) s += (z[a][i] - mean[a]) * (z[b][i] - mean[b]);
      C(a, b) = s / (m - 1);
    }
  // conditioning of the correlation-scaled problem is what the eigen-solver sees in relative terms: use cov directly
  auto ev     = ref::eigsym(C);
  double kappa = (double)(ev[nvar - 1] / ev[0]);
  c.putn("kappa", kappa);
  if (!(ev[0] > 0) || kappa > 1e12) { c.skip("pca:ill-conditioned"); return; }

  PCA pca;
  // One case in three: the PCA object has already been fitted on ANOTHER data set with the same number of variables
  // (larger values, other correlations). The property speaks of "every fitted transform": a second fit of the same object
  // must not remember the first one. Drawn from a stream of its own so that the other draws of the case are unchanged.
  if (c.icase % 3 == 1)
  {
    Rng r2(c.seed, "C18prefit", (uint64_t)c.icase);
    int n0 = 40 + 5 * nvar;
    std::unique_ptr<Db> db0(Db::create());
    for (int d = 0; d < ndim; d++)
    {
      VectorDouble xx(n0);
      for (auto& v : xx) v = r2.uni(0, 100);
      db0->addColumns(xx, "x" + std::to_string(d + 1), ELoc::X, d);
    }
    VectorDouble common(n0);
    for (auto& v : common) v = r2.normal();
    for (int v = 0; v < nvar; v++)
    {
      VectorDouble zz(n0);
      double sv = sc[v] * r2.uni(20., 60.);
      for (int i = 0; i < n0; i++) zz[i] = off[v] + sv * (0.8 * common[i] + 0.6 * r2.normal());
      db0->addColumns(zz, "v" + std::to_string(v + 1), ELoc::Z, v);
    }
    int e0 = maf ? pca.maf_compute_interval(db0.get(), 5., 40.) : pca.pca_compute(db0.get());
    (void)e0;
    c.probe(maf ? "maf-refit" : "pca-refit");
  }
  double hmin = 0, hmax = 0;
  int err;
  std::vector<std::pair<int, int>> pairs;
  if (!maf)
    err = pca.pca_compute(db.get());
  else
  {
    hmin = r.uni(2, 10);
    hmax = hmin + r.uni(5, 15);
    // keep the pair set unambiguous: no distance within 1e-9 of the bounds
    bool tie = false;
    for (int a = 0; a < m && !tie; a++)
      for (int b = 0; b < a; b++)
      {
        double d2 = 0;
        for (int d = 0; d < ndim; d++) d2 += (x[d][act[a]] - x[d][act[b]]) * (x[d][act[a]] - x[d][act[b]]);
        double d1 = std::sqrt(d2);
        if (std::fabs(d1 - hmin) < 1e-9 || std::fabs(d1 - hmax) < 1e-9) { tie = true; break; }
        if (d1 >= hmin && d1 <= hmax) pairs.push_back({act[a], act[b]});
      }
    if (tie) throw SkipCase{"maf:distance-on-interval-bound"};
    if ((int)pairs.size() < 5 * nvar) throw SkipCase{"maf:too-few-pairs"};
    err = pca.maf_compute_interval(db.get(), hmin, hmax);
  }
  std::string fam = maf ? "maf" : "pca";
  c.truth(fam + "-compute", "C18:" + fam + ":compute-failed", err == 0, "");
  if (err != 0) return;

  // ---- Z2F and F2Z are mutually inverse matrices
  {
    const MatrixSquareGeneral& M1 = pca.getZ2Fs();
    const MatrixSquareGeneral& M2 = pca.getF2Zs();
    Mat a(nvar, nvar), b(nvar, nvar);
    for (int i = 0; i < nvar; i++)
      for (int j = 0; j < nvar; j++) { a(i, j) = M1.getValue(i, j); b(i, j) = M2.getValue(i, j); }
    Mat p = ref::mul(a, b);
    double worst = 0;
    for (int i = 0; i < nvar; i++)
      for (int j = 0; j < nvar; j++) worst = std::max(worst, std::fabs((double)(p(i, j) - (i == j ? 1 : 0))));
    // |Z2F| ~ 1/sqrt(lmin), |F2Z| ~ sqrt(lmax): product carries eps * sqrt(kappa) (MAF inverts Z2F numerically: eps * kappa)
    double tol = 1e3 * EPS * nvar * (maf ? kappa : std::sqrt(kappa));
    c.check(fam + "-matrices", "C18:" + fam + ":Z2F-times-F2Z-not-identity", worst <= tol, worst, tol, fmt("nvar=%d kappa=%g", nvar, kappa));
  }

  // ---- factors
  int ncol0 = db->getColumnNumber();
  int e1    = pca.dbZ2F(db.get());
  c.truth(fam + "-run", "C18:" + fam + ":dbZ2F-failed", e1 == 0, "");
  if (e1 != 0) return;
  if (db->getColumnNumber() != ncol0 + nvar || db->getLocNumber(ELoc::Z) != nvar)
  {
    c.truth(fam + "-run", "C18:" + fam + ":dbZ2F-columns", false, fmt("columns %d -> %d", ncol0, db->getColumnNumber()));
    return;
  }
  std::vector<VectorDouble> F(nvar);
  for (int v = 0; v < nvar; v++) F[v] = db->getColumnByLocator(ELoc::Z, v, false);
  // centred, unit variance, uncorrelated (N-1 normalisation: PCA::pca_compute calls _covariance0(..., flag_nm1 = true))
  {
    std::vector<LD> fm(nvar, 0);
    bool fin = true;
    for (int v = 0; v < nvar; v++) { for (int i : act) { fm[v] += F[v][i]; fin &= std::isfinite(F[v][i]) && !FFFF(F[v][i]); } fm[v] /= m; }
    c.truth(fam + "-factors-defined", "C18:" + fam + ":factor-undefined-on-active-isotopic-sample", fin, "");
    if (!fin) return;
    double worstM = 0, worstC = 0;
    int wa = 0, wb = 0;
    for (int a = 0; a < nvar; a++)
    {
      worstM = std::max(worstM, std::fabs((double)fm[a]));
      for (int b = 0; b <= a; b++)
      {
        LD s = 0;
        for (int i : act) s += (F[a][i] - fm[a]) * (F[b][i] - fm[b]);
        s /= (m - 1);
        double e = std::fabs((double)(s - (a == b ? 1 : 0)));
        if (e > worstC) { worstC = e; wa = a; wb = b; }
      }
    }
    // the library accumulates sums of squares in double (variance by E[z^2]-m^2 is NOT used for c0: centred data), error
    // ~ eps * kappa on the smallest eigen-direction; offsets of 1e3 with unit spread cost another 1e3^2 in the mean
    double offs = 0;
    for (int v = 0; v < nvar; v++) offs = std::max(offs, std::fabs((double)mean[v]) / std::sqrt((double)C(v, v)));
    double tolC = 1e3 * EPS * kappa * nvar * (1 + offs);
    double tolM = 1e3 * EPS * std::sqrt(kappa) * nvar * (1 + offs);
    c.check(fam + "-factor-cov", "C18:" + fam + ":factor-covariance-not-identity", worstC <= tolC, worstC, tolC,
            fmt("cov(F%d,F%d) off by %.3g, kappa=%g", wa + 1, wb + 1, worstC, kappa));
    c.check(fam + "-factor-mean", "C18:" + fam + ":factor-mean-not-zero", worstM <= tolM, worstM, tolM, fmt("kappa=%g", kappa));
    if (maf)
    {
      // lagged variogram matrix of the factors over the same pair set is diagonal
      Mat Gm(nvar, nvar);
      for (auto& pr : pairs)
        for (int a = 0; a < nvar; a++)
          for (int b = 0; b <= a; b++)
            Gm(a, b) += (LD)(F[a][pr.first] - F[a][pr.second]) * (F[b][pr.first] - F[b][pr.second]) / 2;
      double worst = 0;
      for (int a = 0; a < nvar; a++)
        for (int b = 0; b < a; b++) worst = std::max(worst, std::fabs((double)(Gm(a, b) / (LD)pairs.size())));
      c.check("maf-lagged", "C18:maf:lagged-variogram-of-factors-not-diagonal", worst <= tolC, worst, tolC,
              fmt("%zu pairs, kappa=%g", pairs.size(), kappa));
    }
  }
  // undefined / masked samples must not receive factors
  {
    bool ok = true;
    std::string det;
    for (int i = 0; i < n && ok; i++)
    {
      bool isact = std::find(act.begin(), act.end(), i) != act.end();
      if (isact) continue;
      for (int v = 0; v < nvar; v++)
        if (!FFFF(F[v][i])) { ok = false; det = fmt("sample %d factor %d = %g", i, v + 1, F[v][i]); }
    }
    c.truth(fam + "-factors-test", "C18:" + fam + ":factor-defined-on-masked-or-heterotopic-sample", ok, det);
  }
  // ---- back transform
  int e2 = pca.dbF2Z(db.get());
  c.truth(fam + "-run", "C18:" + fam + ":dbF2Z-failed", e2 == 0, "");
  if (e2 != 0) return;
  double worst = 0;
  std::string det;
  for (int v = 0; v < nvar; v++)
  {
    VectorDouble back = db->getColumnByLocator(ELoc::Z, v, false);
    double spread     = std::sqrt((double)C(v, v));
    for (int i : act)
    {
      double e = std::fabs(back[i] - z[v][i]) / (spread + std::fabs(z[v][i]) * 1e-3);
      if (!(e <= worst)) { worst = std::isnan(e) ? INFINITY : e; det = fmt("var %d sample %d: %.17g vs %.17g", v + 1, i, back[i], z[v][i]); }
    }
  }
  double offs = 0;
  for (int v = 0; v < nvar; v++) offs = std::max(offs, std::fabs((double)mean[v]) / std::sqrt((double)C(v, v)));
  double tol = 1e3 * EPS * (maf ? kappa : std::sqrt(kappa)) * nvar * (1 + offs);
  c.check(fam + "-z2f2z", "C18:" + fam + ":dbF2Z-of-dbZ2F-not-identity", worst <= tol, worst, tol, det);
}

// ------------------------------------------------------------------------------------------------
// family: normal score
// ------------------------------------------------------------------------------------------------
static void famNscore(Rng& r, Ctx& c)
{
  int n     = drawN(r, c.thorough());
  Sample s  = genSample(r, n);
  bool useW = r.coin(0.3);
  c.setSig(fmt("nscore:dist=%s:ties=%d:test=%d:wt=%d", DISTN[s.dist], s.ties, s.hasTest, useW));
  c.putn("n", n);
  VectorDouble wt;
  if (useW)
  {
    wt.resize(n);
    for (int i = 0; i < n; i++) wt[i] = r.coin(0.1) ? 0. : r.uni(0.2, 3.);
  }
  VectorDouble sc = VH::normalScore(s.z, wt);
  c.truth("nscore-size", "C18:normalscore:wrong-size", (int)sc.size() == n, "");
  if ((int)sc.size() != n) return;
  // TEST preserved, defined elsewhere
  bool okT = true;
  for (int i = 0; i < n; i++) okT &= (FFFF(s.z[i]) == FFFF(sc[i]));
  c.truth("nscore-test", "C18:normalscore:TEST-pattern-changed", okT, "");
  // rank preserving: z_i < z_j  =>  score_i < score_j (<= when weights may be zero)
  std::vector<int> idx;
  for (int i = 0; i < n; i++) if (!FFFF(s.z[i])) idx.push_back(i);
  std::stable_sort(idx.begin(), idx.end(), [&](int a, int b) { return s.z[a] < s.z[b]; });
  bool okR = true;
  std::string det;
  for (size_t k = 1; k < idx.size(); k++)
  {
    int a = idx[k - 1], b = idx[k];
    if (s.z[a] < s.z[b])
    {
      bool good = useW ? sc[a] <= sc[b] : sc[a] < sc[b];
      if (!good) { okR = false; det = fmt("z[%d]=%g < z[%d]=%g but scores %g, %g", a, s.z[a], b, s.z[b], sc[a], sc[b]); }
    }
  }
  c.truth("nscore-rank", "C18:normalscore:not-rank-preserving", okR, det);
  // quantiles. VectorHelper.cpp: "wtotal *= (1. + nechtot) / nechtot; ... law_invcdf_gaussian(wpartial / wtotal)" with the
  // samples visited in stable ascending order: p_k = (cumulated weight) / (W (n+1)/n), i.e. k/(n+1) for unit weights.
  // (no header/markdown documents the plotting position: this is the convention of the code itself.)
  {
    int m = (int)idx.size();
    LD W  = 0;
    for (int i : idx) W += useW ? wt[i] : 1.;
    W *= (1. + m) / m;
    LD part = 0;
    int nchk = 0;
    for (int k = 0; k < m; k++)
    {
      int i = idx[k];
      part += useW ? wt[i] : 1.;
      if (m > 80 && !(k < 5 || k >= m - 5 || r.coin(70. / m))) continue;
      if (nchk++ > 90) break;
      LD p     = part / W;
      double q = (double)refInvCdf(p);
      if (p <= 0) q = -10.; // law_invcdf_gaussian: "if (value <= 0.) return (-10.)" (leading zero weights)
      if (p >= 1) q = 10.;
      // law_invcdf_gaussian: Abramowitz-Stegun 26.2.17 cdf (|error| < 7.5e-8) inverted by bisection to 1e-7
      double tol = 2e-7 + 2e-7 / refPdf(q);
      c.close("nscore-quantile", "C18:normalscore:plotting-position-k/(n+1)", sc[i], q, tol, fmt("rank %d of %d p=%.12g", k + 1, m, (double)p));
    }
  }
}

// ------------------------------------------------------------------------------------------------
// family: rotation
// ------------------------------------------------------------------------------------------------
static void famRotation(Rng& r, Ctx& c)
{
  int ndim = r.coin(0.5) ? 2 : 3;
  int how  = r.irange(0, 1); // 0 angles, 1 matrix
  c.setSig(fmt("rotation:ndim=%d:from=%s", ndim, how == 0 ? "angles" : "matrix"));
  Rotation rot(ndim);
  VectorDouble ang(ndim, 0.);
  for (int d = 0; d < (ndim == 2 ? 1 : 3); d++) ang[d] = r.coin(0.15) ? (double)r.irange(-4, 4) * 90. : r.uni(-720, 720);
  int err = rot.setAngles(ang);
  c.put("angles", jvec(ang.getVector()));
  if (how == 1)
  {
    // feed the matrix back through setMatrixDirect
    MatrixSquareGeneral M = rot.getMatrixDirect();
    Rotation rot2(ndim);
    err = rot2.setMatrixDirect(M);
    c.truth("rotation-set", "C18:rotation:setMatrixDirect-rejects-own-matrix", err == 0, "");
    if (err != 0) return;
    rot = rot2;
  }
  // direct and inverse matrices: orthonormal, mutually transposed
  double worst = 0;
  for (int i = 0; i < ndim; i++)
    for (int j = 0; j < ndim; j++)
    {
      LD s = 0;
      for (int k = 0; k < ndim; k++) s += (LD)rot.getMatrixDirect(i, k) * rot.getMatrixInverse(k, j);
      worst = std::max(worst, std::fabs((double)(s - (i == j ? 1 : 0))));
      worst = std::max(worst, std::fabs(rot.getMatrixDirect(i, j) - rot.getMatrixInverse(j, i)));
    }
  c.check("rotation-matrices", fmt("C18:rotation:direct-inverse-not-orthonormal:ndim=%d", ndim), worst <= 16 * EPS, worst, 16 * EPS, "");
  for (int t = 0; t < 10; t++)
  {
    VectorDouble v(ndim), w(ndim), b(ndim);
    double mag = r.pick(std::vector<double>{1., 1e3, 1e-3, 1e6});
    for (int d = 0; d < ndim; d++) v[d] = r.uni(-1, 1) * mag;
    rot.rotateDirect(v, w);
    rot.rotateInverse(w, b);
    double e = 0, nv = 0, nw = 0;
    for (int d = 0; d < ndim; d++) { e = std::max(e, std::fabs(b[d] - v[d])); nv += v[d] * v[d]; nw += w[d] * w[d]; }
    nv = std::sqrt(nv); nw = std::sqrt(nw);
    c.check("rotation-roundtrip", fmt("C18:rotation:inverse-of-direct-not-identity:ndim=%d", ndim), e <= 32 * EPS * nv, e, 32 * EPS * nv, "");
    c.check("rotation-isometry", fmt("C18:rotation:norm-not-preserved:ndim=%d", ndim), std::fabs(nw - nv) <= 32 * EPS * nv, std::fabs(nw - nv), 32 * EPS * nv, "");
    rot.rotateInverse(v, w);
    rot.rotateDirect(w, b);
    e = 0;
    for (int d = 0; d < ndim; d++) e = std::max(e, std::fabs(b[d] - v[d]));
    c.check("rotation-roundtrip", fmt("C18:rotation:direct-of-inverse-not-identity:ndim=%d", ndim), e <= 32 * EPS * nv, e, 32 * EPS * nv, "");
  }
}

// ------------------------------------------------------------------------------------------------
// Scripted scenarios (case indices 0..NSCRIPT-1 of every run, independent of VERIF_SEED): one fixed data set per open
// finding, checked by the same code as the random cases, so that every open key is reached in every run.
// ------------------------------------------------------------------------------------------------
static const int NSCRIPT = 3;
static bool reportsNonMonotoneInterval(const VectorDouble& z, int nb)
{
  std::unique_ptr<AnamHermite> a(AnamHermite::create(nb, true));
  if (a->fitFromArray(z) != 0) return false;
  double lo = std::max(a->getPymin(), a->getAymin()), hi = std::min(a->getPymax(), a->getAymax());
  double y = 0, prev = NAN;
  for (int k = 0; k < 100; k++) y -= 0.1;
  for (int k = 0; k <= 200; k++)
  {
    if (y >= lo && y <= hi)
    {
      double v = a->transformToRawValue(y);
      if (!std::isnan(prev) && v < prev) return true;
      prev = v;
    }
    y += 0.1;
  }
  return false;
}
static void scripted(int idx, Ctx& c)
{
  Rng rs(20261002ULL, "C18-scripted", (uint64_t)idx);
  if (idx == 0)
  {
    // uniform samples, 6 polynomials: the expansion overshoots the data maximum at a grid node and decreases afterwards;
    // the first such sample of a fixed stream is used (if none shows the defect any more, the last one is checked anyway)
    Sample s;
    for (int k = 0; k < 400; k++)
    {
      Rng rk(20261002ULL, "C18-scripted-uniform", (uint64_t)k);
      s = Sample();
      s.dist = D_UNIF;
      s.z.resize(200);
      for (int i = 0; i < 200; i++) s.z[i] = rk.uni(0.5, 4.);
      s.ndef = 200; s.positive = true;
      if (reportsNonMonotoneInterval(s.z, 6)) { c.putn("stream-index", k); break; }
    }
    famHermiteBody(rs, c, s, 6, true, false, false, false, false, "hermite-practical-interval-not-monotone");
    return;
  }
  Sample s;
  s.dist = D_BIMODAL;
  if (idx == 1)
  {
    s.z.resize(100);
    for (int i = 0; i < 100; i++) s.z[i] = (i < 40) ? -2 - 0.01 * i : 3 + 0.02 * i;
    s.ndef = 100;
    famEmpiricalBody(rs, c, 1, s, 30, TEST, "empirical-gaussian-dilution-table");
    return;
  }
  s.z.resize(20);
  for (int i = 0; i < 20; i++) s.z[i] = -100 + i;
  s.ndef = 20;
  famEmpiricalBody(rs, c, 1, s, 30, TEST, "empirical-gaussian-dilution-no-positive-datum");
}

// ------------------------------------------------------------------------------------------------
static void run_case(Rng& r, Ctx& c)
{
  defineDefaultSpace(ESpaceType::RN, 2);
  if (c.icase < NSCRIPT) { scripted((int)c.icase, c); return; }
  double p = r.u01();
  if (p < 0.30) famHermite(r, c);
  else if (p < 0.45) famEmpirical(r, c);
  else if (p < 0.55) famHpoly(r, c);
  else if (p < 0.70) famPca(r, c, false);
  else if (p < 0.80) famPca(r, c, true);
  else if (p < 0.90) famNscore(r, c);
  else famRotation(r, c);
}

int main(int argc, char** argv) { return run_main(argc, argv, "C18", run_case); }
