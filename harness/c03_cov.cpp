// C03 - every offered covariance model is a valid (positive-definite) model, with the published closed forms and the
// range measured along the rotated anisotropy axes.
//
// Case i  ->  pair (structure s, ndim d) = i mod 93 (ALL 31 ECov structures x d in {1,2,3}: complete table),
//             draw index j = i div 93 selects the parameter class (low, mid, high, exactly 0, exactly getParMax());
//             everything else comes from the case PRNG.
//  * sphere-only structures (Geometric, Poisson, LinearSph, Markov): only checked for being NOT in-domain on R^n;
//  * in-domain pairs (CovFactory::getCovList(ctxt) contains the name AND CovAniso::isConsistent()): main sweep;
//  * the other pairs: second sweep through the public factories: the library must refuse, or what it hands back must
//    pass the same checks (keys C03:gate:<S>:ndim=<d>).
// References: harness/common/ref_cov.hpp (closed forms, rotations), ref_linalg.hpp (Jacobi eigenvalues, Cholesky).
//
// Oracles (name -> key):
//   gate-sphere                     C03:gate:<S>:ndim=<d>          sphere-only structure is not in-domain on R^n
//   accept                          C03:accept:<S>:ndim=<d>        in-domain + admissible parameters => constructible
//   shape, finite                   C03:matrix-shape:<S>, C03:finite:<S>:ndim=<d>[:param-class=<c>]
//   sym-rect, sym-vs-rect, even     C03:symmetry:<S>               evalCovMatrix symmetric, == evalCovMatrixSymmetric, C(h)=C(-h)
//   eval0, model-eval, cova-eval, rect-cross, block, unitary   C03:pointwise:<S>   all entry points agree with each other
//   bound                           C03:bound:<S>:ndim=<d>[:param-class]   |C_ab(h)| <= sqrt(C_aa(0) C_bb(0))
//   vario-mode, vario-eval          C03:vario-mode:<S>             asVario == C(0) - C(h)
//   pd                              C03:pd:<S>:ndim=<d>[:param-class=<c>]  smallest eigenvalue >= -1e3 N eps lambda_max
//   cpd, cpd-vario                  C03:cpd:<S>:ndim=<d>[...]      P^T K P and P^T(-gamma)P >= 0 on increments of order getMinOrder()
//   closed-form, closed-form-axis, closed-form-incr   C03:closed-form:<S>[:param-class=<c>]
//   range-echo, range-axis, support-out, support-in   C03:range-echo|range-axis|support:<S>[:param-class=<c>]
//   (range-related oracles on the CovAniso::create* routes, parametrised structures: C03:factory-range:<factory>)
//   sum-*                           C03:pd-sum|cpd-sum|finite:sum|bound:sum|closed-form:sum   a sum fails although no component alone does
//   everything in the out-of-domain sweep: C03:gate:<S>:ndim=<d>
#include "common/vh.hpp"
#include "common/ref_linalg.hpp"
#include "common/ref_cov.hpp"

#include "Enum/ECov.hpp"
#include "Enum/ECalcMember.hpp"
#include "Enum/ELoadBy.hpp"
#include "Enum/ESpaceType.hpp"
#include "Covariances/CovFactory.hpp"
#include "Covariances/CovAniso.hpp"
#include "Covariances/ACovFunc.hpp"
#include "Basic/AException.hpp"
#include "Covariances/CovContext.hpp"
#include "Covariances/CovCalcMode.hpp"
#include "Model/Model.hpp"
#include "Db/Db.hpp"
#include "Space/ASpaceObject.hpp"
#include "Space/SpacePoint.hpp"
#include "Space/SpaceRN.hpp"
#include "Matrix/MatrixSquareSymmetric.hpp"
#include "Matrix/MatrixRectangular.hpp"
#include <memory>
#include <set>

using namespace vh;
using ref::LD;
using ref::Mat;

static const double EPS = 2.220446049250313e-16;

// Switches to steer the generator away from an input class that is known to fail (GUIDE rule 2). Default: off.
static const bool AVOID_PARAM_ENDS = false; // never draw the exact ends 0 / getParMax() of the third parameter

// -------------------------------------------------------------------------------------------------------------------
// Gate: what the library itself declares for (structure, ndim)
// -------------------------------------------------------------------------------------------------------------------
struct Gate
{
  bool built = false, consistent = false, offered = false;
  std::string name, refusal;
  int minOrder = -1, hasRange = 1, maxNDim = 0;
  bool hasParam = false;
  double parMax = 0;
  bool inDomain() const { return built && consistent && offered; }
};

static Gate gateOf(const ECov& t, int ndim, int nvar)
{
  Gate g;
  CovContext ctxt(nvar, ndim);
  VectorString lst = CovFactory::getCovList(ctxt);
  // what the basic structure declares (CovFactory::createCovFunc is what getCovList itself uses)
  std::unique_ptr<ACovFunc> f(CovFactory::createCovFunc(t, ctxt));
  if (!f) return g;
  g.name     = f->getCovName();
  g.maxNDim  = (int)f->getMaxNDim();
  g.minOrder = f->getMinOrder();
  g.hasRange = f->hasRange();
  g.hasParam = f->hasParam();
  g.parMax   = f->getParMax();
  for (const auto& s : lst)
    if (s == g.name) g.offered = true;
  if (refcov::sphereOnly(std::string(t.getKey())) && ndim >= 3)
  {
    // Building a CovAniso of the Markov structure in 3-D runs a 512^3 FFT (ACovFunc::computeCorrec): minutes and GBs.
    // For the sphere-only structures in 3-D the gate predicate of CovAniso::isConsistent (space type and dimension)
    // is therefore evaluated on the ACovFunc itself, which is what CovAniso::isConsistent reads.
    g.built      = true;
    g.consistent = f->getCompatibleSpaceR() && (f->getMaxNDim() <= 0 || (int)f->getMaxNDim() >= ndim);
    return g;
  }
  try
  {
    // the CovAniso constructors document: throw "Cannot create such covariance function in that context"
    CovAniso c(t, ctxt);
    g.built      = true;
    g.consistent = c.ASpaceObject::isConsistent();
  }
  catch (const AException& e)
  {
    g.refusal = e.what();
  }
  return g;
}

// -------------------------------------------------------------------------------------------------------------------
// Model specification (kept on the harness side so that the reference never reads parameters back from the library)
// -------------------------------------------------------------------------------------------------------------------
struct Comp
{
  ECov type = ECov::NUGGET;
  std::string key;
  Gate g;
  std::string pclass; // "", low, mid, high, zero, max
  double param = 1.;
  std::vector<double> ranges, angles; // angles empty = no rotation requested
  std::vector<double> sill;           // nvar*nvar, symmetric PSD
  double scadef = 1.;                 // read from the library (documented factor range = scadef * scale)
  // Violation keys: one per structure and kind of failure; a suffix only where a structure has a sub-domain with a
  // root cause of its own (so that a different defect of the same structure does not hide under an open finding).
  std::string keyFor(const std::string& kind, int ndim, bool splineThreshold = false) const
  {
    if (pclass == "zero") return "C03:param-zero:" + key; // the admitted end 0 of the third parameter
    if (key == "PENTA" && kind == "support") return "C03:pd:PENTA"; // same root cause as the PD failure
    if (key == "PENTA" && kind == "pd") return ndim >= 2 ? "C03:pd:PENTA" : "C03:pd:PENTA:ndim=1";
    if (key == "COSEXP" && kind == "pd") return ndim >= 2 ? "C03:pd:COSEXP" : "C03:pd:COSEXP:ndim=1";
    if (key == "BESSELJ" && kind == "pd") return (ndim == 3 && param < 0.5) ? "C03:pd:BESSELJ:low-nu-3d" : "C03:pd:BESSELJ";
    if (key == "MATERN" && kind == "finite") return param > 50. ? "C03:finite:MATERN:large-nu" : "C03:finite:MATERN";
    if (key == "SPLINE_GC" && (kind == "cpd" || kind == "closed-form") && splineThreshold) return "C03:spline_gc:log-threshold";
    return "C03:" + kind + ":" + key;
  }
  std::string pdKey(int ndim) const { return keyFor("pd", ndim); }
  std::string finiteKey(int ndim) const { return keyFor("finite", ndim); }
};

static bool isTestVal(double v) { return !std::isfinite(v) || std::fabs(v) > 1e29; }

// classes: 0 low, 1 mid, 2 high, 3 zero, 4 max
static double drawParam(Rng& r, const Gate& g, int cls, std::string& name)
{
  if (!g.hasParam) { name = ""; return 1.; }
  double pm      = g.parMax;
  bool unbounded = isTestVal(pm);
  if (cls == 4 && unbounded) cls = 2;
  if (AVOID_PARAM_ENDS && cls >= 3) cls = cls == 3 ? 0 : 2;
  bool smallInterval = !unbounded && pm <= 10.;
  switch (cls)
  {
    case 0: name = "low"; return smallInterval ? r.uni(0.02 * pm, 0.25 * pm) : r.loguni(0.05, 0.4);
    case 1: name = "mid"; return smallInterval ? r.uni(0.25 * pm, 0.75 * pm) : r.loguni(0.4, 4.);
    case 2: name = "high"; return smallInterval ? r.uni(0.75 * pm, 0.999 * pm) : r.loguni(4., unbounded ? 1000. : pm);
    case 3: name = "zero"; return 0.;
    default: name = "max"; return pm;
  }
}

static std::vector<double> genSill(Rng& r, int nvar)
{
  int kind     = r.irange(0, 2); // 0 full rank, 1 rank one, 2 diagonal
  double scale = r.loguni(0.1, 10.);
  std::vector<double> s(nvar * nvar, 0.);
  if (kind == 2 || nvar == 1)
  {
    for (int a = 0; a < nvar; a++) s[a * nvar + a] = scale * r.uni(0.3, 1.5);
    return s;
  }
  int rk = kind == 0 ? nvar : 1;
  std::vector<double> A(nvar * rk);
  for (auto& v : A) v = r.uni(-1, 1);
  for (int a = 0; a < nvar; a++)
    for (int b = a; b < nvar; b++)
    {
      double v = 0;
      for (int k = 0; k < rk; k++) v += A[a * rk + k] * A[b * rk + k];
      s[a * nvar + b] = s[b * nvar + a] = scale * v;
    }
  return s;
}

static void genGeometry(Rng& r, int ndim, Comp& c, bool forceIso = false)
{
  double a = r.loguni(0.5, 50.);
  c.ranges.assign(ndim, a);
  c.angles.clear();
  if (forceIso) return;
  if (ndim > 1 && !r.coin(0.2))
    for (int k = 1; k < ndim; k++) c.ranges[k] = a * r.loguni(0.2, 5.);
  c.angles.clear();
  // GeometryHelper::rotationGetSinCos special-cases the EXACT angles 0, 90, 180 and 270 (table of exact sines and
  // cosines); every other value (360, 450, negative right angles, generic) goes through cos/sin. The draws mix exact
  // special values with generic angles so that each table entry meets generic companions in 3-D.
  auto ang = [&](double lo, double hi) {
    if (r.coin(0.35)) return r.pick(std::vector<double> {0., 90., 180., 270., 90., 180., 270., 360., 450., -90., -180., -270.});
    return r.uni(lo, hi);
  };
  if (ndim == 1)
  {
    if (r.coin(0.2)) c.angles = {r.uni(-180, 180)}; // a 1-D "rotation" is the identity (rotationMatrixInPlace)
  }
  else if (!r.coin(0.2))
  {
    if (ndim == 2) c.angles = {ang(-180, 180), 0.};
    else c.angles = {ang(-180, 180), ang(-90, 90), ang(-180, 180)};
  }
}

// -------------------------------------------------------------------------------------------------------------------
// Point sets
// -------------------------------------------------------------------------------------------------------------------
typedef std::vector<std::vector<double>> Pts;
static const char* LAYOUT[] = {"grid", "grid-aniso", "random", "clustered", "collinear"};

static Pts genPoints(Rng& r, int ndim, int n, int layout, double s, const Comp& c0)
{
  // characteristic length: geometric mean of the ranges of the primary structure
  double a = 1;
  for (double v : c0.ranges) a *= v;
  a = std::pow(a, 1. / ndim);
  refcov::Rot R = refcov::rotation(ndim, c0.angles);
  Pts X;
  std::vector<double> x0(ndim);
  double off = r.pick(std::vector<double> {0., 0., 10., 1000.});
  for (auto& v : x0) v = r.uni(-1, 1) * a * off;
  auto push = [&](const std::vector<double>& u) {
    std::vector<double> p(ndim);
    for (int k = 0; k < ndim; k++) p[k] = x0[k] + u[k];
    X.push_back(p);
  };
  if (layout == 0 || layout == 1)
  {
    int m = std::max(2, (int)std::lround(std::pow((double)n, 1. / ndim)));
    std::vector<int> cnt(ndim, m);
    if (ndim == 1) cnt[0] = n;
    std::vector<int> idx(ndim, 0);
    while (true)
    {
      std::vector<double> u(ndim, 0.);
      if (layout == 0)
        for (int k = 0; k < ndim; k++) u[k] = idx[k] * s * a;
      else // aligned with the rotated anisotropy axes, spacing proportional to each range
        for (int k = 0; k < ndim; k++)
          for (int i = 0; i < ndim; i++) u[i] += (double)R.m[i][k] * idx[k] * s * c0.ranges[k];
      push(u);
      int k = 0;
      while (k < ndim && ++idx[k] == cnt[k]) idx[k++] = 0;
      if (k == ndim) break;
    }
  }
  else if (layout == 2)
  {
    double L = s * a * std::pow((double)n, 1. / ndim);
    for (int i = 0; i < n; i++)
    {
      std::vector<double> u(ndim);
      for (auto& v : u) v = r.uni(0, L);
      push(u);
    }
  }
  else if (layout == 3)
  {
    int nc   = r.irange(2, 5);
    double L = s * a * 6;
    std::vector<std::vector<double>> ctr(nc, std::vector<double>(ndim));
    for (auto& cc : ctr)
      for (auto& v : cc) v = r.uni(0, L);
    for (int i = 0; i < n; i++)
    {
      std::vector<double> u = ctr[i % nc];
      for (auto& v : u) v += r.normal() * 0.3 * s * a;
      push(u);
    }
  }
  else
  {
    std::vector<double> dir(ndim);
    double nn = 0;
    for (auto& v : dir) { v = r.normal(); nn += v * v; }
    for (auto& v : dir) v /= std::sqrt(nn);
    bool regular = r.coin();
    for (int i = 0; i < n; i++)
    {
      double t = regular ? i * s * a : r.uni(0, n * s * a);
      std::vector<double> u(ndim);
      for (int k = 0; k < ndim; k++) u[k] = t * dir[k];
      push(u);
    }
  }
  // exact duplicates now and then (zero distance between distinct samples)
  if (r.coin(0.15) && X.size() > 4)
  {
    int i = r.irange(0, (int)X.size() - 1), j = r.irange(0, (int)X.size() - 1);
    if (i != j) X[j] = X[i];
  }
  return X;
}

static std::unique_ptr<Db> mkDb(const Pts& X, int ndim)
{
  int n = (int)X.size();
  VectorDouble tab(n * ndim);
  for (int i = 0; i < n; i++)
    for (int k = 0; k < ndim; k++) tab[i * ndim + k] = X[i][k];
  VectorString names, locs;
  for (int k = 0; k < ndim; k++)
  {
    names.push_back("x" + std::to_string(k + 1));
    locs.push_back("x" + std::to_string(k + 1));
  }
  return std::unique_ptr<Db>(Db::createFromSamples(n, ELoadBy::SAMPLE, tab, names, locs));
}

// -------------------------------------------------------------------------------------------------------------------
// Reference evaluation
// -------------------------------------------------------------------------------------------------------------------
struct RefModel
{
  int ndim = 1, nvar = 1;
  std::vector<Comp> comps;
  std::vector<refcov::Rot> rots;
  std::vector<std::vector<LD>> scales;
  void prepare()
  {
    rots.clear();
    scales.clear();
    for (auto& c : comps)
    {
      rots.push_back(refcov::rotation(ndim, c.angles));
      std::vector<LD> sc(ndim);
      for (int k = 0; k < ndim; k++) sc[k] = c.g.hasRange == 0 ? 1.0L : (LD)c.ranges[k] / (LD)c.scadef;
      scales.push_back(sc);
    }
  }
  bool allClosed() const
  {
    for (auto& c : comps)
      if (refcov::family(c.key) == refcov::F_NONE) return false;
    return true;
  }
  bool allStationaryClosed() const
  {
    for (auto& c : comps)
      if (refcov::family(c.key) != refcov::F_STATIONARY) return false;
    return true;
  }
  int order() const
  {
    int k = -1;
    for (auto& c : comps) k = std::max(k, c.g.minOrder);
    return k;
  }
  LD hnorm(int ic, const LD* d) const { return refcov::anisoDist(rots[ic], d, scales[ic]); }
  // covariance (stationary comps) or generalised covariance (intrinsic comps, up to the even polynomial)
  LD value(const LD* d, int a, int b, bool& ok) const
  {
    LD v = 0;
    ok   = true;
    for (size_t ic = 0; ic < comps.size(); ic++)
    {
      const Comp& c = comps[ic];
      LD h          = hnorm((int)ic, d);
      LD f;
      if (refcov::family(c.key) == refcov::F_STATIONARY)
      {
        bool o1;
        f = refcov::corr(c.key, h, (LD)c.param, o1);
        if (!o1) ok = false;
      }
      else
        f = refcov::gcov(c.key, h, (LD)c.param);
      v += (LD)c.sill[a * nvar + b] * f;
    }
    return v;
  }
};

// -------------------------------------------------------------------------------------------------------------------
// Model construction through the public API (three routes)
// -------------------------------------------------------------------------------------------------------------------
static const char* ROUTE[] = {"createFromParam", "setters", "createAnisotropic", "createIsotropic", "anglesAndRadius"};

static MatrixSquareSymmetric sillMat(const Comp& c, int nvar)
{
  MatrixSquareSymmetric m(nvar);
  for (int a = 0; a < nvar; a++)
    for (int b = 0; b <= a; b++) m.setValue(a, b, c.sill[a * nvar + b]);
  return m;
}

// returns nullptr if the library refused (message / null); exceptions propagate to the caller
static long g_caseIndex = 0; // set by run_case: lets buildModel alternate between variants without consuming draws
static std::unique_ptr<Model> buildModel(const std::vector<Comp>& comps, int ndim, int nvar, int route, bool useScales,
                                         std::string& how)
{
  std::unique_ptr<Model> model;
  CovContext ctxt(nvar, ndim);
  for (size_t ic = 0; ic < comps.size(); ic++)
  {
    const Comp& c = comps[ic];
    VectorDouble ranges(c.ranges), angles(c.angles), sills;
    bool flagRange = true;
    if (useScales && c.g.hasRange > 0)
    {
      // the same structure specified by its theoretical scales: scale = range / scadef (CovAniso::setRanges)
      double sc = CovFactory::getScaleFactor(c.type, c.param);
      for (auto& v : ranges) v /= sc;
      flagRange = false;
    }
    if (nvar > 1) sills = VectorDouble(c.sill);
    if (route == 0)
    {
      how = useScales ? "createFromParam(flagRange=false)" : "createFromParam";
      bool iso = angles.empty();
      for (int k = 1; k < ndim; k++) iso = iso && c.ranges[k] == c.ranges[0];
      if (iso && comps.size() == 1 && (c.ranges[0] > 3. || ndim == 1))
      {
        // isotropic structure given by the scalar 'range' argument and an explicit space
        how += "(scalar range, space)";
        SpaceRN space(ndim);
        model.reset(Model::createFromParam(c.type, ranges[0], c.sill[0], c.param, VectorDouble(), sills, VectorDouble(), &space, flagRange));
      }
      else if (ic == 0)
        model.reset(Model::createFromParam(c.type, 1., c.sill[0], c.param, ranges, sills, angles, nullptr, flagRange));
      else
        model->addCovFromParam(c.type, 1., c.sill[0], c.param, ranges, sills, angles, flagRange);
    }
    else
    {
      if (ic == 0) model.reset(new Model(ctxt));
      std::unique_ptr<CovAniso> cov;
      if (route == 4)
      {
        // joint setter of the rotation and the ranges (or scales)
        how = "CovAniso+setRotationAnglesAndRadius";
        cov.reset(new CovAniso(c.type, ctxt));
        cov->setParam(c.param);
        if (g_caseIndex % 2 == 1 && !angles.empty() && getenv("C03_NO_ANGLEONLY") == nullptr)
        {
          // the ranges (or scales) first, then the rotation ALONE through the same setter ("ranges" and "scales" are optional
          // arguments of CovAniso::setRotationAnglesAndRadius): the distance must follow the new axes at once
          how = "CovAniso+setRanges+setRotationAnglesAndRadius(angles)";
          if (flagRange) cov->setRanges(ranges);
          else cov->setScales(ranges);
          cov->setRotationAnglesAndRadius(angles);
        }
        else if (flagRange) cov->setRotationAnglesAndRadius(angles, ranges, VectorDouble());
        else cov->setRotationAnglesAndRadius(angles, VectorDouble(), ranges);
        cov->setSill(sillMat(c, nvar));
      }
      else if (route == 1)
      {
        how = "CovAniso+setters";
        cov.reset(new CovAniso(c.type, ctxt));
        cov->setParam(c.param);
        if (flagRange) cov->setRanges(ranges);
        else cov->setScales(ranges);
        cov->setSill(sillMat(c, nvar));
        if (!angles.empty()) cov->setAnisoAngles(angles);
      }
      else if (route == 3)
      {
        if (nvar == 1)
        {
          how = "CovAniso::createIsotropic";
          cov.reset(CovAniso::createIsotropic(ctxt, c.type, ranges[0], c.sill[0], c.param, flagRange));
        }
        else
        {
          how = "CovAniso::createIsotropicMulti";
          cov.reset(CovAniso::createIsotropicMulti(ctxt, c.type, ranges[0], sillMat(c, nvar), c.param, flagRange));
        }
      }
      else
      {
        if (nvar == 1)
        {
          how = "CovAniso::createAnisotropic";
          cov.reset(CovAniso::createAnisotropic(ctxt, c.type, ranges, c.sill[0], c.param, angles, flagRange));
        }
        else
        {
          how = "CovAniso::createAnisotropicMulti";
          cov.reset(CovAniso::createAnisotropicMulti(ctxt, c.type, ranges, sillMat(c, nvar), c.param, angles,
                                                     flagRange));
        }
      }
      if (!cov) return nullptr;
      model->addCov(cov.get());
    }
    if (!model) return nullptr;
  }
  if (!model || model->getCovaNumber() != (int)comps.size()) return nullptr;
  return model;
}

// -------------------------------------------------------------------------------------------------------------------
// Linear algebra helpers
// -------------------------------------------------------------------------------------------------------------------
// Orthonormal basis P (n x q) of the increments authorised at order k: P^T f = 0 for every monomial f of degree <= k
static Mat incrementBasis(const Pts& X, int ndim, int k)
{
  int n = (int)X.size();
  // centred / scaled coordinates (an affine change of coordinates spans the same polynomial space)
  std::vector<LD> mean(ndim, 0), sc(ndim, 0);
  for (auto& p : X)
    for (int d = 0; d < ndim; d++) mean[d] += p[d];
  for (auto& m : mean) m /= n;
  for (auto& p : X)
    for (int d = 0; d < ndim; d++) sc[d] = std::max(sc[d], std::fabs((LD)p[d] - mean[d]));
  LD smax = 0;
  for (auto v : sc) smax = std::max(smax, v);
  if (smax == 0) smax = 1;
  std::vector<std::vector<LD>> U; // orthonormal columns spanning the monomials
  std::vector<int> e(ndim, 0);
  auto orth = [&](std::vector<LD>& v, const std::vector<std::vector<LD>>& B) {
    for (int pass = 0; pass < 2; pass++)
      for (auto& b : B)
      {
        LD s = 0;
        for (int i = 0; i < n; i++) s += b[i] * v[i];
        for (int i = 0; i < n; i++) v[i] -= s * b[i];
      }
  };
  auto norm = [&](const std::vector<LD>& v) {
    LD s = 0;
    for (auto x : v) s += x * x;
    return std::sqrt(s);
  };
  // enumerate exponents with total degree <= k
  std::function<void(int, int)> rec = [&](int d, int left) {
    if (d == ndim)
    {
      std::vector<LD> f(n, 1);
      for (int i = 0; i < n; i++)
        for (int q = 0; q < ndim; q++)
          for (int t = 0; t < e[q]; t++) f[i] *= ((LD)X[i][q] - mean[q]) / smax;
      LD n0 = norm(f);
      orth(f, U);
      LD n1 = norm(f);
      if (n1 > 1e-14L * n0 && n1 > 0)
      {
        for (auto& x : f) x /= n1;
        U.push_back(f);
      }
      return;
    }
    for (int t = 0; t <= left; t++)
    {
      e[d] = t;
      rec(d + 1, left - t);
    }
    e[d] = 0;
  };
  rec(0, k);
  std::vector<std::vector<LD>> P;
  for (int j = 0; j < n && (int)(P.size() + U.size()) < n; j++)
  {
    std::vector<LD> v(n, 0);
    v[j] = 1;
    orth(v, U);
    orth(v, P);
    LD nv = norm(v);
    if (nv > 1e-6L)
    {
      for (auto& x : v) x /= nv;
      orth(v, U);
      orth(v, P);
      nv = norm(v);
      for (auto& x : v) x /= nv;
      P.push_back(v);
    }
  }
  Mat Pm(n, (int)P.size());
  for (int j = 0; j < (int)P.size(); j++)
    for (int i = 0; i < n; i++) Pm(i, j) = P[j][i];
  return Pm;
}

// B = (I_nvar (x) P)^T K (I_nvar (x) P), K ordered variable-major (row = ivar * n + i)
static Mat project(const Mat& K, const Mat& P, int nvar)
{
  int n = P.nr, q = P.nc;
  Mat B(nvar * q, nvar * q);
  Mat Pt = P.T();
  for (int a = 0; a < nvar; a++)
    for (int b = 0; b < nvar; b++)
    {
      Mat blk(n, n);
      for (int i = 0; i < n; i++)
        for (int j = 0; j < n; j++) blk(i, j) = K(a * n + i, b * n + j);
      Mat t = ref::mul(ref::mul(Pt, blk), P);
      for (int i = 0; i < q; i++)
        for (int j = 0; j < q; j++) B(a * q + i, b * q + j) = t(i, j);
    }
  return B;
}

struct EigRes
{
  LD lmin = 0, lmax = 0, tol = 0;
  bool ok = true;
};
// smallest eigenvalue of the symmetric matrix A against  -c * N * eps * lambda_max
static EigRes psdCheck(Mat A, LD magnitude, int NEIG)
{
  EigRes r;
  int N = A.nr;
  for (int i = 0; i < N; i++)
    for (int j = 0; j < i; j++) A(i, j) = A(j, i) = 0.5L * (A(i, j) + A(j, i));
  LD gersh = 0;
  for (int i = 0; i < N; i++)
  {
    LD s = 0;
    for (int j = 0; j < N; j++) s += std::fabs(A(i, j));
    gersh = std::max(gersh, s);
  }
  gersh = std::max(gersh, magnitude);
  r.tol = 1e3L * N * EPS * gersh;
  if (N > NEIG)
  {
    Mat S = A;
    for (int i = 0; i < N; i++) S(i, i) += r.tol;
    ref::Chol ch(S);
    if (ch.ok)
    {
      r.lmax = gersh;
      r.lmin = 0; // not computed: A + tol I is positive definite
      return r;
    }
  }
  std::vector<LD> ev = ref::eigsym(A);
  r.lmin = ev.front();
  r.lmax = ev.back();
  r.ok   = r.lmin >= -r.tol;
  return r;
}

struct PdOut
{
  bool ok = true, evaluated = false;
  EigRes e1, e2; // stationary: e1 only; intrinsic: e1 = P^T K P, e2 = P^T (-gamma) P
  Mat P, B1;
  LD mag1 = 0;
};
// order < 0: eigenvalues of Ms. order >= 0: eigenvalues of K and of -gamma projected on the authorised increments.
static PdOut structuralPd(const Mat& Ms, const Mat& Mv, const Pts& X, int ndim, int nvar, int order, int NEIG)
{
  PdOut o;
  int N = Ms.nr;
  if (order < 0)
  {
    o.e1        = psdCheck(Ms, 0, NEIG);
    o.ok        = o.e1.ok;
    o.evaluated = true;
    return o;
  }
  o.P = incrementBasis(X, ndim, order);
  if (o.P.nc < 2) return o;
  o.B1   = project(Ms, o.P, nvar);
  Mat Mg = Mv;
  for (auto& v : Mg.a) v = -v;
  Mat B2 = project(Mg, o.P, nvar);
  // the projection cancels polynomial terms of size |K|: tolerance relative to the unprojected magnitude
  LD mag2 = 0;
  for (int i = 0; i < N; i++)
  {
    LD s1 = 0, s2 = 0;
    for (int j = 0; j < N; j++) { s1 += std::fabs(Ms(i, j)); s2 += std::fabs(Mv(i, j)); }
    o.mag1 = std::max(o.mag1, s1);
    mag2   = std::max(mag2, s2);
  }
  o.e1        = psdCheck(o.B1, o.mag1, NEIG);
  // gamma is obtained as K(0) - K(h): its rounding error is relative to |K|, not to |gamma|
  o.e2        = psdCheck(B2, std::max(o.mag1, mag2), NEIG);
  o.ok        = o.e1.ok && o.e2.ok;
  o.evaluated = true;
  return o;
}

// -------------------------------------------------------------------------------------------------------------------
// The checks on one built model. 'pfx' distinguishes the in-domain sweep from the gate sweep in the keys.
// -------------------------------------------------------------------------------------------------------------------
struct CaseCfg
{
  int ndim, nvar, route;
  bool gateSweep = false;
  std::string gateKey; // used instead of the pd / closed-form keys in the gate sweep
  std::string factoryKey; // key of the range-related oracles on the CovAniso::create* routes (parametrised structures)
  std::string overrideKey;   // one key for every failure of a case whose construction route is itself the suspect (unused)
  std::string routeFiniteKey; // key of the 'finite' oracle on the setRotationAnglesAndRadius route, intrinsic structures
  bool representable = true; // every range / scadef is a scale the library accepts
  int NEIG;
};

static Mat libMatrix(const AMatrix& m)
{
  Mat a(m.getNRows(), m.getNCols());
  for (int i = 0; i < a.nr; i++)
    for (int j = 0; j < a.nc; j++) a(i, j) = m.getValue(i, j);
  return a;
}

// Verdicts of the oracles whose failure, for a sum of structures, is first attributed to the components
struct Verdict
{
  bool finite = true, pd = true, closed = true, bound = true;
  Pts Y; // the target points drawn by this check (re-used when the components of a sum are checked for attribution)
  bool allOk() const { return finite && pd && closed && bound; }
};
// report = false: failures of the attributable oracles (finite, pd / cpd, bound, closed-form) are returned, not logged
static Verdict checkModel(Rng& r, Ctx& c, Model* model, RefModel& rm, const Pts& X, const CaseCfg& cfg, bool report, const Pts* fixedY = nullptr)
{
  Verdict V;
  const int ndim = cfg.ndim, nvar = cfg.nvar, n = (int)X.size(), N = n * nvar;
  const Comp& c0  = rm.comps[0];
  const bool single = rm.comps.size() == 1;
  // keys
  auto K = [&](const std::string& /*kind*/, const std::string& dflt) {
    return cfg.gateSweep ? cfg.gateKey : (!cfg.overrideKey.empty() ? cfg.overrideKey : dflt);
  };
  std::string names    = c0.key;
  for (size_t i = 1; i < rm.comps.size(); i++) names += "+" + rm.comps[i].key;
  // SPLINE_GC: is there a pair of distinct points below the library's log cut-off (h < field * 1e-4) ?
  bool splineThr = false;
  if (single && c0.key == "SPLINE_GC")
  {
    LD field = 0;
    for (double v : c0.ranges) field = std::max(field, (LD)v);
    for (int i = 0; i < n && !splineThr; i++)
      for (int j = 0; j < i; j++)
      {
        LD d[3] = {0, 0, 0};
        for (int k = 0; k < ndim; k++) d[k] = (LD)X[j][k] - (LD)X[i][k];
        LD h = rm.hnorm(0, d);
        if (h > 0 && h < 2e-4L * field) { splineThr = true; break; }
      }
  }
  auto SK = [&](const char* kind, const char* sumKey) { return single ? c0.keyFor(kind, ndim, splineThr) : std::string(sumKey); };
  std::string kStruct  = single ? c0.key : "sum";
  std::string kFinite  = K("finite", !cfg.routeFiniteKey.empty() ? cfg.routeFiniteKey : SK("finite", "C03:finite:sum"));
  std::string kSym     = K("sym", SK("symmetry", "C03:symmetry:sum"));
  std::string kPoint   = K("point", SK("pointwise", "C03:pointwise:sum"));
  std::string kVario   = K("vario", SK("vario-mode", "C03:vario-mode:sum"));
  std::string kBound   = K("bound", SK("bound", "C03:bound:sum"));
  std::string kClosed  = K("closed", SK("closed-form", "C03:closed-form:sum"));
  std::string kPd      = K("pd", SK("pd", "C03:pd-sum"));
  std::string kCpd     = K("cpd", SK("cpd", "C03:cpd-sum"));
  std::string detail0  = fmt("%s ndim=%d nvar=%d n=%d via %s", names.c_str(), ndim, nvar, n, ROUTE[cfg.route]);

  std::unique_ptr<Db> db = mkDb(X, ndim);
  if (!db) throw std::logic_error("harness: Db::createFromSamples failed");

  CovCalcMode mvario(ECalcMember::LHS, true);
  Mat Ms = libMatrix(model->evalCovMatrixSymmetric(db.get()));
  Mat Mr = libMatrix(model->evalCovMatrix(db.get(), nullptr));
  Mat Mv = libMatrix(model->evalCovMatrix(db.get(), nullptr, -1, -1, VectorInt(), VectorInt(), &mvario));
  if (Ms.nr != N || Ms.nc != N || Mr.nr != N || Mr.nc != N || Mv.nr != N || Mv.nc != N)
  {
    c.truth("shape", K("shape", "C03:matrix-shape:" + kStruct), false,
            detail0 + fmt(": expected %d x %d, got sym %dx%d rect %dx%d vario %dx%d", N, N, Ms.nr, Ms.nc, Mr.nr, Mr.nc, Mv.nr, Mv.nc));
    V.finite = false;
    return V;
  }
  c.truth("shape", K("shape", "C03:matrix-shape:" + kStruct), true);

  // second point set (targets): Y[0] coincides with a data point
  const int m = 4;
  Pts Y;
  for (int t = 0; t < m; t++)
  {
    std::vector<double> y = X[r.irange(0, n - 1)];
    if (t > 0)
      for (auto& v : y) v += r.normal() * c0.ranges[0] * r.pick(std::vector<double> {0.01, 0.3, 2.});
    Y.push_back(y);
  }
  // attribution of a failing sum to its components must look at the SAME pairs of points: the components are then checked
  // on the targets of the sum (the draws above are kept, so that the rest of the case is unchanged)
  if (fixedY != nullptr && (int)fixedY->size() == m) Y = *fixedY;
  V.Y = Y;
  std::unique_ptr<Db> db2 = mkDb(Y, ndim);
  Mat Mc = libMatrix(model->evalCovMatrix(db.get(), db2.get()));

  // ---- finiteness -------------------------------------------------------------------------------------------
  bool finite = true;
  double firstBad = 0;
  for (auto* M : {&Ms, &Mr, &Mv, &Mc})
    for (LD v : M->a)
      if (isTestVal((double)v)) { if (finite) firstBad = (double)v; finite = false; }
  if (report || finite)
    c.truth("finite", kFinite, finite, detail0 + fmt(": covariance matrix has an undefined / non-finite entry (%g); param=%g", firstBad, c0.param));
  if (!finite)
  {
    V.finite = false;
    return V;
  }
  LD scale = std::max(Mr.maxabs(), (LD)1e-300);

  // ---- symmetry: rect builder evaluates (i,j) and (j,i) separately -> C_ab(h) = C_ba(-h) ------------------------
  {
    LD e1 = 0, e2 = 0;
    for (int i = 0; i < N; i++)
      for (int j = 0; j < N; j++)
      {
        e1 = std::max(e1, std::fabs(Mr(i, j) - Mr(j, i)));
        e2 = std::max(e2, std::fabs(Mr(i, j) - Ms(i, j)));
      }
    c.check("sym-rect", kSym, e1 <= 1e-13 * scale, (double)e1, (double)(1e-13 * scale), detail0 + ": evalCovMatrix(db,db) not symmetric");
    c.check("sym-vs-rect", kSym, e2 <= 1e-13 * scale, (double)e2, (double)(1e-13 * scale),
            detail0 + ": evalCovMatrixSymmetric differs from evalCovMatrix");
  }

  // ---- eval0, bound, variogram mode ---------------------------------------------------------------------------------
  std::vector<double> c00(nvar * nvar);
  for (int a = 0; a < nvar; a++)
    for (int b = 0; b < nvar; b++) c00[a * nvar + b] = model->eval0(a, b);
  {
    LD e = 0;
    for (int a = 0; a < nvar; a++)
      for (int b = 0; b < nvar; b++)
        for (int i = 0; i < n; i++) e = std::max(e, std::fabs(Mr(a * n + i, b * n + i) - (LD)c00[a * nvar + b]));
    c.check("eval0", kPoint, e <= 1e-13 * scale, (double)e, (double)(1e-13 * scale), detail0 + ": eval0(ivar,jvar) differs from the matrix entry at zero distance");
  }
  const int order = rm.order();
  if (order < 0)
  {
    // |C_ab(h)| <= sqrt(C_aa(0) C_bb(0))   (Cauchy-Schwarz; reduces to |C(h)| <= C(0) for one variable)
    LD worst = 0, tol = 1e-12 * scale;
    for (int a = 0; a < nvar; a++)
      for (int b = 0; b < nvar; b++)
      {
        LD bd = std::sqrt(std::max((LD)0, (LD)c00[a * nvar + a]) * std::max((LD)0, (LD)c00[b * nvar + b]));
        for (int i = 0; i < n; i++)
          for (int j = 0; j < n; j++) worst = std::max(worst, std::fabs(Mr(a * n + i, b * n + j)) - bd);
      }
    V.bound = worst <= tol;
    if (report || V.bound) c.check("bound", kBound, worst <= tol, (double)std::max(worst, (LD)0), (double)tol, detail0 + fmt(": |C(h)| exceeds C(0) by %Lg (C(0)=%g) param=%g", worst, c00[0], c0.param));
  }
  {
    // CovCalcMode asVario: "True to calculate variogram instead of covariance" -> gamma(h) = C(0) - C(h)
    LD e = 0;
    for (int a = 0; a < nvar; a++)
      for (int b = 0; b < nvar; b++)
        for (int i = 0; i < n; i++)
          for (int j = 0; j < n; j++)
            e = std::max(e, std::fabs(Mv(a * n + i, b * n + j) - ((LD)c00[a * nvar + b] - Mr(a * n + i, b * n + j))));
    LD tol = 1e-12 * std::max(scale, Mv.maxabs());
    c.check("vario-mode", kVario, e <= tol, (double)e, (double)tol, detail0 + ": variogram mode differs from C(0) - C(h)");
  }

  // ---- pointwise: Model::eval, sum of CovAniso::eval, evalIvarIpas agree with the matrix builders -------------------
  std::vector<SpacePoint> sp, sq;
  for (int i = 0; i < n; i++) sp.emplace_back(VectorDouble(X[i]));
  for (int t = 0; t < m; t++) sq.emplace_back(VectorDouble(Y[t]));
  {
    LD e1 = 0, e2 = 0, e3 = 0, e4 = 0;
    int npairs = n <= 24 ? n * n : 400;
    for (int t = 0; t < npairs; t++)
    {
      int i = n <= 24 ? t / n : r.irange(0, n - 1), j = n <= 24 ? t % n : r.irange(0, n - 1);
      for (int a = 0; a < nvar; a++)
        for (int b = 0; b < nvar; b++)
        {
          LD m  = Mr(a * n + i, b * n + j);
          LD v1 = model->eval(sp[i], sp[j], a, b);
          LD v2 = 0;
          for (int ic = 0; ic < model->getCovaNumber(); ic++) v2 += model->getCova(ic)->eval(sp[i], sp[j], a, b);
          e1 = std::max(e1, std::fabs(v1 - m));
          e2 = std::max(e2, std::fabs(v2 - m));
          LD v3 = model->eval(sp[j], sp[i], a, b);
          e3    = std::max(e3, std::fabs(v3 - v1));
          LD v4 = model->eval(sp[i], sp[j], a, b, &mvario);
          e4    = std::max(e4, std::fabs(v4 - Mv(a * n + i, b * n + j)));
        }
    }
    LD tol = 1e-13 * std::max(scale, Mv.maxabs());
    c.check("model-eval", kPoint, e1 <= tol, (double)e1, (double)tol, detail0 + ": Model::eval differs from evalCovMatrix entry");
    c.check("cova-eval", kPoint, e2 <= 4 * tol, (double)e2, (double)(4 * tol), detail0 + ": sum of CovAniso::eval differs from evalCovMatrix entry");
    c.check("even", kSym, e3 <= tol, (double)e3, (double)tol, detail0 + ": C(h) != C(-h) pointwise");
    c.check("vario-eval", kVario, e4 <= tol, (double)e4, (double)tol, detail0 + ": Model::eval(asVario) differs from the variogram-mode matrix");
  }

  // ---- other entry points of the matrix builders: two different Dbs, one (ivar, jvar) block, unitary mode -----------
  {
    bool shapeOk = Mc.nr == N && Mc.nc == nvar * m;
    c.truth("shape", K("shape", "C03:matrix-shape:" + kStruct), shapeOk, detail0 + fmt(": evalCovMatrix(db1,db2) is %dx%d, expected %dx%d", Mc.nr, Mc.nc, N, nvar * m));
    if (shapeOk)
    {
      LD e = 0, big = 0;
      for (int a = 0; a < nvar; a++)
        for (int b = 0; b < nvar; b++)
          for (int i = 0; i < n; i++)
            for (int t = 0; t < m; t++)
            {
              LD v = model->eval(sp[i], sq[t], a, b);
              e    = std::max(e, std::fabs(v - Mc(a * n + i, b * m + t)));
              big  = std::max(big, std::fabs(v));
            }
      LD tol = 1e-13 * std::max(scale, big);
      c.check("rect-cross", kPoint, e <= tol, (double)e, (double)tol, detail0 + ": evalCovMatrix(db1, db2) entry differs from Model::eval");
    }
    int a = r.irange(0, nvar - 1), b = r.irange(0, nvar - 1);
    Mat Mb = libMatrix(model->evalCovMatrix(db.get(), nullptr, a, b));
    bool sb = Mb.nr == n && Mb.nc == n;
    LD e = 0;
    if (sb)
      for (int i = 0; i < n; i++)
        for (int j = 0; j < n; j++) e = std::max(e, std::fabs(Mb(i, j) - Mr(a * n + i, b * n + j)));
    c.check("block", kPoint, sb && e <= 1e-13 * scale, sb ? (double)e : INFINITY, (double)(1e-13 * scale),
            detail0 + fmt(": evalCovMatrix(ivar0=%d, jvar0=%d) is not the corresponding block of the full matrix", a, b));
    // ---- the "optimised" matrix builders are entry points of the same covariance matrix: full matrix, two Dbs, and a
    //      single requested variable (ivar0 / jvar0) of a multivariate model.
    // They compute the distance between points that were first mapped to the normalised space (x -> T^-1 x), so their
    // distance carries an absolute error of a few eps * |x| / scale instead of a relative one. An entry is accepted if
    // it agrees to 1e-10 * magnitude OR to four times the largest change of the library's own covariance when the
    // second point is moved by 64 * eps * sqrt(ndim) * max|coordinate| along each coordinate axis.
    {
      double xmax = 0;
      for (auto& x : X)
        for (double v : x) xmax = std::max(xmax, std::fabs(v));
      for (auto& x : Y)
        for (double v : x) xmax = std::max(xmax, std::fabs(v));
      const double delta = 64 * EPS * std::sqrt((double)ndim) * xmax;
      LD naive = 1e-10 * std::max(std::max(scale, Mv.maxabs()), Mc.maxabs());
      int nslow = 0;
      // A: optim matrix, B: plain matrix; rows = (vars ra..) x X, cols = (vars cb..) x colPts
      auto agree = [&](const Mat& A, const Mat& B, const std::vector<int>& rv, const std::vector<int>& cv, const Pts& CX,
                       const std::vector<SpacePoint>& cp, const CovCalcMode* mode, LD& worst) {
        int nc = (int)CX.size();
        if (A.nr != (int)rv.size() * n || A.nc != (int)cv.size() * nc || B.nr != A.nr || B.nc != A.nc) { worst = INFINITY; return false; }
        bool ok = true;
        for (size_t ia = 0; ia < rv.size(); ia++)
          for (size_t ib = 0; ib < cv.size(); ib++)
            for (int i = 0; i < n; i++)
              for (int j = 0; j < nc; j++)
              {
                LD e = std::fabs(A((int)ia * n + i, (int)ib * nc + j) - B((int)ia * n + i, (int)ib * nc + j));
                if (!(e <= naive))
                {
                  LD allowed = 0;
                  if (std::isfinite((double)e) && nslow < 400)
                  {
                    nslow++;
                    LD c0v = model->eval(sp[i], cp[j], rv[ia], cv[ib], mode);
                    for (int q = 0; q < ndim; q++)
                      for (int sgn = -1; sgn <= 1; sgn += 2)
                      {
                        VectorDouble y(CX[j]);
                        y[q] += sgn * delta;
                        SpacePoint py(y);
                        allowed = std::max(allowed, std::fabs((LD)model->eval(sp[i], py, rv[ia], cv[ib], mode) - c0v));
                      }
                    allowed *= 4;
                  }
                  if (!(e <= allowed)) { ok = false; worst = std::max(worst, e); }
                }
                else
                  worst = std::max(worst, e);
              }
        return ok;
      };
      std::vector<int> allv(nvar);
      for (int a = 0; a < nvar; a++) allv[a] = a;
      Mat So = libMatrix(model->evalCovMatrixSymmetricOptim(db.get()));
      Mat Ro = libMatrix(model->evalCovMatrixOptim(db.get(), nullptr));
      Mat Co = libMatrix(model->evalCovMatrixOptim(db.get(), db2.get()));
      Mat Vo = libMatrix(model->evalCovMatrixOptim(db.get(), nullptr, -1, -1, VectorInt(), VectorInt(), &mvario));
      LD w1 = 0, w2 = 0, w3 = 0, w4 = 0;
      bool o1 = agree(So, Ms, allv, allv, X, sp, nullptr, w1);
      bool o2 = agree(Ro, Mr, allv, allv, X, sp, nullptr, w2);
      bool o3 = agree(Co, Mc, allv, allv, Y, sq, nullptr, w3);
      bool o4 = agree(Vo, Mv, allv, allv, X, sp, &mvario, w4);
      c.check("optim-sym", kPoint, o1, (double)w1, (double)naive, detail0 + ": evalCovMatrixSymmetricOptim differs from evalCovMatrixSymmetric");
      c.check("optim-rect", kPoint, o2 && o3 && o4, (double)std::max(w2, std::max(w3, w4)), (double)naive,
              detail0 + fmt(": evalCovMatrixOptim differs from evalCovMatrix (same Db %Lg, two Dbs %Lg, variogram mode %Lg)", w2, w3, w4));
      if (Ro.nr == N && Ro.nc == N)
      {
        LD e5 = 0;
        for (int i = 0; i < N; i++)
          for (int j = 0; j < N; j++) e5 = std::max(e5, std::fabs(Ro(i, j) - Ro(j, i)));
        c.check("optim-symmetric", kSym, e5 <= 1e-13 * scale, (double)e5, (double)(1e-13 * scale), detail0 + ": evalCovMatrixOptim(db,db) is not symmetric");
      }
      // one requested variable: the (a,a) block of the symmetric builders, the (a,b) block of the rectangular one
      for (int rep = 0; rep < (nvar > 1 ? 2 : 1); rep++)
      {
        int a2 = nvar > 1 ? (rep == 0 ? nvar - 1 : r.irange(0, nvar - 1)) : 0, b2 = r.irange(0, nvar - 1);
        Mat Sa  = libMatrix(model->evalCovMatrixSymmetricOptim(db.get(), a2));
        Mat Sp  = libMatrix(model->evalCovMatrixSymmetric(db.get(), a2));
        Mat Rab = libMatrix(model->evalCovMatrixOptim(db.get(), nullptr, a2, b2));
        Mat Baa(n, n), Bab(n, n);
        for (int i = 0; i < n; i++)
          for (int j = 0; j < n; j++)
          {
            Baa(i, j) = Mr(a2 * n + i, a2 * n + j);
            Bab(i, j) = Mr(a2 * n + i, b2 * n + j);
          }
        LD f1 = 0, f3 = 0, f2 = 0;
        bool p1 = agree(Sa, Baa, {a2}, {a2}, X, sp, nullptr, f1);
        bool p3 = agree(Rab, Bab, {a2}, {b2}, X, sp, nullptr, f3);
        c.check("optim-block", kPoint, p1 && p3, (double)std::max(f1, f3), (double)naive,
                detail0 + fmt(": Optim builders with ivar0=%d (jvar0=%d) are not the corresponding block of the full matrix (symmetric %Lg, rectangular %Lg)", a2, b2, f1, f3));
        bool s2 = Sp.nr == n && Sp.nc == n;
        if (s2)
          for (int i = 0; i < n; i++)
            for (int j = 0; j < n; j++) f2 = std::max(f2, std::fabs(Sp(i, j) - Baa(i, j)));
        c.check("block", kPoint, s2 && f2 <= 1e-13 * scale, s2 ? (double)f2 : INFINITY, (double)(1e-13 * scale),
                detail0 + fmt(": evalCovMatrixSymmetric(ivar0=%d) is not the (ivar0,ivar0) block of the full matrix", a2));
      }
    }
    if (single && nvar == 1 && c0.sill[0] > 0)
    {
      // CovCalcMode unitary: "True to calculate covariance without sill"
      CovCalcMode munit(ECalcMember::LHS, false, true);
      LD eu = 0;
      for (int t = 0; t < std::min(n * n, 200); t++)
      {
        int i = r.irange(0, n - 1), j = r.irange(0, n - 1);
        eu = std::max(eu, std::fabs((LD)model->eval(sp[i], sp[j], 0, 0, &munit) * (LD)c0.sill[0] - Mr(i, j)));
      }
      c.check("unitary", kPoint, eu <= 1e-12 * scale, (double)eu, (double)(1e-12 * scale), detail0 + ": unitary mode times the sill differs from the covariance");
    }
  }

  // ---- positive definiteness -------------------------------------------------------------------------------------
  PdOut po = structuralPd(Ms, Mv, X, ndim, nvar, order, cfg.NEIG);
  if (order < 0 && po.evaluated && po.ok)
  {
    // the matrix of ONE variable over the points, as returned by the optimised builder, is itself a covariance matrix
    int a2 = nvar - 1;
    Mat Sa = libMatrix(model->evalCovMatrixSymmetricOptim(db.get(), a2));
    bool s2 = Sa.nr == n && Sa.nc == n;
    EigRes er;
    if (s2) er = psdCheck(Sa, 0, cfg.NEIG);
    c.check("optim-pd", kPoint, s2 && er.ok, s2 ? (double)std::max((LD)0, -er.lmin) : INFINITY, (double)er.tol,
            detail0 + fmt(": evalCovMatrixSymmetricOptim(ivar0=%d) has smallest eigenvalue %.6Lg although the full matrix is positive semi-definite", a2, er.lmin));
  }
  if (!po.evaluated) c.skip("cpd:no-increment");
  else if (order < 0)
  {
    V.pd = po.ok;
    if (report || po.ok)
      c.check("pd", kPd, po.ok, (double)std::max((LD)0, -po.e1.lmin), (double)po.e1.tol,
              detail0 + fmt(": smallest eigenvalue %.6Lg (largest %.6Lg); param=%g ranges[0]=%g", po.e1.lmin, po.e1.lmax, c0.param, c0.ranges[0]));
  }
  else
  {
    V.pd = po.ok;
    std::string diag;
    if (!po.ok && report && n > 30)
    {
      // diagnostic only: is K (or -K) conditionally positive definite at a higher order ?
      for (int o2 = order + 1; o2 <= 3; o2++)
      {
        Mat P2 = incrementBasis(X, ndim, o2);
        if (P2.nc < 2) break;
        Mat B = project(Ms, P2, nvar);
        for (int i = 0; i < B.nr; i++)
          for (int j = 0; j < i; j++) B(i, j) = B(j, i) = 0.5L * (B(i, j) + B(j, i));
        std::vector<LD> ev = ref::eigsym(B);
        diag += fmt(" [order %d: eig(P^T K P) in (%.3Lg, %.3Lg)]", o2, ev.front(), ev.back());
      }
    }
    if (report || po.ok)
    {
      const std::string& kc = kCpd;
      c.check("cpd", kc, po.e1.ok, (double)std::max((LD)0, -po.e1.lmin), (double)po.e1.tol,
              detail0 + fmt(": P^T K P has eigenvalue %.6Lg (largest %.6Lg) on increments of order %d; param=%g", po.e1.lmin, po.e1.lmax, order, c0.param) + diag);
      c.check("cpd-vario", kc, po.e2.ok, (double)std::max((LD)0, -po.e2.lmin), (double)po.e2.tol,
              detail0 + fmt(": P^T (-gamma) P has eigenvalue %.6Lg (largest %.6Lg) on increments of order %d; param=%g", po.e2.lmin, po.e2.lmax, order, c0.param));
    }
    // closed form on the increments (the even polynomial part of a generalised covariance is not published)
    if (rm.allClosed() && !cfg.gateSweep && !cfg.representable) c.skip("closed-form:scale-not-representable");
    if (rm.allClosed() && !cfg.gateSweep && cfg.representable)
    {
      Mat Kr(N, N);
      bool okAll = true;
      for (int i = 0; i < n && okAll; i++)
        for (int j = 0; j < n && okAll; j++)
        {
          LD d[3] = {0, 0, 0};
          for (int k = 0; k < ndim; k++) d[k] = (LD)X[j][k] - (LD)X[i][k];
          for (int a = 0; a < nvar; a++)
            for (int b = 0; b < nvar; b++)
            {
              bool ok;
              Kr(a * n + i, b * n + j) = rm.value(d, a, b, ok);
              if (!ok) okAll = false;
            }
        }
      if (!okAll) c.skip("closed-form:ref-not-evaluable");
      else
      {
        Mat Br = project(Kr, po.P, nvar);
        LD e   = 0;
        for (size_t i = 0; i < Br.a.size(); i++) e = std::max(e, std::fabs(Br.a[i] - po.B1.a[i]));
        LD tol = 1e3L * N * EPS * po.mag1 + 1e-9L * Br.maxabs();
        V.closed = e <= tol;
        if (report || V.closed) c.check("closed-form-incr", kClosed, e <= tol, (double)e, (double)tol,
                detail0 + fmt(": P^T K P differs from the published generalised covariance (max |ref| %.4Lg); param=%g", Br.maxabs(), c0.param));
      }
    }
  }
  if (cfg.gateSweep) return V;

  // ---- closed form (stationary structures): every matrix entry -------------------------------------------------------
  if (rm.allStationaryClosed() && !cfg.representable) c.skip("closed-form:scale-not-representable");
  if (rm.allStationaryClosed() && cfg.representable)
  {
    LD e = 0, eat = 0;
    bool okAll = true;
    bool bessel = false;
    for (auto& cc : rm.comps)
      if (cc.key == "BESSELJ" || cc.key == "MATERN") bessel = true;
    int wi = 0, wj = 0;
    for (int i = 0; i < n; i++)
      for (int j = 0; j < n; j++)
      {
        LD d[3] = {0, 0, 0};
        for (int k = 0; k < ndim; k++) d[k] = (LD)X[j][k] - (LD)X[i][k];
        for (int a = 0; a < nvar; a++)
          for (int b = 0; b < nvar; b++)
          {
            bool ok;
            LD v = rm.value(d, a, b, ok);
            if (!ok) { okAll = false; continue; }
            LD er = std::fabs(v - Mr(a * n + i, b * n + j));
            if (er > e) { e = er; eat = v; wi = i; wj = j; }
          }
      }
    if (!okAll) c.skip("closed-form:ref-not-evaluable");
    LD tol = (bessel ? 1e-8L : 1e-10L) * scale;
    V.closed = e <= tol;
    if (report || V.closed) c.check("closed-form", kClosed, e <= tol, (double)e, (double)tol,
            detail0 + fmt(": entry (%d,%d) differs from the published closed form (ref %.12Lg); param=%g scadef=%g", wi, wj, eat, c0.param, c0.scadef));
  }
  return V;
}

// Single-structure oracles tied to the rotated axes: range echo, value at the range, compact support
static void checkAxes(Rng& r, Ctx& c, Model* model, RefModel& rm, const CaseCfg& cfg)
{
  const Comp& c0 = rm.comps[0];
  const int ndim = cfg.ndim, nvar = cfg.nvar;
  if (c0.g.hasRange <= 0) return;
  // getRanges() != requested ranges on a CovAniso::create* route has its own key (the factories once set the range
  // before the third parameter); every other oracle keeps the structure's key
  auto RK = [&](const char* kind) {
    return (!cfg.factoryKey.empty() && std::string(kind) == "range-echo") ? cfg.factoryKey : c0.keyFor(kind, ndim);
  };
  std::string det = fmt("%s ndim=%d via %s param=%g", c0.key.c_str(), ndim, ROUTE[cfg.route], c0.param);
  const CovAniso* cov = model->getCova(0);
  // the requested practical ranges are the ranges of the structure (skipped when range/scadef leaves [1e-15, 1e15]:
  // setRanges documents "should not be too small")
  if (!cfg.representable)
  {
    c.skip("axes:scale-not-representable");
    return;
  }
  {
    VectorDouble got = cov->getRanges();
    double e = 0;
    for (int k = 0; k < ndim; k++) e = std::max(e, std::fabs(got[k] - c0.ranges[k]) / c0.ranges[k]);
    c.check("range-echo", RK("range-echo"), e <= 1e-12, e, 1e-12, det + ": getRanges() differs from the requested ranges");
  }
  refcov::Rot R = rm.rots[0];
  int a0 = r.irange(0, nvar - 1), b0 = r.irange(0, nvar - 1);
  double sab = c0.sill[a0 * nvar + b0];
  double smag = 0;
  for (double v : c0.sill) smag = std::max(smag, std::fabs(v));
  LD frac     = refcov::fractionAtRange(c0.key, (LD)c0.param);
  bool compact = refcov::compactSupport(c0.key);
  bool closed  = refcov::family(c0.key) == refcov::F_STATIONARY;
  bool bessel  = c0.key == "BESSELJ" || c0.key == "MATERN";
  for (int k = 0; k < ndim; k++)
  {
    std::vector<LD> ax = refcov::axis(R, k);
    auto at = [&](double f, bool viaIpas) {
      VectorDouble dir(ndim);
      for (int i = 0; i < ndim; i++) dir[i] = (double)ax[i];
      if (viaIpas) return model->evalIvarIpas(f * c0.ranges[k], dir, a0, b0);
      VectorDouble p2(ndim);
      for (int i = 0; i < ndim; i++) p2[i] = f * c0.ranges[k] * dir[i];
      SpacePoint s1 {VectorDouble(ndim, 0.)}, s2 {p2};
      return cov->eval(s1, s2, a0, b0);
    };
    std::string dk = det + fmt(" axis=%d range=%g angles=%s", k, c0.ranges[k], jvec(c0.angles).c_str());
    if (!std::isnan((double)frac) && !compact)
    {
      // practical range: the covariance reaches its documented fraction of the sill at distance range_k along R e_k
      double v = at(1.0, k % 2 == 0);
      double tol = (frac == 0 ? 1e-9 : 1e-6) * smag;
      c.check("range-axis", RK("range-axis"), std::fabs(v - (double)frac * sab) <= tol, std::fabs(v - (double)frac * sab), tol,
              dk + fmt(": C(range_k R e_k) = %g, expected %Lg x sill(%g)", v, frac, sab));
    }
    if (closed)
    {
      for (double f : {0.37, 1.0, 1.9})
      {
        LD d[3] = {0, 0, 0};
        for (int i = 0; i < ndim; i++) d[i] = (LD)((double)ax[i]) * (LD)(f * c0.ranges[k]);
        // recompute exactly what was passed to the library (double rounded direction and step)
        {
          VectorDouble dir(ndim);
          for (int i = 0; i < ndim; i++) dir[i] = (double)ax[i];
          for (int i = 0; i < ndim; i++) d[i] = (LD)(f * c0.ranges[k] * dir[i]);
        }
        bool ok;
        LD want  = rm.value(d, a0, b0, ok);
        if (!ok) { c.skip("closed-form:ref-not-evaluable"); continue; }
        double v = at(f, f > 1.5);
        double tol = (bessel ? 1e-8 : 1e-10) * smag;
        c.check("closed-form-axis", RK("closed-form"), std::fabs(v - (double)want) <= tol, std::fabs(v - (double)want), tol,
                dk + fmt(": C(%g range_k R e_k) = %.12g, closed form %.12Lg", f, v, want));
      }
    }
    if (compact)
    {
      // "compactly supported structures vanish beyond their range" and are non-zero strictly inside
      for (double f : {1.0000001, 1.3, 2.5})
      {
        double v = at(f, false);
        c.check("support-out", RK("support"), std::fabs(v) <= 1e-9 * smag, std::fabs(v), 1e-9 * smag,
                dk + fmt(": C = %g at %g x range along the rotated axis (must vanish beyond the range)", v, f));
      }
      if (std::fabs(sab) > 1e-3 * smag)
        for (double f : {0.5, 0.9})
        {
          double v = at(f, true);
          c.check("support-in", RK("support"), std::fabs(v) > 1e-7 * std::fabs(sab), 0, 0,
                  dk + fmt(": C = %g at %g x range along the rotated axis (must be non-zero inside the range)", v, f));
        }
    }
  }
  // off-axis: a random direction scaled to anisotropic distance exactly 1.02 / 0.98 ranges
  if (compact && ndim > 1)
  {
    std::vector<LD> u(ndim);
    for (auto& v : u) v = r.normal();
    for (double f : {1.02, 3.0})
    {
      // x = f * sum_k u_k/|u| range_k R e_k has normalised anisotropic distance f (in range units)
      LD nu = 0;
      for (auto v : u) nu += v * v;
      nu = std::sqrt(nu);
      VectorDouble p2(ndim, 0.);
      for (int k = 0; k < ndim; k++)
        for (int i = 0; i < ndim; i++) p2[i] += (double)(f * u[k] / nu * (LD)c0.ranges[k] * R.m[i][k]);
      SpacePoint s1 {VectorDouble(ndim, 0.)}, s2 {p2};
      double v = model->eval(s1, s2, a0, b0);
      c.check("support-out", RK("support"), std::fabs(v) <= 1e-9 * smag, std::fabs(v), 1e-9 * smag,
              det + fmt(": C = %g at anisotropic distance %g ranges (off-axis)", v, f));
    }
  }
}

// -------------------------------------------------------------------------------------------------------------------
static std::vector<ECov> allTypes()
{
  std::vector<ECov> v;
  for (int i = 0; i <= 30; i++) v.push_back(ECov::fromValue(i));
  return v;
}

static void run_case(Rng& r, Ctx& c)
{
  g_caseIndex = c.icase / 97; // independent of the (structure, dimension) pair, which is icase modulo 3 NT
  static const std::vector<ECov> types = allTypes();
  const int NT   = (int)types.size();
  const int pair = (int)(c.icase % (NT * 3));
  const long j   = c.icase / (NT * 3);
  const ECov t   = types[pair / 3];
  const int ndim = pair % 3 + 1;
  const std::string key(t.getKey());

  defineDefaultSpace(ESpaceType::RN, ndim);

  int nvar = r.pick(std::vector<int> {1, 1, 1, 2, 2, 3});
  // every 4th draw: one variable on a grid laid along the rotated anisotropy axes with a mesh of 0.4-1.6 (draws 0 mod 8)
  // or 0.1-0.5 (draws 4 mod 8) ranges (the
  // configuration on which structures that are not valid in the dimension show the most negative eigenvalues)
  const bool adversarial = (j % 4 == 0);
  if (adversarial) nvar = 1;
  Gate g   = gateOf(t, ndim, nvar);
  c.puts("structure", key);
  c.putn("ndim", ndim);

  // ---- sphere-only structures: must not be in-domain on R^n ----------------------------------------------------------
  if (refcov::sphereOnly(key))
  {
    c.setSig(key + ":ndim=" + std::to_string(ndim) + ":sphere-only");
    c.truth("gate-sphere", "C03:gate:" + key + ":ndim=" + std::to_string(ndim), !g.inDomain(),
            key + " is a sphere-only structure but is in-domain (getCovList and isConsistent) on R^n");
    return;
  }

  // ---- parameter class and specification ---------------------------------------------------------------------------
  static const int CLS[8] = {0, 1, 2, 0, 1, 2, 3, 4};
  Comp c0;
  c0.type  = t;
  c0.key   = key;
  c0.g     = g;
  c0.param = drawParam(r, g, CLS[j % 8], c0.pclass);
  // construction route: 0 Model::createFromParam/addCovFromParam, 1 CovAniso + setters, 2 CovAniso::createAnisotropic[Multi],
  // 3 CovAniso::createIsotropic[Multi] (isotropic structures only)
  int route = r.pick(std::vector<int> {0, 0, 0, 1, 1, 1, 2, 2, 3, 4});
  genGeometry(r, ndim, c0, route == 3);
  c0.sill = genSill(r, nvar);

  const bool inDomain = g.inDomain();
  std::vector<Comp> comps {c0};
  int nstruct = 1;
  if (inDomain && c0.pclass != "zero" && c0.pclass != "max")
  {
    double u = r.u01();
    nstruct  = u < 0.65 ? 1 : (u < 0.9 ? 2 : 3);
  }
  // additional structures: drawn among the in-domain structures of this dimension
  if (nstruct > 1)
  {
    std::vector<ECov> pool;
    for (auto& tt : types)
    {
      if (refcov::sphereOnly(std::string(tt.getKey()))) continue;
      if (gateOf(tt, ndim, nvar).inDomain()) pool.push_back(tt);
    }
    for (int k = 1; k < nstruct; k++)
    {
      Comp ck;
      ck.type  = r.pick(pool);
      ck.key   = std::string(ck.type.getKey());
      ck.g     = gateOf(ck.type, ndim, nvar);
      ck.param = drawParam(r, ck.g, r.irange(0, 2), ck.pclass);
      genGeometry(r, ndim, ck, route == 3);
      ck.sill = genSill(r, nvar);
      comps.push_back(ck);
    }
  }
  bool useScales = r.coin(0.25);
  int layout     = r.irange(0, 4);
  double s = r.coin(0.6) ? r.loguni(0.15, 1.5) : r.loguni(0.02, 5.);
  if (adversarial)
  {
    layout = 1;
    s      = (j % 8 == 0) ? r.uni(0.4, 1.6) : r.uni(0.1, 0.5);
  }
  if (ndim == 1 && layout == 1) layout = 0;
  // every 3rd draw: one pair of distinct points 1e-7 to 1e-3 ranges apart
  const double nearDup = (j % 3 == 1) ? r.loguni(1e-7, 1e-3) : 0.;
  int order = -1;
  for (auto& cc : comps) order = std::max(order, cc.g.minOrder);
  int Nmax = c.thorough() ? (r.coin(0.1) ? 360 : 120) : 72;
  int nmin = order >= 0 ? 24 : 10;
  int n    = r.irange(nmin, std::max(nmin, Nmax / nvar));
  if (adversarial) n = std::max(nmin, Nmax / nvar);
  if (c.thorough() && Nmax == 360) n = std::max(n, 150 / nvar);

  std::string sig = key + ":ndim=" + std::to_string(ndim) + ":nvar=" + std::to_string(nvar) + ":p=" + c0.pclass + ":" +
                    LAYOUT[layout] + ":nstruct=" + std::to_string(nstruct) + ":" + ROUTE[route] + (inDomain ? "" : ":gate") +
                    (adversarial ? ":adv" : "") + (nearDup > 0 ? ":neardup" : "");
  c.setSig(sig);
  c.putn("nvar", nvar);
  c.putn("param", c0.param);
  c.puts("param_class", c0.pclass);
  c.put("ranges", jvec(c0.ranges));
  c.put("angles", jvec(c0.angles));
  c.put("sill", jvec(c0.sill));
  c.puts("layout", LAYOUT[layout]);
  c.putn("spacing_in_ranges", s);
  c.puts("route", ROUTE[route]);
  if (nstruct > 1)
  {
    std::string o;
    for (size_t k = 1; k < comps.size(); k++) o += (k > 1 ? "+" : "") + comps[k].key;
    c.puts("added", o);
  }

  CaseCfg cfg;
  cfg.ndim  = ndim;
  cfg.nvar  = nvar;
  cfg.route = route;
  cfg.NEIG  = 96;
  {
    bool anyParam = false;
    for (auto& cc : comps) anyParam = anyParam || cc.g.hasParam;
    // (at the end 0 of the parameter interval the structures degenerate for reasons of their own: plain keys there)
    if ((route == 2 || route == 3) && anyParam && c0.pclass != "zero")
      cfg.factoryKey = std::string("C03:factory-range:") + (route == 2 ? "createAnisotropic" : "createIsotropic") + (nvar == 1 ? "" : "Multi");
  }

  // CovAniso::setRotationAnglesAndRadius on a structure without a sill-range parametrisation (hasRange() < 0): its
  // failures are kept under one key so that they do not hide under the structures' own keys
  auto routeKey = [&](const std::vector<Comp>& cs) {
    bool intr = false;
    for (auto& cc : cs) intr = intr || cc.g.hasRange < 0;
    return (route == 4 && intr) ? std::string("C03:setRotationAnglesAndRadius:intrinsic") : std::string();
  };
  cfg.routeFiniteKey = routeKey(comps); // (once: the field was not forwarded, K(0) ~ 1e30: the 'finite' oracle)

  // ---- representable scales --------------------------------------------------------------------------------------
  // CovAniso::setRangeIsotropic / setRanges / setScale(s) document (messages "Range is too small", "A scale should not
  // be too small") that ranges and scales below 1e-10 are not honoured; CovFactory::getScaleFactor gives the documented
  // factor range = scadef * scale for (type, param). A requested range whose scale leaves [1e-9, 1e9] is therefore not
  // expected to be honoured: a refusal is then not a finding and the oracles that depend on the range are skipped.
  if (c0.pclass != "zero")
    for (auto& cc : comps)
      if (cc.g.hasRange > 0)
      {
        double sc = CovFactory::getScaleFactor(cc.type, cc.param);
        for (double v : cc.ranges)
          if (!(std::isfinite(sc) && sc > 0 && v / sc > 1e-9 && v / sc < 1e9)) cfg.representable = false;
      }
  const bool endClass = c0.pclass == "zero" || c0.pclass == "max";
  if (c0.pclass == "zero") cfg.representable = false; // decided after the build from the library's own scadef

  // ---- build ----------------------------------------------------------------------------------------------------
  std::unique_ptr<Model> model;
  std::string how, refusal;
  try
  {
    model = buildModel(comps, ndim, nvar, route, useScales, how);
    if (!model) refusal = "null / structure not added";
  }
  catch (const std::exception& e)
  {
    // AException: "Cannot create such covariance function in that context", "Wrong third parameter value", ...
    refusal = std::string("exception: ") + e.what();
  }
  c.puts("built_via", how);

  std::string gateKey = "C03:gate:" + key + ":ndim=" + std::to_string(ndim);
  if (!inDomain)
  {
    // second sweep: out of the declared domain: refusal is fine, otherwise the object must be a valid model
    if (!model)
    {
      c.truth("gate-refused", gateKey, true);
      c.probe("gate-refused");
      return;
    }
    c.probe("gate-accepted");
    cfg.gateSweep = true;
    cfg.gateKey   = gateKey;
  }
  else if (!model && (endClass || !cfg.representable))
  {
    // an end of the parameter interval, or a scale the library documents as too small: refusing is safe
    c.skip(endClass ? "accept:refused-at-parameter-end" : "accept:scale-not-representable");
    return;
  }
  else
  {
    c.truth("accept", "C03:accept:" + key + ":ndim=" + std::to_string(ndim), model != nullptr,
            fmt("in-domain structure with admissible parameters refused via %s: %s (param=%g)", how.c_str(), refusal.c_str(), c0.param));
    if (!model) return;
  }

  // documented scale factors, read from the built structures
  if (c0.pclass == "zero") cfg.representable = true;
  for (size_t k = 0; k < comps.size(); k++)
  {
    comps[k].scadef = model->getCova((int)k)->getScadef();
    if (comps[k].g.hasRange > 0)
      for (double v : comps[k].ranges)
        if (!(std::isfinite(comps[k].scadef) && comps[k].scadef > 0 && v / comps[k].scadef > 1e-9 && v / comps[k].scadef < 1e9))
          cfg.representable = false;
  }

  RefModel rm;
  rm.ndim  = ndim;
  rm.nvar  = nvar;
  rm.comps = comps;
  rm.prepare();

  Pts X = genPoints(r, ndim, n, layout, s, c0);
  if (nearDup > 0 && X.size() > 4)
  {
    int i = r.irange(0, (int)X.size() - 1), k = (i + 1 + r.irange(0, (int)X.size() - 2)) % (int)X.size();
    std::vector<double> dir(ndim);
    double nn = 0;
    for (auto& v : dir) { v = r.normal(); nn += v * v; }
    X[k] = X[i];
    for (int q = 0; q < ndim; q++) X[k][q] += nearDup * c0.ranges[0] * dir[q] / std::sqrt(nn);
  }
  c.putn("n", (double)X.size());

  bool single = comps.size() == 1;
  if (cfg.gateSweep)
  {
    checkModel(r, c, model.get(), rm, X, cfg, true);
    return;
  }
  // sums: failures of the attributable oracles are first looked for in each component alone (same points, same
  // parameters); the sum is reported only when it fails although no component does
  Verdict V = checkModel(r, c, model.get(), rm, X, cfg, single);
  if (single)
  {
    if (V.finite) checkAxes(r, c, model.get(), rm, cfg);
    return;
  }
  Verdict A; // "and" of the components' verdicts
  if (!V.allOk())
  {
    for (size_t k = 0; k < comps.size(); k++)
    {
      std::vector<Comp> one {comps[k]};
      std::string h2;
      std::unique_ptr<Model> m1;
      try
      {
        m1 = buildModel(one, ndim, nvar, route, useScales, h2);
      }
      catch (const std::exception&)
      {
      }
      if (!m1) continue;
      RefModel r1;
      r1.ndim  = ndim;
      r1.nvar  = nvar;
      r1.comps = one;
      r1.prepare();
      CaseCfg cf1 = cfg;
      if (!((route == 2 || route == 3) && one[0].g.hasParam)) cf1.factoryKey = "";
      cf1.routeFiniteKey = routeKey(one);
      c.probe("sum-attribution");
      Verdict Vk = checkModel(r, c, m1.get(), r1, X, cf1, true, &V.Y);
      A.finite   = A.finite && Vk.finite;
      A.pd       = A.pd && Vk.pd;
      A.closed   = A.closed && Vk.closed;
      A.bound    = A.bound && Vk.bound;
    }
  }
  std::string names = comps[0].key;
  for (size_t k = 1; k < comps.size(); k++) names += "+" + comps[k].key;
  c.truth("sum-finite", "C03:finite:sum", V.finite || !A.finite, names + ": the sum has a non-finite entry although every component alone is finite");
  if (V.finite)
  {
    c.truth(order < 0 ? "sum-pd" : "sum-cpd", order < 0 ? "C03:pd-sum" : "C03:cpd-sum", V.pd || !A.pd,
            names + ": the sum is not (conditionally) positive definite on this point set although every component alone is");
    c.truth("sum-bound", "C03:bound:sum", V.bound || !A.bound, names + ": |C(h)| > C(0) for the sum although it holds for every component");
    c.truth("sum-closed-form", "C03:closed-form:sum", V.closed || !A.closed,
            names + ": the sum differs from the sum of the published closed forms although every component alone agrees");
  }
}

int main(int argc, char** argv) { return run_main(argc, argv, "C03", run_case); }
