#!/usr/bin/env python3
"""Promote every staged mutant that is confirmed (confirm.json) and has a detection log in /tmp/mutres (or the directory given)."""
import glob, json, os, subprocess, sys
V = os.path.dirname(os.path.dirname(os.path.abspath(__file__)))
res = sys.argv[1] if len(sys.argv) > 1 else "/tmp/mutres"
for d in sorted(glob.glob(os.path.join(V, "seeded", "staging", "*"))):
    mid = os.path.basename(d)
    cf = os.path.join(d, "confirm.json")
    if not os.path.exists(cf) or not json.load(open(cf)).get("confirmed"):
        print(mid, "not confirmed (yet)"); continue
    prop = mid.split("_")[0].upper()
    log = os.path.join(res, "%s_%s.log" % (mid, prop))
    if not os.path.exists(log):
        print(mid, "no detection log"); continue
    subprocess.run([sys.executable, os.path.join(V, "lib", "promote_mutant.py"), mid, log])
