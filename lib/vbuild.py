"""Build orchestration: sanitizer flavours of /repo (static lib) and harness executables.

Everything lives under /verif/.build (git-ignored) and is rebuilt from /repo's current working tree:
ninja tracks sources, headers and flags, so an edited file under /repo is recompiled on the next call.
"""
import fcntl
import hashlib
import os
import subprocess
import sys
import time

VERIF = os.path.dirname(os.path.dirname(os.path.abspath(__file__)))
REPO = os.environ.get("VERIF_REPO", "/repo")
BUILD = os.environ.get("VERIF_BUILD", os.path.join(VERIF, ".build"))
NCPU = os.cpu_count() or 4

COMMON = "-w -O1 -g1 -fno-omit-frame-pointer -DGSTLEARN_VERIF"
FLAVOURS = {
    "asan": {
        # signed-integer-overflow / float-cast-overflow recover (advisory, see DESIGN 5.5); the rest is fatal
        "cxx": COMMON + " -fsanitize=address,undefined -fno-sanitize=object-size"
               " -fno-sanitize-recover=all -fsanitize-recover=signed-integer-overflow,float-cast-overflow"
               " -D_GLIBCXX_SANITIZE_VECTOR",
        "c": "-w -O1 -g1 -fno-omit-frame-pointer -fsanitize=address,undefined -fno-sanitize=object-size",
        "link": "",
    },
    "tsan": {
        "cxx": COMMON + " -fsanitize=thread -fopenmp",
        "c": "-w -O1 -g1 -fno-omit-frame-pointer -fsanitize=thread",
        "link": "-fopenmp",
    },
}


class BuildError(Exception):
    pass


def _run(cmd, log, cwd=None):
    with open(log, "ab") as f:
        f.write(("\n$ " + " ".join(cmd) + "\n").encode())
        f.flush()
        r = subprocess.run(cmd, stdout=f, stderr=subprocess.STDOUT, cwd=cwd)
    return r.returncode


class Lock:
    def __init__(self, path):
        self.path = path

    def __enter__(self):
        os.makedirs(os.path.dirname(self.path), exist_ok=True)
        self.f = open(self.path, "w")
        fcntl.flock(self.f, fcntl.LOCK_EX)
        return self

    def __exit__(self, *a):
        fcntl.flock(self.f, fcntl.LOCK_UN)
        self.f.close()


def flavour_dir(flavour):
    return os.path.join(BUILD, flavour)


def build_lib(flavour, quiet=True):
    """Configure (once) and ninja-build the static library of one flavour. Returns the build dir."""
    fl = FLAVOURS[flavour]
    d = flavour_dir(flavour)
    os.makedirs(d, exist_ok=True)
    log = os.path.join(d, "build.log")
    with Lock(os.path.join(BUILD, flavour + ".lock")):
        stamp = os.path.join(d, "configured.flags")
        want = fl["cxx"] + "|" + fl["c"] + "|" + REPO
        have = open(stamp).read() if os.path.exists(stamp) else ""
        if have != want or not os.path.exists(os.path.join(d, "build.ninja")):
            cmd = ["cmake", "-S", REPO, "-B", d, "-G", "Ninja",
                   "-DCMAKE_BUILD_TYPE=RelWithDebInfo",
                   "-DCMAKE_CXX_COMPILER=clang++-14", "-DCMAKE_C_COMPILER=clang-14",
                   "-DCMAKE_CXX_FLAGS=" + fl["cxx"], "-DCMAKE_C_FLAGS=" + fl["c"],
                   "-DCMAKE_CXX_FLAGS_RELWITHDEBINFO=", "-DCMAKE_C_FLAGS_RELWITHDEBINFO="]
            if _run(cmd, log) != 0:
                raise BuildError("cmake configure failed for %s, see %s" % (flavour, log))
            open(stamp, "w").write(want)
        t0 = time.time()
        if _run(["ninja", "-C", d, "-j", str(NCPU), "static"], log) != 0:
            raise BuildError("ninja failed for %s, see %s" % (flavour, log))
        if not quiet:
            print("[vbuild] %s library up to date (%.0fs)" % (flavour, time.time() - t0))
    return d


def lib_files(flavour):
    d = flavour_dir(flavour)
    return [os.path.join(d, "RelWithDebInfo", "libgstlearn.a"),
            os.path.join(d, "3rd-party", "csparse", "libcsparse.a"),
            os.path.join(d, "3rd-party", "gmtsph", "libgmtsph.a")]


def _mtime(p):
    try:
        return os.stat(p).st_mtime
    except OSError:
        return 0.0


def build_harness(name, flavour="asan"):
    """Compile harness/<name>.cpp against the flavour's static library. Returns the executable path."""
    fl = FLAVOURS[flavour]
    d = flavour_dir(flavour)
    src = os.path.join(VERIF, "harness", name + ".cpp")
    out = os.path.join(d, "harness", name)
    os.makedirs(os.path.dirname(out), exist_ok=True)
    log = os.path.join(d, "harness", name + ".log")
    deps = [src] + lib_files(flavour)
    cdir = os.path.join(VERIF, "harness", "common")
    deps += [os.path.join(cdir, f) for f in os.listdir(cdir)]
    with Lock(os.path.join(BUILD, flavour + "." + name + ".lock")):
        # the static library embeds every /repo header change that matters to the library; the harness itself
        # includes /repo headers too, so it is re-linked whenever the library archive is newer.
        hdr_stamp = _newest_header()
        if os.path.exists(out) and _mtime(out) > max([_mtime(p) for p in deps] + [hdr_stamp]):
            return out
        cmd = ["clang++-14", "-std=c++20"] + fl["cxx"].split() + ["-fopenmp" if flavour == "tsan" else "-fopenmp",
               "-DGSTLEARN_STATIC_DEFINE", "-I" + os.path.join(REPO, "include"), "-I" + d,
               "-I/usr/include/eigen3", "-I" + os.path.join(VERIF, "harness"),
               "-I" + os.path.join(REPO, "3rd-party", "csparse"),
               src, "-o", out + ".tmp"] + lib_files(flavour) + ["-lnlopt", "-rdynamic", "-ldl"]
        if os.path.exists(log):
            os.remove(log)
        if _run(cmd, log) != 0:
            raise BuildError("harness %s (%s) failed to compile, see %s" % (name, flavour, log))
        os.replace(out + ".tmp", out)
    return out


_hdr_cache = None


def _newest_header():
    global _hdr_cache
    if _hdr_cache is None:
        m = 0.0
        for root, _, files in os.walk(os.path.join(REPO, "include")):
            for f in files:
                m = max(m, _mtime(os.path.join(root, f)))
        _hdr_cache = m
    return _hdr_cache


if __name__ == "__main__":
    fl = sys.argv[1] if len(sys.argv) > 1 else "asan"
    build_lib(fl, quiet=False)
    for h in sys.argv[2:]:
        print(build_harness(h, fl))
