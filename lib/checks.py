"""Per-property check configuration (harness parts, case counts, minimum observations, evidence text)."""

ASSUME_COMMON = [
    "clang-14 ASan/UBSan runtimes report what they are documented to report (red-zone tools: no intra-object / far OOB)",
    "harness reference oracles (harness/common/ref_*.hpp, long double, naive algorithms) are correct",
    "case generators only sample the quantified space; unreached inputs are not covered",
]

CHECKS = {}


def reg(pid, title, parts, rule, level="exploration", require=None, assumptions=None, **kw):
    CHECKS[pid] = dict(title=title, parts=parts, rule=rule, level=level, require=require or {},
                       assumptions=ASSUME_COMMON + (assumptions or []), **kw)


# every lib/checks_d/cXX.py registers its property with reg(...)
import glob as _glob, os as _os
for _f in sorted(_glob.glob(_os.path.join(_os.path.dirname(_os.path.abspath(__file__)), "checks_d", "c*.py"))):
    exec(compile(open(_f).read(), _f, "exec"), {"reg": reg, "ASSUME_COMMON": ASSUME_COMMON})
