"""Per-property check configuration (harness parts, case counts, minimum observations, evidence text)."""

ASSUME_COMMON = [
    "clang-14 ASan/UBSan runtimes report what they are documented to report (red-zone tools: no intra-object / far OOB)",
    "harness reference oracles (harness/common/ref_*.hpp, long double, naive algorithms) are correct",
    "case generators only sample the quantified space; unreached inputs are not covered",
]

CHECKS = {}


def reg(pid, title, parts, rule, level="exploration", require=None, assumptions=None, **kw):
    CHECKS[pid] = dict(title=title, parts=parts, rule=rule, level=level, require=require or {},
                       assumptions=ASSUME_COMMON + (assumptions or []), **kw)


# every lib/checks_d/cXX.py registers its property with reg(...)
import glob as _glob, os as _os
for _f in sorted(_glob.glob(_os.path.join(_os.path.dirname(_os.path.abspath(__file__)), "checks_d", "c*.py"))):
    exec(compile(open(_f).read(), _f, "exec"), {"reg": reg, "ASSUME_COMMON": ASSUME_COMMON})


# Library reach probes (GV_PROBE in /repo, guard GSTLEARN_VERIF) that each check must have hit at least once, else the
# run is INCONCLUSIVE: they show that the workload actually drove the mechanisms the property is anchored in.
# (Checks whose cases run in forked children - C08, C09 - cannot report library probes: their counters die with the child.)
REQUIRED_PROBES = {
    "C01": ["krig.lhsIsoToHetero", "krig.rhsIsoToHetero", "krig.rhsCalculBlock", "krig.dualCalcul", "neigh.moving",
            "neigh.movingSectorNsmax", "neigh.movingSelect"],
    "C02": ["krig.lhsIsoToHetero", "krig.rhsIsoToHetero", "krig.rhsCalculBlock", "krig.xvalidUnique", "neigh.moving"],
    "C03": ["cov.evalCovMatrixOptim", "cov.evalCovMatrixSymmetricOptim", "cov.evalOptimInPlace"],
    "C04": ["cov.evalCovMatrixOptim", "cov.evalCovMatrixSymmetricOptim", "cov.evalOptimInPlace", "krig.xvalidUnique",
            "krig.bayesPreCalculations", "neigh.moving", "krig.rhsCalculBlock"],
    "C05": ["neigh.moving", "krig.lhsIsoToHetero", "krig.xvalidUnique", "vario.generalSolution1", "vario.generalSolution2",
            "simtub.simulatePoint", "simtub.difference", "poly.inside", "pca.dbZ2F", "anam.hermite.fit"],
    "C06": ["neigh.moving", "neigh.movingSectorNsmax", "neigh.movingSelect"],
    "C10": ["cov.evalCovMatrixOptim", "neigh.moving", "vario.generalSolution1", "krig.dualCalcul"],
    "C12": ["vario.generalSolution1", "vario.generalSolution2", "vario.onGridSolution", "vario.genOnGridSolution"],
    "C13": ["simtub.simulatePoint", "simtub.difference", "spde.precisionOp.addEvalPower", "neigh.moving"],
    "C14": ["simtub.simulatePoint", "spde.precisionOp.addEvalPower", "spde.chebychev.evalOp", "h.simtub-grid-masked"],
    "C15": ["spde.chebychev.evalOp", "spde.precisionOp.addEvalPower", "mesh.turbo.resetProjMatrix",
            "mesh.standard.resetProjMatrix"],
    "C16": ["grid.coordinateToIndices"],
    "C17": ["fit.foxleg_f", "fit.goulard"],
    "C18": ["anam.hermite.fit", "anam.hermite.rawToTransformValue", "pca.calculateEigen", "pca.dbZ2F"],
    "C19": ["calc.rollback.kriging", "calc.rollback.simtub", "calc.rollback.migrate", "calc.rollback.statistics",
            "calc.cleanVariableDb"],
    "C20": ["poly.inside"],
}
for _pid, _pr in REQUIRED_PROBES.items():
    if _pid in CHECKS:
        _req = CHECKS[_pid].setdefault("require", {})
        _req["probes"] = sorted(set(_req.get("probes", []) + _pr))
