#!/bin/bash
# stage_round2.sh <worktree> <Cxx> : copy <worktree>/MUTANTS/<Cxx>/m1..m3 to seeded/staging/cxx_m4..m6
W=$1; P=$2; p=$(echo $P | tr A-Z a-z)
for i in 1 2 3; do
  d=/verif/seeded/staging/${p}_m$((i+3)); mkdir -p $d
  cp $W/MUTANTS/$P/m$i/patch.diff $W/MUTANTS/$P/m$i/demo.cpp $W/MUTANTS/$P/m$i/README.md $d/ || echo "MISSING in $W/MUTANTS/$P/m$i"
done
ls /verif/seeded/staging | grep "^${p}_" | tr '\n' ' '; echo
