#!/usr/bin/env python3
"""Regenerate the machine-written tables of DESIGN.md (between the BEGIN/END markers):
   * fix: commits of /repo and the findings they close,
   * known findings per property (fixed / open),
   * seeded changes (/verif/seeded/<id>/meta.json) and which check catches them."""
import glob, json, os, re, subprocess

VERIF = os.path.dirname(os.path.dirname(os.path.abspath(__file__)))


def git(*a):
    return subprocess.run(["git", "-C", "/repo"] + list(a), capture_output=True, text=True).stdout


def table_findings():
    d = json.load(open(os.path.join(VERIF, "known_findings.json")))["findings"]
    props = sorted(set(e["property"] for e in d))
    out = ["| property | fixed (by a `fix:` commit) | open (recorded, not repaired) |", "|---|---|---|"]
    for p in props:
        fx = [e for e in d if e["property"] == p and e["status"] == "fixed"]
        op = [e for e in d if e["property"] == p and e["status"] == "open"]
        out.append("| %s | %d | %d |" % (p, len(fx), len(op)))
    out.append("| **total** | **%d** | **%d** |" % (sum(1 for e in d if e["status"] == "fixed"),
                                                 sum(1 for e in d if e["status"] == "open")))
    return "\n".join(out)


def table_fixes():
    log = git("log", "--reverse", "--format=%h\t%s").strip().splitlines()
    rows = [l.split("\t", 1) for l in log if "\tfix:" in l or "\trevert" in l.lower()]
    out = ["| commit | subject |", "|---|---|"]
    for h, s in rows:
        out.append("| `%s` | %s |" % (h, s.replace("|", "\\|")))
    return "\n".join(out), len([1 for h, s in rows if s.startswith("fix:")])


def table_seeded():
    out = ["| id | property | change (file: what) | needs | caught by | witness key(s) |", "|---|---|---|---|---|---|"]
    n = 0
    for f in sorted(glob.glob(os.path.join(VERIF, "seeded", "*", "meta.json"))):
        m = json.load(open(f))
        n += 1
        out.append("| %s | %s | %s | %s | %s | %s |" % (
            m["id"], m["property"], m["change"].replace("|", "\\|"), m["needs"].replace("|", "\\|"),
            m["detection"]["result"], "; ".join(m["detection"].get("keys", [])[:3]).replace("|", "\\|")))
    return "\n".join(out), n


def table_asbuilt():
    import sys
    sys.path.insert(0, os.path.join(VERIF, "lib"))
    import checks
    claims = json.load(open(os.path.join(VERIF, "lib", "claims.json")))["claimed"]
    kf = json.load(open(os.path.join(VERIF, "known_findings.json")))["findings"]
    seeded = {}
    for f in sorted(glob.glob(os.path.join(VERIF, "seeded", "*", "meta.json"))):
        m = json.load(open(f))
        seeded.setdefault(m["property"], []).append((m["id"], m["detection"]["result"]))
    out = []
    for pid in sorted(checks.CHECKS):
        cfg = checks.CHECKS[pid]
        cl = claims.get(pid, {})
        parts = []
        for pt in cfg["parts"]:
            parts.append("`harness/%s.cpp` (%s; cases quick %s / thorough %s)" % (
                pt["harness"], pt.get("flavour", "asan"), pt["cases"]["quick"], pt["cases"]["thorough"]))
        ev = {}
        try:
            ev = json.load(open(os.path.join(VERIF, "evidence", pid + ".json")))
        except Exception:
            pass
        cov = ev.get("coverage", {}) if isinstance(ev, dict) else {}
        nfix = sum(1 for e in kf if e["property"] == pid and e["status"] == "fixed")
        nopen = sum(1 for e in kf if e["property"] == pid and e["status"] == "open")
        out.append("**%s — %s** (level: %s)" % (pid, cfg["title"], cfg["level"]))
        out.append("")
        out.append("* monitors: " + "; ".join(parts))
        out.append("* technique: " + cl.get("technique", "-"))
        req = cfg.get("require", {})
        out.append("* a run is INCONCLUSIVE (exit 2) unless it observed: >= %s distinct non-trivial signatures; per-oracle minima %s; "
                   "library reach probes %s" % (req.get("distinct", "-"),
                                                json.dumps(req.get("oracles", {}).get("quick", {})).replace('"', ''),
                                                ", ".join("`%s`" % x for x in req.get("probes", [])) or "-"))
        if cov:
            out.append("* last recorded run (%s): %s evaluations, %s distinct signatures" % (
                ev.get("tier", cov.get("tier", "?")), cov.get("evaluations", "?"), cov.get("distinct_nontrivial", "?")))
        out.append("* limits / trusted base: " + cl.get("note", "-"))
        sl = seeded.get(pid, [])
        ndet = sum(1 for _, r in sl if r.startswith("DETECTED"))
        stxt = "%d of %d detected by `bin/vcheck %s` (quick tier): %s" % (ndet, len(sl), pid, ", ".join(i for i, _ in sl)) if sl else "-"
        missed = [i for i, r in sl if not r.startswith("DETECTED")]
        if missed:
            stxt += "; NOT detected: " + ", ".join(missed)
        out.append("* findings: %d fixed, %d open; seeded changes: %s" % (nfix, nopen, stxt))
        out.append("")
    return "\n".join(out)


def main():
    p = os.path.join(VERIF, "DESIGN.md")
    s = open(p).read()
    fixes, nfix = table_fixes()
    seeded, nseed = table_seeded()
    blocks = {"FINDINGS": table_findings(), "FIXES": fixes, "SEEDED": seeded, "ASBUILT": table_asbuilt()}
    for k, v in blocks.items():
        b, e = "<!-- BEGIN %s -->" % k, "<!-- END %s -->" % k
        if b in s and e in s:
            s = s[:s.index(b) + len(b)] + "\n" + v + "\n" + s[s.index(e):]
    open(p, "w").write(s)
    print("fix commits:", nfix, "seeded:", nseed)


if __name__ == "__main__":
    main()
