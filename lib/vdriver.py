"""Check driver: builds, runs harness workers over case ranges, merges their event logs, derives crash keys,
matches known findings, prints verdict lines and writes evidence. Standard library only."""
import concurrent.futures as cf
import hashlib
import json
import os
import re
import shutil
import signal
import subprocess
import sys
import time

import vbuild

VERIF = vbuild.VERIF
# evidence/ and replays/ normally live in /verif; mutant self-tests redirect them (VERIF_OUT) so that they never
# overwrite the evidence of the real tree
OUT = os.environ.get("VERIF_OUT", VERIF)
REPO = vbuild.REPO
NCPU = vbuild.NCPU

ASAN_OPTIONS = ("abort_on_error=1:detect_leaks=0:detect_stack_use_after_return=1:strict_string_checks=1:"
                "allocator_may_return_null=1:handle_abort=1:max_allocation_size_mb=4096")
UBSAN_OPTIONS = "print_stacktrace=1"
TSAN_OPTIONS = "halt_on_error=0:ignore_noninstrumented_modules=1:second_deadlock_stack=1"


def log(msg):
    print(msg, flush=True)


# ------------------------------------------------------------------------------------------------
# running one chunk of cases
# ------------------------------------------------------------------------------------------------
def harness_env(flavour, extra=None):
    env = dict(os.environ)
    env["ASAN_OPTIONS"] = ASAN_OPTIONS
    env["UBSAN_OPTIONS"] = UBSAN_OPTIONS
    env["OMP_NUM_THREADS"] = "1"
    env["ASAN_SYMBOLIZER_PATH"] = "/usr/bin/llvm-symbolizer-14"
    if flavour == "tsan":
        env["TSAN_OPTIONS"] = TSAN_OPTIONS
        env["OMP_TOOL_LIBRARIES"] = "/usr/lib/llvm-14/lib/libarcher.so"
        env["ARCHER_OPTIONS"] = "verbose=0"
        env["KMP_BLOCKTIME"] = "0"  # no spin-waiting: the machine may be oversubscribed
        env["OMP_WAIT_POLICY"] = "passive"
        env.pop("OMP_NUM_THREADS", None)
    if extra:
        env.update(extra)
    return env


def read_events(path):
    ev = []
    if not os.path.exists(path):
        return ev
    with open(path, "r", errors="replace") as f:
        for line in f:
            line = line.strip()
            if not line:
                continue
            try:
                ev.append(json.loads(line))
            except ValueError:
                pass  # torn last line of a killed worker
    return ev


_FRAME = re.compile(r"^\s*#\d+\s+0x[0-9a-f]+\s+(?:in\s+)?(.+?)\s+(/\S+?):(\d+)(?::\d+)?\s*$")


def strip_fn(fn):
    """Function name without argument list / template arguments, so the key survives unrelated edits."""
    out, depth = [], 0
    for ch in fn:
        if ch in "<(":
            depth += 1
        elif ch in ">)":
            depth -= 1
        elif depth == 0:
            out.append(ch)
    s = "".join(out).strip()
    s = re.sub(r"\s+const$", "", s)
    s = s.split(" ")[-1] if " " in s else s
    return s


def crash_key(stderr_text, returncode):
    """(kind, key, excerpt) from the stderr of a dead worker. Advisory (recovering) UBSan reports that precede the
    fatal event are skipped: kind and frames are taken from the fatal report only."""
    lines = stderr_text.splitlines()
    start, kind = None, None
    for i, l in enumerate(lines):
        m = re.search(r"ERROR: (\w+Sanitizer): ([\w-]+)", l)
        if m:
            if m.group(2) == "ABRT":
                continue  # abort() intercepted: the cause (assertion / terminate) is printed just before
            start, kind = i, ("asan-" if m.group(1) == "AddressSanitizer" else m.group(1).lower() + "-") + m.group(2)
            break
        m = re.match(r"^(\S+?):\d+:\d+: runtime error: (.+)$", l)
        if m and not _ADV.match(l):
            what = re.sub(r"0x[0-9a-f]+", "P", m.group(2))
            what = re.sub(r"-?\d+(\.\d+)?(e[+-]?\d+)?", "N", what)
            start, kind = i, "ubsan-" + re.sub(r"[^A-Za-z]+", "-", what).strip("-")[:60]
            break
        if "Assertion `" in l:
            start, kind = i, "assert"
            break
        m = re.search(r"terminate called after throwing an instance of '([^']+)'", l)
        if m:
            start, kind = i, "terminate-" + m.group(1)
            break
    if kind is None:
        start, kind = 0, "exit-%s" % (returncode,)
    # first frame (after the fatal line) whose source is under the repository (not the harness, not system headers)
    fn = "?"
    for line in lines[start:]:
        fm = _FRAME.match(line)
        if fm and (fm.group(2).startswith(REPO + "/src") or fm.group(2).startswith(REPO + "/include")
                   or fm.group(2).startswith(REPO + "/3rd-party")):
            fn = strip_fn(fm.group(1))
            break
    if kind.startswith("terminate") and fn == "?":
        m = re.search(r"what\(\):\s*(.{0,60})", stderr_text)
        if m:
            fn = re.sub(r"[^A-Za-z0-9_:<>=!&|() .-]", "", m.group(1)).strip()
    if fn == "?" and kind == "assert":
        m = re.search(r"Assertion `(.{0,60})", lines[start])
        fn = re.sub(r"[^A-Za-z0-9_:<>=!&|() .-]", "", m.group(1)) if m else "?"
    excerpt = "\n".join(lines[start:start + 30])
    return kind, "crash:%s:%s" % (kind, fn), excerpt


_ADV = re.compile(r"^(\S+?):(\d+):\d+: runtime error: (signed integer overflow|.*outside the range of representable)",
                  re.M)


def advisory_sites(stderr_text):
    out = {}
    for m in _ADV.finditer(stderr_text):
        site = "%s:%s" % (os.path.relpath(m.group(1), REPO) if m.group(1).startswith("/") else m.group(1),
                          "int-overflow" if "signed" in m.group(3) else "float-cast")
        out[site] = out.get(site, 0) + 1
    return out


# worker processes run in their own process groups: make sure none outlives the driver (a driver killed during
# development used to leave workers spinning for hours)
_LIVE = set()


def _kill_live(signum=None, frame=None):
    for pid in list(_LIVE):
        try:
            os.killpg(pid, signal.SIGKILL)
        except OSError:
            pass
    if signum is not None:
        os._exit(2)


import atexit
atexit.register(_kill_live)
try:
    signal.signal(signal.SIGTERM, _kill_live)
    signal.signal(signal.SIGINT, _kill_live)
    signal.signal(signal.SIGHUP, _kill_live)
except ValueError:  # not in the main thread
    pass


def run_chunk(exe, flavour, seed, first, n, tier, rundir, timeout_case, extra_env):
    """Run cases [first, first+n); restart after a crash; returns dict(events, crashes, hangs, advisory)."""
    res = {"events": [], "crashes": [], "hangs": [], "advisory": {}, "tsan": []}
    cur, end = first, first + n
    attempt = 0
    while cur < end:
        attempt += 1
        base = os.path.join(rundir, "c%07d_%d" % (cur, attempt))
        logf, errf = base + ".jsonl", base + ".stderr"
        work = base + ".work"
        os.makedirs(work, exist_ok=True)
        cmd = [exe, str(seed), str(cur), str(end - cur), logf, tier]
        tmo = max(60.0, timeout_case * (end - cur) * 1.0)
        timed_out = False
        with open(errf, "wb") as ef, open(base + ".stdout", "wb") as of:
            p = subprocess.Popen(cmd, stdout=of, stderr=ef, cwd=work, env=harness_env(flavour, extra_env),
                                 start_new_session=True)
            _LIVE.add(p.pid)
            try:
                rc = p.wait(timeout=tmo)
            except subprocess.TimeoutExpired:
                timed_out = True
                try:
                    os.killpg(p.pid, signal.SIGKILL)
                except OSError:
                    pass
                rc = p.wait()
            finally:
                _LIVE.discard(p.pid)
        ev = read_events(logf)
        res["events"].extend(ev)
        with open(errf, "r", errors="replace") as f:
            err = f.read()
        for k, v in advisory_sites(err).items():
            res["advisory"][k] = res["advisory"].get(k, 0) + v
        if flavour == "tsan":
            res["tsan"].extend(tsan_reports(err))
        begun = [e["case"] for e in ev if e.get("t") == "B"]
        ended = set(e["case"] for e in ev if e.get("t") == "E")
        open_case = None
        for c in begun:
            if c not in ended:
                open_case = c
        shutil.rmtree(work, ignore_errors=True)
        try:
            os.remove(base + ".stdout")
        except OSError:
            pass
        if rc == 0 and not timed_out and open_case is None:
            if not err.strip():
                os.remove(errf)
            break
        if open_case is None:
            # died outside any case (startup/teardown): harness failure
            res["crashes"].append({"case": None, "kind": "harness", "key": "harness:died-outside-case rc=%s" % rc,
                                   "excerpt": err[-2000:], "stderr": errf})
            break
        if timed_out:
            res["hangs"].append({"case": open_case, "stderr": errf})
        else:
            kind, key, excerpt = crash_key(err, rc)
            res["crashes"].append({"case": open_case, "kind": kind, "key": key, "excerpt": excerpt, "stderr": errf})
        cur = open_case + 1
    return res


def tsan_reports(err):
    reps = []
    blocks = err.split("==================")
    for b in blocks:
        if "WARNING: ThreadSanitizer" not in b:
            continue
        m = re.search(r"WARNING: ThreadSanitizer: ([^\(\n]+)", b)
        kind = m.group(1).strip() if m else "?"
        frames = []
        for line in b.splitlines():
            fm = _FRAME.match(line)
            if fm and fm.group(2).startswith(REPO):
                frames.append(strip_fn(fm.group(1)))
        key = "tsan:%s:%s" % (kind.replace(" ", "-"), "|".join(sorted(set(frames[:4]))) or "?")
        reps.append({"key": key, "excerpt": b.strip()[:3000]})
    return reps


# ------------------------------------------------------------------------------------------------
# known findings
# ------------------------------------------------------------------------------------------------
def load_known():
    p = os.path.join(VERIF, "known_findings.json")
    if not os.path.exists(p):
        return []
    return json.load(open(p))["findings"]


def known_open(known, pid, key):
    for k in known:
        if k["property"] == pid and k["status"] == "open" and k["key"] == key:
            return k
    return None


# ------------------------------------------------------------------------------------------------
# main entry
# ------------------------------------------------------------------------------------------------
def run_check(pid, cfg, tier, seed, replay=None):
    t0 = time.time()
    known = load_known()
    rundir = os.path.join(vbuild.BUILD, "run", pid + "_" + tier)
    shutil.rmtree(rundir, ignore_errors=True)
    os.makedirs(rundir, exist_ok=True)
    os.makedirs(os.path.join(OUT, "evidence"), exist_ok=True)
    os.makedirs(os.path.join(OUT, "replays"), exist_ok=True)
    for f in os.listdir(os.path.join(OUT, "replays")):  # witnesses of earlier runs of this property are stale
        if f.startswith(pid + "_"):
            os.remove(os.path.join(OUT, "replays", f))

    # ---- build
    try:
        flavours = sorted(set(p.get("flavour", "asan") for p in cfg["parts"]))
        for fl in flavours:
            vbuild.build_lib(fl)
        exes = {}
        for part in cfg["parts"]:
            fl = part.get("flavour", "asan")
            exes[(part["harness"], fl)] = vbuild.build_harness(part["harness"], fl)
    except vbuild.BuildError as e:
        log("INCONCLUSIVE property=%s build failure: %s" % (pid, e))
        return 2

    # ---- run
    all_events, crashes, hangs, advisory, tsan = [], [], [], {}, []
    part_info = []
    for part in cfg["parts"]:
        fl = part.get("flavour", "asan")
        exe = exes[(part["harness"], fl)]
        ncases = part["cases"][tier]
        nworkers = part.get("workers", NCPU)
        chunk = part.get("chunk") or max(1, -(-ncases // (nworkers * 4)))
        prd = os.path.join(rundir, part["harness"] + "_" + fl)
        os.makedirs(prd, exist_ok=True)
        jobs = []
        with cf.ThreadPoolExecutor(max_workers=nworkers) as ex:
            c = 0
            while c < ncases:
                n = min(chunk, ncases - c)
                jobs.append(ex.submit(run_chunk, exe, fl, seed, c, n, tier, prd,
                                      part.get("timeout_case", 60.0), part.get("env")))
                c += n
            for j in jobs:
                r = j.result()
                for e in r["events"]:
                    e["part"] = part["harness"]
                all_events.extend(r["events"])
                for x in r["crashes"] + r["hangs"]:
                    x["part"] = part["harness"]
                    x["flavour"] = fl
                crashes.extend(r["crashes"])
                hangs.extend(r["hangs"])
                tsan.extend(r["tsan"])
                for k, v in r["advisory"].items():
                    advisory[k] = advisory.get(k, 0) + v
        part_info.append({"harness": part["harness"], "flavour": fl, "cases": ncases})

    # ---- hangs: re-run once in isolation
    confirmed_hangs = []
    for h in hangs:
        part = [p for p in cfg["parts"] if p["harness"] == h["part"]][0]
        exe = exes[(h["part"], h["flavour"])]
        r = run_chunk(exe, h["flavour"], seed, h["case"], 1, tier, os.path.join(rundir, "rehang"),
                      part.get("timeout_case", 60.0) * 4, part.get("env"))
        if r["hangs"]:
            confirmed_hangs.append(h)
        else:
            for e in r["events"]:
                e["part"] = h["part"]
            all_events.extend(r["events"])
            crashes.extend(r["crashes"])

    # ---- aggregate
    ends = [e for e in all_events if e.get("t") == "E"]
    fails = [e for e in all_events if e.get("t") == "F"]
    probes = {}
    for e in all_events:
        if e.get("t") == "P":
            for k, v in e["probes"].items():
                probes[k] = probes.get(k, 0) + v
    oracles, skips = {}, {}
    sigs = set()
    for e in ends:
        if e.get("nt"):
            sigs.add(e.get("part", "") + "|" + e.get("sig", ""))
        for o, st in e.get("or", {}).items():
            a = oracles.setdefault(o, {"evaluated": 0, "max_err": 0.0, "max_err_over_tol": 0.0})
            a["evaluated"] += st["n"]
            if isinstance(st["max"], (int, float)):
                a["max_err"] = max(a["max_err"], st["max"])
            if isinstance(st["maxr"], (int, float)):
                a["max_err_over_tol"] = max(a["max_err_over_tol"], st["maxr"])
        for s, n in e.get("skip", {}).items():
            skips[s] = skips.get(s, 0) + n

    # ---- violations by key
    viol = {}  # key -> first witness
    case_sig = {(e.get("part"), e["case"]): e.get("sig") for e in ends}
    for f in fails:
        key = f["key"]
        if key not in viol:
            viol[key] = {"kind": "oracle", "part": f.get("part"), "case": f["case"], "oracle": f["o"],
                         "err": f["err"], "tol": f["tol"], "detail": f["d"], "count": 0}
        viol[key]["count"] += 1
    harness_fail = []
    for c in crashes:
        if c["kind"] == "harness":
            harness_fail.append(c)
            continue
        key = c["key"]
        if key not in viol:
            viol[key] = {"kind": "crash", "part": c["part"], "case": c["case"], "detail": c["excerpt"], "count": 0,
                         "stderr": c["stderr"]}
        viol[key]["count"] += 1
    for h in confirmed_hangs:
        key = "hang:%s:case" % h["part"]
        if key not in viol:
            viol[key] = {"kind": "hang", "part": h["part"], "case": h["case"], "detail": "watchdog fired twice",
                         "count": 0}
        viol[key]["count"] += 1
    tsan_keys = {}
    for t in tsan:
        tsan_keys.setdefault(t["key"], t)
    for key, t in tsan_keys.items():
        if key not in viol:
            viol[key] = {"kind": "tsan", "part": "tsan", "case": None, "detail": t["excerpt"], "count": 1}

    new_viol, known_hits = [], []
    for key, w in sorted(viol.items()):
        k = known_open(known, pid, key)
        if k:
            known_hits.append((key, k, w))
        else:
            new_viol.append((key, w))

    wall = time.time() - t0
    nevals = len(ends) + len([c for c in crashes if c["kind"] != "harness"]) + len(confirmed_hangs)

    # ---- minimum observation requirements
    inconclusive = []
    if harness_fail:
        inconclusive.append("harness died outside a case: %s" % harness_fail[0]["excerpt"][-300:])
    req = cfg.get("require", {})
    ntotal = sum(p["cases"] for p in part_info)
    if nevals < ntotal:
        inconclusive.append("only %d of %d cases completed" % (nevals, ntotal))
    for o, nmin in req.get("oracles", {}).get(tier, req.get("oracles", {}).get("quick", {})).items():
        got = oracles.get(o, {}).get("evaluated", 0)
        if got < nmin:
            inconclusive.append("oracle %s evaluated %d < %d times" % (o, got, nmin))
    for pr in req.get("probes", []):
        if probes.get(pr, 0) < 1:
            inconclusive.append("required probe %s never reached" % pr)
    if len(sigs) < req.get("distinct", 2):
        inconclusive.append("only %d distinct non-trivial configurations" % len(sigs))

    # ---- samples
    samples = []
    seen = set()
    for e in ends:
        if e.get("nt") and e.get("sample") and e.get("sig") not in seen:
            seen.add(e.get("sig"))
            samples.append({"harness": e.get("part"), "case": e["case"], "signature": e.get("sig"),
                            "inputs": e["sample"], "oracles": e.get("or")})
        if len(samples) >= 4:
            break
    if not samples:
        for e in ends[:3]:
            samples.append({"harness": e.get("part"), "case": e["case"], "signature": e.get("sig"),
                            "oracles": e.get("or")})

    # ---- output
    for key, k, w in known_hits:
        log("KNOWN-FINDING: property=%s %s %s (seen %d times this run)" % (pid, key, k.get("what", ""), w["count"]))
    rc = 0
    replay_paths = []
    for key, w in new_viol:
        h = hashlib.sha1(key.encode()).hexdigest()[:10]
        rp = os.path.join(OUT, "replays", "%s_%s.json" % (pid, h))
        part = [p for p in cfg["parts"] if p["harness"] == w["part"]]
        doc = {"property": pid, "key": key, "tier": tier, "seed": seed, "harness": w["part"],
               "flavour": part[0].get("flavour", "asan") if part else "asan", "case": w["case"],
               "signature": case_sig.get((w["part"], w["case"])), "witness": w,
               "replay_cmd": "bin/vcheck %s --replay %s" % (pid, rp)}
        with open(rp, "w") as f:
            json.dump(doc, f, indent=1)
        log("VIOLATION property=%s replay=%s key=%s count=%d %s" % (pid, rp, key, w["count"],
                                                                    str(w.get("detail", ""))[:300].replace("\n", " | ")))
        replay_paths.append(rp)
        rc = 1
    if rc == 0 and inconclusive:
        rc = 2
        for m in inconclusive:
            log("INCONCLUSIVE property=%s %s" % (pid, m))

    evidence = {
        "property_id": pid, "tier": tier, "seed": seed, "level": cfg["level"],
        "coverage": {
            "evaluations": nevals,
            "distinct_nontrivial": len(sigs),
            "rule": cfg["rule"],
            "samples": samples,
            "parts": part_info,
            "oracles": oracles,
            "skipped": skips,
            "reach_probes": probes,
            "sanitizers": {"asan_ubsan_fatal_reports": len([c for c in crashes if c["kind"] != "harness"]),
                           "ubsan_advisory_sites": advisory,
                           "tsan_reports_distinct": len(tsan_keys)},
            "crash_keys": sorted(set(c["key"] for c in crashes)),
            "hangs_confirmed": len(confirmed_hangs),
            "known_findings_seen": [k for k, _, _ in known_hits],
            "verdict": "violated" if rc == 1 else ("inconclusive" if rc == 2 else "held on what was observed"),
            "inconclusive_reasons": inconclusive,
        },
        "assumptions": cfg.get("assumptions", []),
        "wall_s": round(wall, 2),
        "violations": len(new_viol),
    }
    if cfg.get("exhaustive"):
        evidence["coverage"]["exhaustive"] = True
    extra = cfg.get("evidence_extra")
    if extra:
        evidence["coverage"].update(extra(all_events))
    with open(os.path.join(OUT, "evidence", pid + ".json"), "w") as f:
        json.dump(evidence, f, indent=1)
    log("%s %s tier=%s seed=%d: cases=%d distinct=%d oracle-evals=%d failures=%d crashes=%d known=%d wall=%.0fs -> %s"
        % (pid, cfg["title"], tier, seed, nevals, len(sigs), sum(o["evaluated"] for o in oracles.values()),
           len(fails), len(crashes), len(known_hits), wall, evidence["coverage"]["verdict"]))
    return rc


def run_replay(pid, cfg, path):
    doc = json.load(open(path))
    fl = doc.get("flavour", "asan")
    try:
        vbuild.build_lib(fl)
        exe = vbuild.build_harness(doc["harness"], fl)
    except vbuild.BuildError as e:
        log("INCONCLUSIVE build failure: %s" % e)
        return 2
    if doc["case"] is None:
        log("replay: witness has no case index (whole-run report); re-run the check")
        return 2
    rundir = os.path.join(vbuild.BUILD, "run", pid + "_replay")
    shutil.rmtree(rundir, ignore_errors=True)
    os.makedirs(rundir)
    logf = os.path.join(rundir, "replay.jsonl")
    part = [p for p in cfg["parts"] if p["harness"] == doc["harness"]]
    env = harness_env(fl, part[0].get("env") if part else None)
    p = subprocess.run([exe, str(doc["seed"]), str(doc["case"]), "1", logf, doc["tier"], "-v"], cwd=rundir, env=env)
    ev = read_events(logf)
    fails = [e for e in ev if e.get("t") == "F"]
    ended = [e for e in ev if e.get("t") == "E"]
    for f in fails:
        log("replay: FAIL %s key=%s err=%s tol=%s %s" % (f["o"], f["key"], f["err"], f["tol"], f["d"]))
    if p.returncode != 0 or not ended:
        log("replay: process died in the case (rc=%s)" % p.returncode)
        return 1
    if fails:
        return 1
    log("replay: case passes on the current tree")
    return 0
