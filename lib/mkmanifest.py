#!/usr/bin/env python3
"""Regenerate /verif/MANIFEST.json from lib/checks*.py and lib/claims.json (the list of vetted, claimed properties)."""
import json, os, subprocess, sys
sys.path.insert(0, os.path.dirname(os.path.abspath(__file__)))
import checks

VERIF = os.path.dirname(os.path.dirname(os.path.abspath(__file__)))
claims = json.load(open(os.path.join(VERIF, "lib", "claims.json")))
props = [json.loads(l) for l in open(os.path.join(VERIF, "properties.jsonl"))]

hook_commits = subprocess.run(["git", "-C", "/repo", "log", "--format=%h %s", "--grep=^verif hooks"], capture_output=True,
                              text=True).stdout.strip().splitlines()
m = {
    "version": 1,
    "setup_cmd": "bin/vsetup",
    "hooks": {
        "guard": "GSTLEARN_VERIF",
        "enable": "-DGSTLEARN_VERIF in CMAKE_CXX_FLAGS of the sanitizer flavour trees /verif/.build/{asan,tsan} "
                  "(lib/vbuild.py); the reference build /repo/_build never defines it",
        "baseline_off_cmd": "bin/vbaseline",
        "source_commits": [c.split()[0] for c in hook_commits],
        "add_only": True,
    },
    "engines": [
        {"name": "asan-monitors", "path": "lib/vdriver.py + harness/*.cpp on .build/asan",
         "serves_properties": sorted(claims["claimed"].keys()),
         "kind_free_text": "generated workloads on the real library built with clang-14 ASan+UBSan (assertions on, "
                           "_GLIBCXX_SANITIZE_VECTOR), independent reference/differential/metamorphic/invariant oracles "
                           "evaluated in the harness, worker restart on crash, crash keys from sanitizer reports"},
        {"name": "tsan-threads", "path": "harness/c11_threads.cpp on .build/tsan", "serves_properties": ["C11"],
         "kind_free_text": "clang-14 ThreadSanitizer + libomp + Archer, thread-count sweep 1..16"},
    ],
    "checks": [],
    "notes": "Every check rebuilds the static sanitizer flavours from /repo's working tree (ninja, incremental) before "
             "running. Exit 0 held / 1 VIOLATION / 2 inconclusive (build or harness failure, too few observations). "
             "Known findings: known_findings.json. Seeded mutants: seeded/.",
    "not_applicable": [],
}
for p in props:
    pid = p["id"]
    if pid in claims["claimed"] and pid in checks.CHECKS:
        cl = claims["claimed"][pid]
        cfg = checks.CHECKS[pid]
        m["checks"].append({
            "property_id": pid,
            "quick_cmd": "bin/vcheck %s --tier quick" % pid,
            "thorough_cmd": "bin/vcheck %s --tier thorough" % pid,
            "evidence_file": "evidence/%s.json" % pid,
            "replay_cmd_template": "bin/vcheck %s --replay {path}" % pid,
            "engine": cl.get("engine", "asan-monitors"),
            "level_claimed": {"category": cfg["level"], "text": cl["text"], "design_ref": cl.get("design_ref", "DESIGN.md section 6, " + pid)},
            "level_note": cl["note"],
            "technique": cl["technique"],
        })
    else:
        m["not_applicable"].append({"property_id": pid, "reason": claims["pending"].get(
            pid, "monitor not built or not yet calibrated to silence on the unchanged tree (DESIGN.md section 6); not claimed")})
json.dump(m, open(os.path.join(VERIF, "MANIFEST.json"), "w"), indent=1)
print("claimed:", [c["property_id"] for c in m["checks"]])
