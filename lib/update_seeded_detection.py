#!/usr/bin/env python3
"""update_seeded_detection.py <dir with <id>.log files written by bin/vmutant>: refresh the 'detection' block of every
seeded/<id>/meta.json from the last regression run of all seeded changes against the final harnesses."""
import glob, json, os, re, sys
V = os.path.dirname(os.path.dirname(os.path.abspath(__file__)))
logdir = sys.argv[1]
n = nd = 0
for f in sorted(glob.glob(os.path.join(V, "seeded", "*", "meta.json"))):
    m = json.load(open(f))
    log = os.path.join(logdir, m["id"] + ".log")
    if not os.path.exists(log):
        continue
    b = open(log, errors="replace").read()
    keys = re.findall(r"^VIOLATION property=(\S+) .*? key=(.*?) count=", b, flags=re.M)
    summ = re.findall(r"^(C\d\d .* -> \w.*)$", b, flags=re.M)
    res = ("DETECTED by bin/vcheck %s (quick, seed 1)" % m["property"]) if "MUTANT DETECTED" in b else (
        "SURVIVED bin/vcheck %s quick" % m["property"] if "MUTANT SURVIVED" in b else "inconclusive")
    m["detection"] = {"result": res, "keys": sorted(set(k for _, k in keys))[:8], "n_new_keys_shown": len(set(k for _, k in keys)),
                      "summary_line": summ[-1][:300] if summ else "",
                      "how": "bin/vmutant: patch applied to a scratch worktree, sanitizer flavours rebuilt from it, quick tier; "
                             "final regression run of all seeded changes against the final harnesses"}
    json.dump(m, open(f, "w"), indent=1)
    n += 1
    nd += res.startswith("DETECTED")
print("updated", n, "detected", nd)
