reg("C15", "SPDE operators, projections and solvers are mutually consistent",
    parts=[dict(harness="c15_spde", cases=dict(quick=600, thorough=6000), timeout_case=60)],
    rule="TODO",
    require=dict(distinct=20))
