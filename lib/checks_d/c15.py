reg("C15", "SPDE operators, projections and solvers are mutually consistent",
    parts=[dict(harness="c15_spde", cases=dict(quick=640, thorough=4000), timeout_case=90)],
    rule="case = one (mesh, model) pair drawn from the case PRNG: mesh kind in {MeshETurbo from nx/dx/x0/angles (optionally "
         "polarized), MeshETurbo from a DbGrid with a selection (masked meshes), MeshETurbo::createFromCova (rotated like the "
         "model, extension cells), MeshEStandard::createFromExternal on a jittered simplicial lattice under a random affine "
         "map with relabelled vertices and randomly oriented elements, MeshEStandard copy of a turbo mesh} x ndim in {1,2,3} "
         "(3..700 vertices quick, ..2500 thorough); model = MATERN (nu with nu+d/2 integer or not -> degree of the precision "
         "polynomial 1..5) or MARKOV with positive user coefficients (1-D/2-D), sill 0.01..100, range from 0.2 cell to 1.5 "
         "domain, anisotropy ratio up to 25 with rotation, optional nugget. On each pair: 6 vectors (normal, unit, constant, "
         "wide dynamic range, affine, end unit) through every PrecisionOp/PrecisionOpCs entry point vs own product with the "
         "entries of getQ(); symmetry / own dense Cholesky / x'Qx / CholeskySparse; ~40 projected points (strictly inside, on "
         "interior facets, on vertices, on the hull, outside near and far; optional selection and undefined Z) ; 1..30 data "
         "in three magnitude classes -> PrecisionOpMultiConditional(Cs) solves, krigingSPDE, krigingSPDENew, "
         "logLikelihoodSPDE in both modes vs an own dense long-double solution when n <= 130 (quick). distinct = distinct "
         "(mesh kind, ndim, covariance type, polynomial degree, integer-alpha flag, range class, polarization) signatures "
         "with at least one non-skipped oracle evaluation",
    level="exploration",
    require=dict(distinct=60,
                 oracles=dict(quick={"matfree-evalDirect": 3000, "Q-vs-formula": 1500, "Q-symmetric": 250, "Q-posdef-chol": 150,
                                     "cholsparse-succeeds": 250, "solve-residual-chol": 700, "proj-affine": 6000, "proj-outside-empty": 600,
                                     "solve-residual-cg": 200, "krig-cg-vs-ref": 100, "krig-chol-vs-ref": 100, "loglik-chol-vs-ref": 100},
                              thorough={"matfree-evalDirect": 40000, "Q-vs-formula": 20000, "Q-symmetric": 3000, "Q-posdef-chol": 1500,
                                        "cholsparse-succeeds": 3000, "solve-residual-chol": 9000, "proj-affine": 80000, "proj-outside-empty": 8000,
                                        "solve-residual-cg": 2500, "krig-cg-vs-ref": 1000, "krig-chol-vs-ref": 1000, "loglik-chol-vs-ref": 1000})),
    assumptions=["the entries of Q, S, the projection matrices and Lambda are read through MatrixSparse::getMatrixToTriplet / getLambdas and "
                 "trusted as the library's statement of those objects; products, Cholesky factors, solves and eigenvalues used as "
                 "references are computed by the harness in long double",
                 "mesh geometry is read through AMesh::getApexCoor / getApex and trusted",
                 "the data-noise variance used by krigingSPDE is max(nugget, 0.01 * total sill) as coded in SPDE::_init",
                 "iterative solves are judged only when the cheap upper bound of cond(Q + A'A/s2) is <= 1e9; a solve passes if the true "
                 "residual meets the coded rule <r,r>/||b|| <= 4e-8 or the relative form ||r|| <= 4e-4 ||b||"])
