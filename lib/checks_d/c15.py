reg("C15", "SPDE operators, projections and solvers are mutually consistent",
    parts=[dict(harness="c15_spde", cases=dict(quick=640, thorough=4000), timeout_case=120)],
    rule="93 % of the cases = one (mesh, model) pair drawn from the case PRNG: mesh kind in {MeshETurbo from nx/dx/x0/angles (optionally "
         "polarized), MeshETurbo from a DbGrid with a selection (masked meshes), MeshETurbo::createFromCova (grid rotated like the "
         "model, extension cells), MeshEStandard::createFromExternal on a jittered simplicial lattice (every element keeps |det| >= 0.1 "
         "lattice units) under a random affine map with relabelled vertices and randomly oriented elements, MeshEStandard copy of a "
         "turbo mesh} x ndim in {1,2,3} (3..700 vertices quick, ..2500 thorough; coordinate offsets up to 1000 cells); model = MATERN "
         "(nu with nu+d/2 integer or not -> degree 1..5 of the precision polynomial, recorded as the path taken) or MARKOV with positive "
         "user coefficients (1-D/2-D only), sill 0.01..100, range from 0.2 cell to 1.5 domain, anisotropy ratio up to 25 with rotation. "
         "On each pair: 6 vectors (normal, unit, constant, wide dynamic range, affine, end unit) through every PrecisionOp/PrecisionOpCs "
         "entry point vs the harness's own product with the entries of getQ() and vs Lambda P(S) Lambda x evaluated by the harness; S "
         "invariants; symmetry / own dense Cholesky (n <= 200) / x'Qx / CholeskySparse solve + log det; ~40 projected points (strictly "
         "inside, on interior facets, on vertices, on the hull, outside near and far; optional selection and undefined Z; brute-force "
         "point location by the harness; a row is required for every point strictly inside and for the border NODES of an unmasked turbo mesh, other points of the hull are only validated when a row exists); 1..30 data (inside, on vertices, outside the mesh, in any order) in three magnitude classes, optional masked / undefined samples, optional nugget, "
         "1 or 2 structures -> PrecisionOpMultiConditional(Cs) rhs / product (also with one noise variance per datum) / solves / quadratic form / log det, SPDEOp(Matrix) "
         "product, krigingSPDE, krigingSPDENew, logLikelihoodSPDE with useCholesky = 1 and 0 vs an own dense long-double solution of "
         "(Q + A'A/s2) x = A'z/s2 when the system has <= 130 unknowns (quick). 4 % of the cases = krigingSPDENew on a target Db "
         "without Z variable; 3 % = log-likelihood (both modes) of data none of which falls in the mesh, vs its closed form. distinct = distinct (mesh kind, ndim, covariance type, polynomial degree, integer-alpha flag, range "
         "class, polarization) signatures with at least one non-skipped oracle evaluation",
    level="exploration",
    require=dict(distinct=60,
                 oracles=dict(quick={"matfree-evalDirect": 3000, "Q-vs-formula": 1500, "Q-symmetric": 250, "Q-posdef-chol": 150,
                                     "cholsparse-succeeds": 250, "solve-residual-chol": 700, "proj-affine": 6000, "proj-outside-empty": 800,
                                     "solve-residual-cg": 200, "krig-cg-vs-ref": 100, "krig-chol-vs-ref": 100, "loglik-chol-vs-ref": 100,
                                     "krignew-cg-vs-ref": 80, "spdeop-evalDirect": 300},
                              thorough={"matfree-evalDirect": 9000, "Q-vs-formula": 4500, "Q-symmetric": 750, "Q-posdef-chol": 400,
                                        "cholsparse-succeeds": 750, "solve-residual-chol": 2100, "proj-affine": 18000, "proj-outside-empty": 1800,
                                        "solve-residual-cg": 600, "krig-cg-vs-ref": 250, "krig-chol-vs-ref": 250, "loglik-chol-vs-ref": 250,
                                        "krignew-cg-vs-ref": 200, "spdeop-evalDirect": 800})),
    assumptions=["the entries of Q, S, the projection matrices and Lambda / TildeC are read through MatrixSparse::getMatrixToTriplet, "
                 "getLambdas, getTildeC and trusted as the library's statement of those objects; products, Cholesky factors, solves and "
                 "eigenvalues used as references are computed by the harness in long double",
                 "mesh geometry is read through AMesh::getApexCoor / getApex and trusted",
                 "the data-noise variance used by krigingSPDE is max(nugget, 0.01 * total sill) as coded in SPDE::_init; buildInvNugget is "
                 "checked to return diag(1/s2) before krigingSPDENew is compared",
                 "factorisations, x'Qx > 0 and direct solves are judged only when the cheap upper bound of cond(Q) (resp. cond(Q + A'A/s2)), "
                 "||.||_1 / (P(0) min Lambda^2), is <= 1e11 (beyond, the double-precision entries no longer determine a positive definite "
                 "matrix); products, symmetry and projections are judged always",
                 "iterative solves are judged only when the cheap upper bound of cond(Q + A'A/s2) is <= 1e9; a solve passes if the true "
                 "residual meets the coded rule <r,r>/sum||b_k|| <= 4e-8 or the relative form ||r|| <= 4e-4 ||b|| (the tolerance the "
                 "solver promises is not documented)",
                 "the matrix-free log-likelihood is a Monte-Carlo trace estimate: agreement is required within 6 standard deviations of "
                 "that estimator (computed from the eigenvalues) only",
                 "that Q is the Matern precision (constants of the mass lumping, Lambda normalisation) is NOT decided here (C14)"])
