reg("C01", "kriging output = solution of the documented (co)kriging system",
    parts=[dict(harness="c01_krige", cases=dict(quick=3000, thorough=30000), timeout_case=20)],
    rule="case = (ndim 1-3, nvar 1-3, isotopic / random undefined cells / one sparse variable / whole samples undefined, "
         "known mean or drift order 0/1/2 or an explicit monomial list, 0-2 external drifts (some undefined at data), optional "
         "measurement-error variances, 1-3 nested rotated anisotropic structures + optional nugget, unique or moving "
         "neighbourhood, target kind point Db / (rotated) grid / grid blocks / per-cell blocks (krigcell)) drawn from the case "
         "PRNG; kriging() (all outputs, estimate only, linear combinations matLC), a KrigingSystem driven target by target "
         "(weights, dual vector, right-hand side, C00, outputs) and krigtest() are compared with an independent long-double "
         "solve of [Sigma X; Xt 0] assembled pointwise on KrigingSystem::getSampleIndices(); systems with reference condition "
         "number > 1e9 (or singular, or with fewer data than drift equations) are skipped and counted; distinct = distinct "
         "discrete configurations with at least one non-skipped oracle evaluation",
    level="exploration",
    require=dict(distinct=300,
                 oracles=dict(quick={"weights": 9000, "estim": 20000, "stdev2": 18000, "varz": 12000, "rhs": 9000, "dual": 5000,
                                     "c00": 9000, "lc-estim": 1800, "krigtest": 1800},
                              thorough={"weights": 72000, "estim": 160000, "stdev2": 144000, "varz": 96000, "rhs": 72000,
                                        "dual": 40000, "c00": 72000, "lc-estim": 14000, "krigtest": 14000}),
                 probes=["h.hetero", "h.verr", "h.block", "h.extdrift", "h.matLC", "h.matLC-sk"]),
    assumptions=["the model's pointwise covariance function Model::eval(p1,p2,ivar,jvar) is taken as given (C03 checks it)",
                 "the neighbourhood selection is taken as given (C06 checks it)",
                 "grid node coordinates are read back from the DbGrid (C16 checks them)",
                 "block variance uses the library's randomised second discretisation DbGrid::getDiscretizedBlock(seed 1234546)"])
