reg("C01", "kriging output = solution of the documented (co)kriging system",
    parts=[dict(harness="c01_krige", cases=dict(quick=3000, thorough=30000), timeout_case=20)],
    rule="case = (ndim 1-3, nvar 1-3, isotopic / random undefined cells / one sparse variable, known mean or drift order "
         "0/1/2 with 0-2 external drifts, optional measurement-error variances, 1-3 nested rotated anisotropic structures "
         "+ optional nugget, unique or moving neighbourhood, target kind point Db / (rotated) grid / grid blocks) drawn "
         "from the case PRNG; kriging(), a KrigingSystem driven target by target and krigtest() are compared with an "
         "independent long-double solve of [Sigma X; Xt 0] assembled pointwise on KrigingSystem::getSampleIndices(); "
         "systems with reference condition number > 1e9 are skipped; distinct = distinct discrete configurations "
         "with at least one non-skipped oracle evaluation",
    level="exploration",
    require=dict(distinct=100),
    assumptions=["the model's pointwise covariance function Model::eval(p1,p2,ivar,jvar) is taken as given (C03 checks it)",
                 "the neighbourhood selection is taken as given (C06 checks it)",
                 "grid node coordinates are read back from the DbGrid (C16 checks them)",
                 "block variance uses the library's randomised second discretisation DbGrid::getDiscretizedBlock(seed 1234546)"])
