reg("C17", "automatic model fitting returns a usable, constraint-abiding model or reports failure",
    parts=[dict(harness="c17_fit", cases=dict(quick=480, thorough=6000), timeout_case=900)],
    rule="the first 17 case indices replay one fixed, seed-independent scenario per open finding (plus a control); every other case = (source in {variogram computed from a harness-simulated data set, hand-made Vario through the public "
         "setters, variogram map}, ndim 1-3, nvar 1-3, 1-4 directions, pathology in {none, noisy, non-monotone, empty lags, "
         "pure nugget, all-zero, huge, tiny, few pairs}, 1-4 basic structures from the types offered for the dimension, "
         "constraint class in {none, ConsItem boxes/equalities on SILL/RANGE/ANGLE/PARAM, contradictory box, constant total sill}, "
         "every Option_VarioFit flag and Option_AutoFit parameter) drawn from the case PRNG; Model::fit / fitFromCovIndices / "
         "fitFromVMap is called (one case in seven fits the sills alone through ModelOptimSillsVario::fit / model_fitting_sills on a model with given ranges) and the returned model is validated (sill PSD by long-double Jacobi, ranges, third parameter, "
         "every user constraint, documented option promises, dumpToNF/createFromNF round trip, kriging with the reloaded model); "
         "quality of fit is never judged; distinct = distinct signatures (source, ndim, nvar, ndir, pathology, number of "
         "structures, constraint class, option mask, weighting mode, expected-failure class) with >= 1 oracle evaluation",
    require=dict(distinct=100, oracles=dict(quick={"sill-psd": 150, "range-pos": 150, "nf-roundtrip": 80, "kriging-runs": 80},
                                            thorough={"sill-psd": 2000, "range-pos": 2000, "nf-roundtrip": 1000, "kriging-runs": 1000})),
    assumptions=["a hang is decided on CPU time: the harness aborts a case after 600 CPU seconds (children of the crash-prone input classes: 300 s, RLIMIT_CPU); timeout_case only backs this up",
                 "failures of a case that belongs to the input class of an open finding are reported under the single key of that finding",
                 "constraints are only drawn on parameters that exist under the requested options and variogram geometry "
                 "(e.g. no second-range constraint for an omnidirectional variogram)",
                 "Option_VarioFit promises are asserted exactly as worded in Option_VarioFit.hpp; lock_iso2d only in 3-D"])
