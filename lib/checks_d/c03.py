reg("C03", "every offered covariance model is a valid positive-definite model",
    parts=[dict(harness="c03_cov", cases=dict(quick=3348, thorough=27900), timeout_case=20)],
    rule="case i -> (structure, ndim) = i mod 93: ALL 31 ECov structures x ndim 1..3 (complete table, exhaustive); "
         "draw index i div 93 cycles the third-parameter class (low, mid, high, exactly 0, exactly getParMax()); the case "
         "PRNG draws nvar 1-3 with a PSD sill matrix (full rank / rank one / diagonal), ranges 0.5-50 with anisotropy "
         "ratios 0.2-5, 1 or 3 rotation angles, 1-3 summed structures, the construction route (Model::createFromParam / "
         "CovAniso setters / CovAniso::create*), and a point set (grid, grid along the rotated axes, random, clustered, "
         "collinear; spacing 0.02-5 ranges; n*nvar <= 72, thorough <= 360; every 4th draw is one variable on a grid along the "
         "rotated axes with a mesh of 0.4-1.6 or 0.1-0.5 ranges, every 3rd draw adds a pair of points 1e-7..1e-3 ranges apart); "
         "each rotation angle is, with probability 0.35, one of the exact values 0/90/180/270/360/450/-90/-180/-270 (the "
         "library special-cases 0, 90, 180, 270), else generic; the matrix builders observed are evalCovMatrix[Symmetric] "
         "and evalCovMatrix[Symmetric]Optim, full and per requested variable (ivar0, jvar0). In-domain = CovFactory::getCovList contains "
         "the name and CovAniso::isConsistent(); out-of-domain pairs are requested through the public factories and must "
         "be refused or pass the same checks; sphere-only structures must not be in-domain. distinct = distinct "
         "(structure, ndim, nvar, parameter class, layout, number of structures, route) with at least one oracle evaluated",
    level="exploration",
    require=dict(distinct=400,
                 oracles=dict(quick={"pd": 800, "cpd": 250, "closed-form": 500, "closed-form-axis": 2000,
                                     "closed-form-incr": 200, "vario-mode": 1200, "sym-rect": 1200, "bound": 800,
                                     "support-out": 1500, "range-axis": 250, "gate-sphere": 200, "model-eval": 1200, "optim-sym": 1200, "optim-block": 1500},
                              thorough={"pd": 6000, "cpd": 3000, "closed-form": 4000, "closed-form-axis": 16000,
                                        "closed-form-incr": 2000, "vario-mode": 9000, "sym-rect": 9000,
                                        "bound": 6000, "support-out": 9000, "range-axis": 1800,
                                        "gate-sphere": 1500, "model-eval": 9000, "optim-sym": 9000, "optim-block": 12000})),
    assumptions=["eigenvalues by long-double Jacobi (ref_linalg), tolerance 1e3*N*eps*lambda_max",
                 "closed forms as published (ref_cov.hpp); the factor range/scale is read from getScadef()",
                 "positive definiteness is refutable by sampling, not provable"])
