reg("C13", "simulations reproducible from their seed, conditioning honoured",
    parts=[dict(harness="c13_simrepro", cases=dict(quick=600, thorough=8000), timeout_case=60)],
    rule="placeholder",
    require=dict(distinct=50))
