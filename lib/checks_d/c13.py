reg("C13", "simulations reproducible from their seed, conditioning honoured",
    parts=[dict(harness="c13_simrepro", cases=dict(quick=1000, thorough=16000), timeout_case=600)],
    rule="case = one configuration of one simulator family drawn from the case PRNG: simtub 45% (1-3 D, 1-2 variables, 1-2 "
         "structures of {spherical, exponential, gaussian, cubic, matern, stable, sincard, besselj} + optional nugget, "
         "anisotropy/rotation, grid or point target, non-conditional / conditional with unique or moving neighbourhood, "
         "known mean or universality condition, heterotopic data, nbsimu 1-5, nbtuba in {1,2,3,5,10,30,100,200}), simfft 8%, "
         "simulateSPDE 5% (global seed set immediately before the call), gibbs_sampler 15% (1-2 variables, bounds: free / "
         "one-sided / two-sided / equality / tight / tight far in the tail / mutually consistent, unique or moving, "
         "multi-mono), law_gaussian_between_bounds 7%, simpgs 12% and simbipgs 6% (random lithotype rules of 2-5 facies on "
         "one or two GRFs, conditional data on grid nodes), generator-level seed semantics 2%; in addition every 200th case "
         "(index = 7 mod 200) is one of four fixed, seed-independent scenarios (gibbs upper-only bound next to a conflicting "
         "lower-only bound; gibbs with a moving neighbourhood on a 7x7 lattice with a gaussian covariance; gibbs multi-mono "
         "with a bivariate model; seed semantics) so that these input classes are visited by every run. Seeds: 1, small, library "
         "defaults, large, 20000158/20000160 (around the modulus of the congruential generator), > 2^31/105 (the product "
         "wraps), 2^31-1, and <= 0 ('do not reseed': the documented global seed is then set before the call). One case in four "
         "(case index = 2 mod 4) runs all its executions with the new-style generator (law_set_old_style(false)); one non-conditional monovariate "
         "turning-bands case in three uses a POWER structure; before the 'after unrelated use' run of a turning-bands case two sibling models "
         "(other third parameters; same parameters at another scale) are simulated. Each "
         "configuration is executed 5 times on freshly built inputs: reference, back-to-back, after unrelated use of the "
         "generator, in a pristine process forked before the worker touched the library, and with another seed; outputs "
         "are compared bit for bit ('differs' is only asserted on continuous outputs: not on facies maps, for Gibbs on "
         "unconstrained samples, and for turning bands only with a nugget, >= 30 bands or structures spread by continuous band processes"
         "). On the reference run: number of created columns, simulation ranks i != j differ, data "
         "honoured at coinciding targets (1e-5 relative), |S - K| <= 50 sK + 1e-4 scale against a long-double reference "
         "(co)kriging (targets 2e-4 away from a datum make this sharp; unique neighbourhood, nbtuba >= 10, only models whose "
         "structures are simulated by smooth band processes: gaussian, cubic, sincard, besselj), every Gibbs / "
         "truncated-Gaussian value inside [L,U] (1e-10; equalities exact; Gibbs cases whose data covariance has a "
         "condition number > 1e8 are skipped and counted), finite and |y| <= 1000 Gibbs outputs, plurigaussian facies at data nodes = observed "
         "facies, plurigaussian Gaussians at data nodes inside the thresholds of the observed facies (own threshold "
         "computation, 1e-3). distinct = distinct discrete signatures (family, dimension, variables, target kind, "
         "conditioning, neighbourhood, structure, nbsimu, nbtuba, seed class, ...) with at least one oracle evaluation",
    level="exploration",
    require=dict(distinct=150,
                 oracles=dict(quick={"repro-b2b": 500, "repro-perturbed": 450, "repro-fresh": 450, "seeds-differ": 450,
                                     "ranks-differ": 700, "cond-exact": 800, "krig-residual": 80, "bounds": 600,
                                     "facies-at-data": 40, "ncols": 450},
                              thorough={"repro-b2b": 8000, "repro-perturbed": 7000, "repro-fresh": 7000,
                                        "seeds-differ": 7000, "ranks-differ": 10000, "cond-exact": 10000,
                                        "krig-residual": 1500, "bounds": 9000, "facies-at-data": 600, "ncols": 7000})),
    assumptions=["Model::eval (pointwise covariance) is trusted to build the reference kriging of the cond-vs-kriging oracle",
                 "a 'pristine process' is a child of a zygote forked before the first library call of the worker",
                 "turning-bands fields are close enough to Gaussian fields of the model covariance for |S-K| <= 50 sK "
                 "(calibrated: max observed ratio ~0.1-0.2)",
                 "SPDE conditional simulations are not required to honour data exactly (mesh approximation): only "
                 "reproducibility / seeds / ranks are monitored for simulateSPDE"])
