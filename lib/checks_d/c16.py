reg("C16", "grid geometry conversions are mutually inverse",
    parts=[dict(harness="c16_grid", cases=dict(quick=1200, thorough=20000), timeout_case=20)],
    rule="case = one generated grid: ndim 1-3, nx 1..40 per direction (at most 4000 nodes, thorough 30000), mesh sizes "
         "1e-3..1e3 (unit / common / anisotropic / extreme mix), origin 0 / +-100 / up to +-1e6 (kept below 1e8 meshes from "
         "zero: beyond that a coordinate no longer resolves 1e-8 of a mesh), rotation none / special angles (0, 90, 180, 270, "
         "negative, 360, 45...) / generic / explicit zeros (1 angle in 2-D, 3 in 3-D). ALL nodes of the grid are visited "
         "(rank<->indices, indices<->coordinates, rank<->coordinates with both cell conventions, node geometry against "
         "harness/common/ref_grid.hpp, all coordinate accessors); 60 (thorough 120) query points at least 1e-4 or 1e-2 mesh "
         "away from a cell boundary, inside and outside, for both 'centered' conventions; Rotation direct/inverse on random "
         "vectors; DbGrid stored/reported coordinates; createCoarse/createMultiple/createRefine/createDivider (cell and point "
         "matching, factors 1..5 per direction), createSubGrid, Grid::dilate against the parent's geometry; migrate(grid->points) "
         "for 40 points drawn where the two documented cell conventions agree (or outside both). distinct = distinct "
         "(ndim, rotated, rotation class, origin class, mesh class, size class) signatures",
    require=dict(distinct=40,
                 oracles=dict(quick={"rank-idx-rank": 200000, "idx-coord-idx": 200000, "idx-coord-idx-centered": 200000,
                                     "point-in-cell": 20000, "dbgrid-stored": 100000, "migrate-cell": 10000,
                                     "derived-subgrid": 500},
                              thorough={"rank-idx-rank": 12000000, "idx-coord-idx": 12000000, "point-in-cell": 600000,
                                        "migrate-cell": 200000, "derived-subgrid": 9000})),
    assumptions=["node(i) = X0 + R*(i.*DX) with X0 the first node (DbGrid.hpp class comment) and R built from the angles as "
                 "documented in GeometryHelper::rotation2D/3DMatrixInPlace (successive right-handed rotations; calibrated)",
                 "cells of derived grids are centred on the nodes (Grid::multiple/divider: 'cell matching')",
                 "migrate(grid->points): only points where both documented cell conventions give the same node are used"])
