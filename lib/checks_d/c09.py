def _c09_extra(events):
    pr = {}
    for e in events:
        if e.get("t") == "P":
            for k, v in e["probes"].items():
                pr[k] = pr.get(k, 0) + v
    g = lambda k: pr.get("h." + k, 0)
    out = {"children_forked": g("children"), "children_clean_failure": g("clean-failure"),
           "children_returned_object": g("returned-object"), "children_died": g("died"),
           "children_exception_escaped": g("exception"), "children_timed_out": g("timed-out"),
           "timeouts_rerun": g("timeout-rerun"),
           "seed_files_prefixes_complete": g("prefix-enumeration-complete"),
           "seed_files_prefixes_sampled": g("prefix-enumeration-sampled"),
           "seed_kinds_whose_valid_file_does_not_load": sorted(k[len("h.seed-does-not-load:"):] for k in pr if k.startswith("h.seed-does-not-load:")),
           }
    # exhaustive over the prefixes of the seed files used: only if no seed file had to be sampled
    if g("prefix-enumeration-sampled") == 0 and g("prefix-enumeration-complete") > 0:
        out["exhaustive"] = True
        out["exhaustive_over"] = "every prefix of every seed file of this run (token-level and blind mutants are enumerated / sampled as described in rule)"
    return out


reg("C09", "loaders fail cleanly on malformed or truncated files",
    parts=[dict(harness="c09_loaders", cases=dict(quick=296, thorough=3552), timeout_case=7200, chunk=1,
                # ~10^5 forks per run: the fake-stack machinery of detect_stack_use_after_return and 30-frame malloc
                # stacks triple the cost of a fork of the ASan image (measured: 10.5 -> 5.5 ms CPU per child); the crash
                # stack itself is unaffected. Everything else is the driver's policy (DESIGN 5.5).
                env={"ASAN_OPTIONS": "abort_on_error=1:detect_leaks=0:detect_stack_use_after_return=0:strict_string_checks=1:"
                                     "allocator_may_return_null=1:handle_abort=1:max_allocation_size_mb=4096:"
                                     "malloc_context_size=3:quarantine_size_mb=16:symbolize=0"})],
    rule="The enumeration is exhaustive over prefixes and token mutations of FIXED seed files; VERIF_SEED does not change it "
         "(it is only recorded): seed files and the blind component are generated from constants, so every run of a tier "
         "offers the same mutants and its violation keys can be matched against the list of known findings. "
         "Seed files = one generated instance (thorough: 6) of each of the 30 classes of the C08 registry written by "
         "dumpToNF, + Zycor / IfpEn / Bmp grids written by the library, + a hand-written F2G grid, + CSV files in 3 CSVformat "
         "variants, each <= 4 KiB (8 KiB thorough). Mutants of a seed file, enumerated in a fixed order and dealt to 8 (16) "
         "cases: EVERY prefix; every token x {delete, duplicate, -1, 0, 1, 2147483647, 1e308, 99999999999, NA, text, empty "
         "line, comment marker}; integer tokens +1, -1, negated, x2, x1000; on every line one extra / one missing value, line "
         "removed / duplicated; 11 wrong first lines (class tags), CRLF, BOM, NUL bytes, no final newline, file doubled, "
         "200000-character tokens, 20000-value lines; 150 (600) blind byte flips / deletions / re-insertions / splices "
         "with another seed file (fixed internal seed per file). Every mutant is loaded in a forked child (ASan+UBSan, 1 GiB "
         "cap on a single allocation); hang = 60 s of CPU TIME exhausted (first run limited to 5 s); the wall-clock watchdog "
         "only produces counted skips. A returned object goes through basic queries, the structural C07 Db consistency "
         "rules, save and reload. Keys name the defect: <folded sanitizer kind>:<first /repo function>@<innermost reader>, "
         "<reader>:exception:escaped, <reader>:hang, <reader>:returned-object:<rule>. distinct = (seed kind, instance, batch)",
    level="fault_enumeration",
    require=dict(distinct=100, oracles=dict(quick={"loader-survives": 40000}, thorough={"loader-survives": 250000})),
    evidence_extra=_c09_extra,
    assumptions=["a child that answers (clean failure / object / exception) within the limits did not corrupt memory in a way "
                 "ASan's red zones and quarantine can see; far out-of-bounds and intra-object overflows are not detected",
                 "mutants are neighbours of valid files: parser states reachable only from files far from every valid one are "
                 "not visited (the blind component is small)"])
