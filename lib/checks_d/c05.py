reg("C05", "masked or undefined samples never influence a result",
    parts=[dict(harness="c05_mask", cases=dict(quick=1500, thorough=30000), timeout_case=10)],
    rule="WIP",
    require=dict(distinct=20))
