reg("C05", "masked or undefined samples never influence a result",
    parts=[dict(harness="c05_mask", cases=dict(quick=3000, thorough=60000), timeout_case=10)],
    rule="metamorphic: case = (operation, sample set, drop mechanism, options) from the case PRNG. The sample set (ndim 1-3, "
         "1-3 variables, 8-50 samples [thorough: up to 200], optional heterotopy / weights / external drift) has samples DROPPED "
         "by one mechanism: by=sel (selection: random / almost empty / empty / full), by=uval (all variables undefined), "
         "by=ucoord (one coordinate undefined), by=mixed (selection + undefined values), by=selna (selection value itself "
         "undefined), +ufext (external drift undefined). Two Dbs are built by the harness: MASKED (all samples; dropped ones "
         "switched off / undefined and POISONED: values 1e15, coordinates 1e9 away) and REDUCED (Db::createFromSamples on the kept "
         "rows only; heterotopic cells stay undefined in both). The operation runs on both; every output is mapped through the "
         "kept-sample index map and compared BIT FOR BIT (no tolerance is used anywhere); return codes must agree; masked target "
         "rows must hold TEST in newly created variables; pre-existing columns must be untouched; when nothing is left after "
         "removal no value may be produced. Direct (non-metamorphic) oracles where an error common to both runs would hide: the "
         "shape of every covariance / drift matrix against the count of (requested variable, active sample where THAT variable is "
         "defined), Db::getMultipleRanksActive for explicit variable lists, all Db predicates against the harness' knowledge of "
         "the sample set. Kriging in unique neighbourhood with a datum whose location is only PARTIALLY undefined (ndim >= 2, no "
         "MATERN) is a stratum of its own (key C05:kriging:unique:partially-undefined-location, clean on the reference tree). "
         "OPERATIONS COVERED: kriging and test_neigh (unique / moving / moving+ball-tree "
         "neighbourhood; simple, ordinary, linear-drift, external-drift and intrinsic linear models; 1-2 variables; point and grid "
         "targets with masked targets), xvalid, Vario::compute (VARIOGRAM COVARIANCE COVARIOGRAM MADOGRAM RODOGRAM POISSON "
         "COVARIANCE_NC ORDER4 TRANS1 TRANS2 BINORMAL; omni / multi-direction; by-sample option; weights) incl. its stored "
         "means/variances, dbStatisticsMono / dbStatisticsMulti / dbStatisticsCorrel / dbVarianceMatrix / correlationPairs / "
         "hscatterPairs / dbStatisticsPerCell, Model::evalCovMatrix / evalCovMatrixSymmetric / evalCovMatrixOptim / "
         "evalCovMatrixSymmetricOptim / evalCovMatrixSparse / evalDriftMatrix (one and two Dbs, variable ranks, explicit rank "
         "lists), simtub (conditional on a grid with masked cells, same seed; non-conditional on points with masked targets), "
         "migrate / migrateMulti (plain and ball-tree), Db selection predicates and selection-aware getters (isActive, "
         "getSelection, getRanksActive, getMultipleRanksActive, isActiveAndDefined, getColumn(useSel), extents, createReduce, "
         "deleteSamples...), AnamHermite fit + rawToGaussian, PCA / MAF fit + dbZ2F, db_polygon, Polygons::createFromDb, "
         "db_selhull, db_vmap, db_vcloud. distinct = distinct (operation, options, dimension, variable count, drop mechanism, "
         "selection shape) signatures with at least one oracle evaluated. NOT generated: undefined coordinates for simtub / "
         "statistics / anamorphosis / PCA / vmap / vcloud / polygons; undefined values for migrate (convention not documented); "
         "DbGrid as DATA; block kriging, kribayes, krigprof, colocated cokriging; measurement-error variances; codes / dates / "
         "faults; SPDE; conditional simulation to POINT targets; intrinsic models in xvalid together with undefined-value "
         "samples (they are target sites there) (see author report). Input classes hit by open findings have collapsed keys "
         "(C05:<op>:ball-search, :undefined-coordinate, :selection-value-undefined, :external-drift-undefined, "
         ":<feature>:extent-over-undefined-value-samples) and are generated often enough that every such key is reached in "
         "every quick run while the two crash-prone configurations stay below 1 % of the cases.",
    require=dict(distinct=800,
                 oracles=dict(quick={"kriging:equal": 160, "xvalid:equal": 95, "vario:gg": 450, "covmat:equal": 120,
                                     "simtub:equal": 130, "migrate:equal": 80, "stats:mono": 20, "stats:multi": 20,
                                     "anam:psi": 40, "pca:eigvals": 45, "db:isActive": 40, "kriging:off-rows-TEST": 70},
                              thorough={"kriging:equal": 3200, "xvalid:equal": 2000, "vario:gg": 9000, "covmat:equal": 2500,
                                        "simtub:equal": 2600, "migrate:equal": 1600, "stats:mono": 400, "stats:multi": 400,
                                        "anam:psi": 900, "pca:eigvals": 950, "db:isActive": 950,
                                        "kriging:off-rows-TEST": 1450})),
    assumptions=["the reduced Db built by the harness (Db::createFromSamples on kept rows + setLocator) is a faithful physical "
                 "removal (cross-checked against Db::createReduce and Db::deleteSamples by the db-predicates operation)",
                 "bit-for-bit equality is demanded because masked and reduced runs reach the same arithmetic in the same order "
                 "(verified: 0 differences on the unchanged tree for every operation / mechanism not listed as a finding)",
                 "for conditional simulation on a grid the reference run keeps the same masked grid (only the data are reduced)"])
