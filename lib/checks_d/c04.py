reg("C04", "accelerated code paths vs plain ones",
    parts=[
        dict(harness="c04_covmat", cases=dict(quick=1600, thorough=30000), timeout_case=10),
        dict(harness="c04_krige", cases=dict(quick=1200, thorough=20000), timeout_case=20),
        dict(harness="c04_search", cases=dict(quick=1200, thorough=20000), timeout_case=20),
        dict(harness="c04_calcul", cases=dict(quick=1200, thorough=20000), timeout_case=20),
    ],
    rule="differential monitors, one per pair of the statement; every case draws (space dimension 1-3, 1-3 variables, 1-3 nested "
         "structures with anisotropy ratios 0.2-5 and rotations, optional nugget, heterotopy pattern, selection, measurement error, "
         "drift sk/ordinary/linear/quadratic, translated coordinates) from the case PRNG and builds fresh Db/Model/Neigh objects for "
         "each side. covmat: sequences of 4-7 requests (rect/sym, ivar0/jvar0, nbgh subsets, 7 CovCalcMode variants, empty requests) on "
         "one optimised Model vs a pristine Model on the plain path. krige: kriging() unique vs wide moving (6 variants incl. ball tree), "
         "xvalid() unique vs explicit leave-one-out (masked or removed), block ndisc=1 vs point at cell centres (rotated grids), "
         "collocated cokriging vs complemented data. search: migrate() ball vs exhaustive vs brute force (ties and limit-boundary "
         "cases skipped), NeighMoving::select ball vs scan on targets whose nmaxi Euclidean-nearest samples are all admissible "
         "(precondition evaluated by the harness). calcul: KrigingCalcul primal/dual/Bayes/collocated/xvalid vs kriging()/kribayes() and "
         "vs a long-double solve of the same matrices. Tolerance 1e3*eps*kappa*scale, kappa>1e9 skipped (illcond). distinct = distinct "
         "(pair, ndim, nvar, structure set, drift, heterotopy, selection, option) signatures with a non-skipped evaluation.",
    level="exploration",
    require=dict(distinct=300,
                 oracles=dict(quick={"covopt-rect": 800, "covopt-sym": 800, "um-estim": 1500, "xv-estim": 1500, "b1-estim": 1500,
                                     "mig-ball": 5000, "nb-select": 500, "kc-primal-estim-ref": 100, "kc-dual-estim-ref": 100,
                                     "kc-bayes-estim-ref": 100, "kc-colcok-estim-ref": 50, "kc-xvalid-estim-ref": 50},
                              thorough={"covopt-rect": 15000, "covopt-sym": 15000, "um-estim": 25000, "xv-estim": 25000,
                                        "b1-estim": 25000, "mig-ball": 80000, "nb-select": 8000, "kc-primal-estim-ref": 1500,
                                        "kc-dual-estim-ref": 1500, "kc-bayes-estim-ref": 1500, "kc-colcok-estim-ref": 800,
                                        "kc-xvalid-estim-ref": 800})),
    assumptions=["Model::evalCovMatrix / evalCovMatrixSymmetric on a Model that never served an optimised request is the plain pairwise reference",
                 "condition numbers come from a long-double LU of matrices assembled with the library's own covariance/drift builders (used for tolerance scaling only)",
                 "Euclidean nearest-neighbour precondition and migrate classification are computed by brute force in the harness"])
