reg("C04", "accelerated code paths vs plain ones",
    parts=[
        dict(harness="c04_covmat", cases=dict(quick=1600, thorough=30000), timeout_case=10),
        dict(harness="c04_krige", cases=dict(quick=1600, thorough=24000), timeout_case=20),
        dict(harness="c04_search", cases=dict(quick=1200, thorough=20000), timeout_case=20),
        dict(harness="c04_calcul", cases=dict(quick=1200, thorough=20000), timeout_case=20),
    ],
    rule="differential monitors, one per pair of the statement; every case draws (space dimension 1-3, 1-3 variables, 1-3 nested "
         "structures with anisotropy ratios 0.2-5 and rotations, optional nugget, heterotopy pattern, selection, measurement error, "
         "drift sk/ordinary/linear/quadratic, translated coordinates) from the case PRNG and builds fresh Db/Model/Neigh objects for "
         "each side. covmat: sequences of 4-7 requests (rect/sym, ivar0/jvar0, nbgh subsets, 7 CovCalcMode variants, empty requests) on "
         "one optimised Model vs a pristine Model on the plain path. krige: kriging() unique vs wide moving (6 variants incl. ball tree), "
         "xvalid() unique vs explicit leave-one-out (masked or removed), block ndisc=1 vs point at cell centres (rotated grids), "
         "collocated cokriging vs complemented data, all targets in one call (neighbourhood/LHS reuse) vs one call per target. search: migrate() ball vs exhaustive vs brute force (ties and limit-boundary "
         "cases skipped), NeighMoving::select ball vs scan - ISOTROPIC, SINGLE-SECTOR searches only (unit or no anisotropy "
         "coefficients, nsect=1; anisotropic/rotated or multi-sector ball searches differ from the scan by construction and are "
         "recorded under C06) - on targets whose nmaxi Euclidean-nearest samples are all admissible (precondition evaluated by the "
         "harness, ties wider than the library's own tie-breaking perturbation skipped). calcul: KrigingCalcul primal/dual/Bayes/collocated/xvalid vs kriging()/kribayes() and "
         "vs a long-double solve of the same matrices; every form (incl. Bayesian posterior mean/covariance, collocated, xvalid) is also "
         "re-fed on the live object: setData(new) -> re-query vs the reference for the new data -> setData(old) -> re-query. Tolerance 1e3*eps*kappa*scale (relative above the natural magnitude), kappa>1e9 skipped as illcond (1e6 in the calcul part, whose explicit-inverse algebra loses eps*kappa^2). distinct = distinct "
         "(pair, ndim, nvar, structure set, drift, heterotopy, selection, option) signatures with a non-skipped evaluation.",
    level="exploration",
    require=dict(distinct=1000,
                 oracles=dict(quick={"covopt-rect": 800, "covopt-sym": 600, "covopt-after-empty": 600, "covplain-after-optim": 800, "covplain-after-empty-optim": 500, "um-estim": 1200, "ru-estim": 1200,
                                     "xv-estim": 1500, "xvm-estim": 1500, "b1-estim": 1200, "b1-var-shift": 1000,
                                     "mig-ball": 5000, "mig-plain-vs-brute": 10000, "nb-select": 600, "nb-kriging": 1000,
                                     "kc-primal-estim-ref": 250, "kc-primal-estim-std": 250, "kc-dual-estim-ref": 250,
                                     "kc-bayes-irf0-estim-ref": 60, "kc-primal-skmean-estim-ref": 50, "kc-primal-refeed-estim": 500, "kc-dual-refeed-estim": 500, "kc-bayes-irf0-refeed-postmean": 200, "kc-bayes-irf0-refeed-estim": 200, "kc-colcok-refeed-estim": 150, "kc-xvalid-refeed-estim": 150, "kc-colcok-estim-ref": 50, "kc-xvalid-estim-ref": 80},
                              thorough={"covopt-rect": 15000, "covopt-sym": 11000, "covopt-after-empty": 11000, "covplain-after-optim": 15000, "covplain-after-empty-optim": 9000, "um-estim": 18000, "ru-estim": 18000,
                                        "xv-estim": 22000, "xvm-estim": 22000, "b1-estim": 18000, "b1-var-shift": 14000,
                                        "mig-ball": 80000, "mig-plain-vs-brute": 160000, "nb-select": 10000, "nb-kriging": 16000,
                                        "kc-primal-estim-ref": 4000, "kc-primal-estim-std": 4000, "kc-dual-estim-ref": 4000,
                                        "kc-bayes-irf0-estim-ref": 1000, "kc-primal-skmean-estim-ref": 1000, "kc-primal-refeed-estim": 8000, "kc-dual-refeed-estim": 8000, "kc-bayes-irf0-refeed-postmean": 3000, "kc-bayes-irf0-refeed-estim": 3000, "kc-colcok-refeed-estim": 2500, "kc-xvalid-refeed-estim": 2500, "kc-colcok-estim-ref": 800, "kc-xvalid-estim-ref": 1000})),
    assumptions=["Model::evalCovMatrix / evalCovMatrixSymmetric on a Model that never served an optimised request is the plain pairwise reference",
                 "condition numbers come from a long-double LU of matrices assembled with the library's own covariance/drift builders (used for tolerance scaling only)",
                 "Euclidean nearest-neighbour precondition and migrate classification are computed by brute force in the harness"])
