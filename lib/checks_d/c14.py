reg("C14", "non-conditional simulations follow their model; basic generators have the moments of their laws",
    parts=[dict(harness="c14_simstat", cases=dict(quick=64, thorough=128), timeout_case=3600)],
    rule="STATISTICAL NON-REFUTATION, false-alarm probability < 1e-9 per run. Cases are stratified on the case index only (16 slots "
         "per block of 16 cases, class of the slot chosen by the block index, so every run of either tier visits every class): "
         "5 turning bands on a 16x16 (thorough 20x20) grid [1-2 nested structures of {spherical, exponential, gaussian, cubic, "
         "matern, stable, sincard, besselj} + optional nugget, anisotropy ratio ~0.25-0.3 rotated along a grid direction "
         "(1,0),(0,1),(1,+-1),(2,+-1),(1,+-2), sill in [0.03,0.2] or [8,50], non-zero mean, 1-2 variables with cross-correlation "
         "+-0.7..0.95 of opposite signs in nested structures, nbtuba 100/200; two of the five carry a selection masking about a quarter of the nodes, the statistics then use active nodes only], 2 turning bands on scattered points (1-D, 2-D, 3-D), "
         "2 simfft (reference: isotropic short range on a square grid; in turn non-square grid / anisotropic model / 3-D cubic grid 10^3 (thorough 12^3) with an isotropic short range / cubic structure of range ~2 grid sizes with percent = 50 (negative spectral terms clipped; 20000 realisations, thorough 40000; mean and variance only)), "
         "1 simuSpectral (block mod 4: gaussian unit sill; matern nu 1.5/2.5 unit sill; sill far from 1; reference exponential / "
         "matern 0.5 unit sill), 1 Cholesky (MatrixSquareSymmetricSim dense inverse=false/true, sparse; CholeskyDense / "
         "CholeskySparse::evalSimulate with VH::simulateGaussian white noise), 1 simulateSPDE (Matern nu=1, 12x12 grid), 4 basic "
         "laws (12 laws in turn: uniform, gaussian, exponential, gamma beta=1 / beta!=1, poisson <16 / >=16, beta1, beta2, binomial, "
         "int_uniform / sampleInteger with a negative lower bound, gaussian_between_bounds). R realisations (turning bands 1200 / thorough 6000, FFT 800/4000, spectral "
         "2000/6000, Cholesky 1500/8000, SPDE 400/2000), seeds of the batches drawn from the case PRNG. simfft (reference), "
         "simuSpectral (reference) and simulateSPDE are run with a zero model mean, plus 200 (SPDE 100) realisations with a mean "
         "3-30 st. dev. away from 0 on which only the ensemble mean is tested. Statistics: ensemble mean per variable; variance; "
         "(cross-)covariances averaged over all grid pairs at lags 1x and 2x the major-axis vector, 1x and 2x the perpendicular "
         "vector, one other lag (points: pairs grouped by model correlation class). bound = z*SD*(kappa + z/sqrt(2R)) + "
         "allowance*sqrt(Cii(0)Cjj(0)); SD from the MODEL (Isserlis double sum over the pairs), z = 8.2 = sqrt(2 ln(2*2e5/1e-9)) "
         "(Bonferroni over up to 2e5 statistics), kappa = 1 for variances (PSD quadratic form) and sqrt(2) otherwise, z/sqrt(2R) = "
         "exact sub-exponential tail correction (Laurent-Massart). method_allowance (fraction of the sill, calibrated on the "
         "unchanged tree): turning bands 0.03, FFT 0.08 (range <= 0.17 grid size, square grid, isotropic; 0.03 on the 3-D cubic grid, measured error < 0.01), spectral 0.03, Cholesky 0, "
         "SPDE 0.08; on means 0.01/0.01/0.01/0/0.02 of the standard deviation. Laws: N = 2e5 (thorough 2e6; poisson >= 16: 1e6/2e6) "
         "draws; the mean and the central moments 2-4 about the mean of the law, bound z*sqrt((cm_2k-cm_k^2)/N) + 2 Q^k x/(3N) "
         "(Bernstein, Q = 1e-20 quantile) + 2e-3*sqrt(cm_2k) (generator allowance, calibrated); support; reach of the range (an "
         "extreme quantile that a sample of the law passes with probability 1-1e-12). Violation keys are per root cause for the "
         "input classes of the open findings (one key whatever the statistic) and per statistic class elsewhere. "
         "distinct = distinct (simulator, support, variables, structure, anisotropy, direction, sill class, ...) signatures",
    level="exploration",
    require=dict(distinct=30,
                 oracles=dict(quick={"variance": 25, "covariance": 120, "mean": 30, "moment1": 8, "support": 8},
                              thorough={"variance": 45, "covariance": 220, "mean": 55, "moment1": 16, "support": 16})),
    assumptions=["Model::eval (pointwise covariance, including anisotropy and sill matrices) is the reference for the expected "
                 "statistics: C14 compares simulations with the model's own covariance function (C01/C03 cover that function)",
                 "fourth moments of the simulated fields are those of a Gaussian field (the turning-bands / spectral fields are sums of "
                 "many independent components); the method allowance also absorbs that approximation",
                 "statistical verdict: deviations smaller than the bound are invisible"])
