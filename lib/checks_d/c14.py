reg("C14", "non-conditional simulations follow their model; basic generators have the moments of their laws",
    parts=[dict(harness="c14_simstat", cases=dict(quick=64, thorough=192), timeout_case=600)],
    rule="placeholder",
    require=dict(distinct=20))
