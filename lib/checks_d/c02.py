reg("C02", "kriging exact / unbiased / linear / invariant (metamorphic)",
    parts=[dict(harness="c02_krige_meta", cases=dict(quick=1500, thorough=15000), timeout_case=30)],
    rule="base case drawn as in C01 (ndim 1-3, nvar 1-3, heterotopy, known mean or drift order 0/1/2 or explicit monomial list, "
         "0-2 external drifts, measurement error, nested rotated anisotropic structures + nugget, unique or moving "
         "neighbourhood, point or rotated-grid targets); relations between library runs: exactness at data points, stdev "
         "finite / >= 0 / <= C(0) with known mean, X^t lambda = x0, drift-shift, linearity in the data, permutation of samples, "
         "common translation, cross-validation vs leave-one-out kriging, kriging(matLC = A, non-square) == A . kriging of each "
         "variable and exact at fully informed data (simple cokriging with distinct non-zero known means included); tolerances c eps kappa magnitude with kappa from "
         "the reference solver; targets whose reference condition number exceeds 1e9 or whose neighbourhood changes under "
         "the transformation are skipped; distinct = distinct discrete configurations with a non-skipped evaluation",
    level="exploration",
    require=dict(distinct=300,
                 oracles=dict(quick={"exact-estim": 5000, "linear-estim": 4000, "permute-estim": 4000, "shift-estim": 2500,
                                     "translate-estim": 3000, "unbiased": 15000, "stdev-finite": 4000, "stdev-le-prior": 1100,
                                     "xvalid-estim": 300, "lincomb-estim": 1200, "lincomb-exact-estim": 1000},
                              thorough={"exact-estim": 30000, "linear-estim": 24000, "permute-estim": 24000, "shift-estim": 15000,
                                        "translate-estim": 18000, "unbiased": 90000, "stdev-finite": 24000,
                                        "stdev-le-prior": 6600, "xvalid-estim": 1800, "lincomb-estim": 7000,
                                        "lincomb-exact-estim": 6000}),
                 probes=["h.lincomb-sk", "h.lincomb-sk-exact"]),
    assumptions=["the reference solver (ref_krige.hpp) is used only to size tolerances (condition number, magnitude of sums)",
                 "moving neighbourhoods: continuous random locations, so no distance ties; a changed neighbour set voids the target"])
