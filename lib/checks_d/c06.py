reg("C06", "moving-neighbourhood search = its definition; ball-tree k-NN exact",
    parts=[dict(harness="c06_neigh", cases=dict(quick=5000, thorough=100000), timeout_case=10)],
    rule="case index mod 5 < 3: NEIGH case = (point set 1-3D, n 1..50 (thorough 140), layout uniform/clustered/jittered grid, "
         "optional offset, selection, undefined values, codes/dates) x (radius, coefficient class none/ones/aniso/rotated, "
         "nmini/nmaxi/nsect/nsmax, pair checker none/bench/code/date/faults(2-D), xvalid none/leave-one-out/k-fold) x 4-8 targets "
         "(inside, on a sample, on the hull, outside, or the nodes of a small rotated DbGrid); the set returned by NeighMoving::select (plain and ball search), "
         "KrigingSystem::getSampleIndices, krigtest().nbgh and the test_neigh()/summary() statistics are compared with the "
         "definition in harness/common/ref_neigh.hpp. Ball search is modelled as property C04 of this task states the library's "
         "contract ('ball-tree neighbourhood search equals exhaustive search whenever the nmaxi Euclidean-nearest samples are all "
         "admissible'): with K = the min(nmaxi,n) samples closest to the target in the plain L2 metric among all ranks of dbin, "
         "(a) if every member of K is admissible the ball result must equal the definition (oracle set-ball), (b) otherwise it "
         "must equal the definition applied to the candidate set K (oracle set-ball-candidates); targets where the k-th and "
         "(k+1)-th Euclidean distances tie are skipped. Targets with a distance tie, a sample within 2e-6*radius of the radius "
         "or within 1e-7 rad of a sector boundary are skipped; the sector partition is asserted only for isotropic unrotated "
         "searches (increment target-sample, sector=floor(nsect*angle/2pi)), anisotropic/rotated searches with sectors must "
         "match the definition in one of the admissible frames. Otherwise KNN case = (points 1-6D, n 1..70 (thorough 300), leaf "
         "1..50, metric L2/L1, constructor VVD/Db/rows) x 4-8 queries (random, equal to a data point, far) x k in 1..n against "
         "brute force. distinct = distinct discrete signatures with at least one non-skipped oracle evaluation",
    require=dict(distinct=200,
                 oracles=dict(quick={"set-plain": 5000, "set-ball": 500, "set-ball-candidates": 4000, "ksys-indices": 4000,
                                     "krigtest-nbgh": 300, "summary-plain-number": 5000, "test_neigh-number": 1000,
                                     "select-repeat": 2000, "knn-queryOneAsVD-dist": 4000,
                                     "knn-queryOneInPlace-dist": 4000, "knn-getIndices-set": 4000},
                              thorough={"set-plain": 100000, "set-ball": 10000, "set-ball-candidates": 80000,
                                        "ksys-indices": 80000, "krigtest-nbgh": 6000, "summary-plain-number": 100000,
                                        "test_neigh-number": 20000, "knn-queryOneAsVD-dist": 80000,
                                        "knn-queryOneInPlace-dist": 80000, "knn-getIndices-set": 80000})),
    assumptions=["'defined sample' = at least one Z variable defined (ANeigh::_discardUndefined: 'Discard samples where all "
                 "variables are undefined')",
                 "anisotropic distance from the user-facing parameters: ellipsoid semi-axes radius*coeff_k, axes turned by "
                 "the angles as documented in GeometryHelper::rotation3DMatrixInPlace (alpha/oz, beta/oy', gamma/ox'')",
                 "'fewer than nmini qualify' is counted before the quotas"])
