reg("C19", "a calculation either completes or leaves its data bases untouched",
    parts=[dict(harness="c19_atomic", cases=dict(quick=5000, thorough=26400), timeout_case=30)],
    rule="case i = calculator number (i mod 33) of {kriging, xvalid, test_neigh, krigtest, krigcell, kribayes, krigprof, "
         "kriggam, simtub (conditional / non conditional), migrate, migrateMulti, migrateByAttribute, migrateByLocator, "
         "dbStatisticsOnGrid, dbRegression, rawToGaussianByLocator, rawToGaussian, gaussianToRaw, normalScore, rawToFactor, "
         "simbayes, simfft, ConditionalExpectation, UniformConditioning, DisjunctiveKriging, PCA dbZ2F, dbF2Z, dbg2gCopy, "
         "dbg2gExpand, dbg2gShrink, simpgs (conditional / non conditional), kriging(DGM), simtub(flag_dgm)} x a generated "
         "variant (dimension 1-3, 1-3 variables, point/grid output, unique/moving neighbourhood, drift, external drift, "
         "options, naming convention with/without locator) x generated prior contents (unrelated columns carrying locators "
         "of every type, a selection, dead UID slots, duplicated data, undefined external drift at targets, columns named exactly like the outputs). Per case: (1) the valid call "
         "from fresh clones, failpoint log recording -> success oracles (input Db bit-identical, pre-existing columns of the "
         "output Db unchanged up to the documented NamingConvention locator rule, number/qualifiers of the new columns); "
         "(2) EVERY (site, k) of the recorded hit list (per-site cap first/second/last in quick, none in thorough) re-run "
         "from fresh clones with that failpoint armed: must report failure, both Dbs equal to their snapshots; (3) every "
         "labelled invalid-argument variant of the calculator from fresh clones: reported failure => both Dbs equal to "
         "their snapshots (accepted => success oracles); (4) after each reported failure that left the Dbs clean, the valid "
         "call on THE SAME objects must succeed and create the same columns bit for bit as in the fresh state. "
         "Snapshots through public getters only (harness/common/c19_snapshot.hpp), columns matched by UID. A difference that "
         "matches the narrow rule of an open root cause (calculator family + failure kind + Db + exactly which columns / "
         "locator types; harness emitDiff) is keyed C19:D<n>:<root-cause>, anything else C19:<calculator>:<kind>:<db>-<what>. "
         "distinct = distinct (calculator, discrete variant) signatures with at least one oracle evaluated; the number of "
         "(site, k) pairs enumerated / fired is the evaluation count of the oracles inject-fired / inject-reports-failure",
    level="fault_enumeration",
    require=dict(distinct=1000,
                 oracles=dict(quick={"inject-fired": 10000, "inject-reports-failure": 9500, "fail-dbin-untouched": 18000,
                                     "fail-dbout-untouched": 12000, "rerun-after-failure": 22000,
                                     "success-dbout-preexisting": 4500, "success-dbin-untouched": 3000,
                                     "success-new-columns": 4500},
                              thorough={"inject-fired": 55000, "inject-reports-failure": 52000,
                                        "fail-dbin-untouched": 100000, "fail-dbout-untouched": 65000,
                                        "rerun-after-failure": 130000, "success-dbout-preexisting": 26000,
                                        "success-dbin-untouched": 16000, "success-new-columns": 26000})),
    assumptions=["faults are injected only at the instrumented sites (calc.after_check / after_preprocess / after_run / "
                 "after_postprocess in ACalculator::run, calc.addvar.db2db, calc.addvar.creator); an internal failure "
                 "branch with neither a failpoint nor a labelled natural trigger is not exercised",
                 "dead UID slots (Db::getUIDMaxNumber() grows whenever a column is added and never shrinks) are not a "
                 "difference between two snapshots: UIDs are never re-used by design",
                 "on SUCCESS the locators of pre-existing columns of the output Db may change only as NamingConvention "
                 "documents (flag_locator + locatorOutType: holders of that type lose it); Z roles for the named "
                 "anamorphosis transforms and SIMU roles for the simulation calculators are not asserted on success "
                 "(undocumented); on FAILURE every role must be unchanged",
                 "Db::clone(), Model::clone(), AAnam::clone() give identical fresh copies"])
