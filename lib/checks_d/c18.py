reg("C18", "data transforms and their inverses compose to the identity",
    parts=[dict(harness="c18_transforms", cases=dict(quick=3000, thorough=100000), timeout_case=20)],
    rule="case = one transform family in {Hermite anamorphosis, empirical anamorphosis (normal score / gaussian / lognormal dilution), "
         "Hermite polynomials, PCA, MAF, normal score, rotation} with a data set drawn from the case PRNG (lognormal / bimodal / "
         "uniform / exponential / gaussian, optional ties, TEST values, selection, weights; n 20-2000; Hermite orders 3-100; "
         "2-6 variables with optional near-collinearity; one PCA/MAF case in three re-fits an object already fitted on another data set); forward-then-inverse is compared with the start inside the interval the "
         "transform reports, with tolerance = bisection tolerance x local slope (Hermite), interpolation round-off (empirical), "
         "c.eps.kappa (PCA/MAF); orthonormality by Gauss-Hermite quadrature in long double; distinct = distinct (family, "
         "distribution, ties, TEST, options) signatures with >= 1 oracle evaluation",
    require=dict(distinct=200, oracles=dict(quick={"hermite-z2y2z": 30000, "hermite-y2z2y": 8000, "hermite-forward": 4000, "hermite-monotone": 400,
                                                   "hermite-db-z": 6000, "hpoly-orthonormal": 120, "pca-z2f2z": 150, "pca-factor-cov": 150,
                                                   "maf-z2f2z": 80, "maf-lagged": 80, "nscore-quantile": 8000, "nscore-rank": 120,
                                                   "rotation-roundtrip": 2500, "empirical-z2y2z": 8000},
                                            thorough={"hermite-z2y2z": 900000, "hermite-y2z2y": 240000, "hermite-forward": 120000,
                                                      "hermite-monotone": 12000, "hermite-db-z": 180000, "hpoly-orthonormal": 3600,
                                                      "pca-z2f2z": 4500, "pca-factor-cov": 4500, "maf-z2f2z": 2400, "maf-lagged": 2400,
                                                      "nscore-quantile": 240000, "nscore-rank": 3600, "rotation-roundtrip": 75000,
                                                      "empirical-z2y2z": 240000})),
    assumptions=["the validity interval of a bounded Hermite anamorphosis is the intersection of its practical and absolute intervals",
                 "the plotting position of VH::normalScore is the one of the code itself (k/(n+1)); no document states it"])
