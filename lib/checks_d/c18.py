reg("C18", "data transforms and their inverses compose to the identity",
    parts=[dict(harness="c18_transforms", cases=dict(quick=1500, thorough=30000), timeout_case=20)],
    rule="case = one transform family in {Hermite anamorphosis, empirical anamorphosis (normal score / gaussian / lognormal dilution), "
         "Hermite polynomials, PCA, MAF, normal score, rotation} with a data set drawn from the case PRNG (lognormal / bimodal / "
         "uniform / exponential / gaussian, optional ties, TEST values, selection, weights; n 20-2000; Hermite orders 3-100; "
         "2-6 variables with optional near-collinearity); forward-then-inverse is compared with the start inside the interval the "
         "transform reports, with tolerance = bisection tolerance x local slope (Hermite), interpolation round-off (empirical), "
         "c.eps.kappa (PCA/MAF); orthonormality by Gauss-Hermite quadrature in long double; distinct = distinct (family, "
         "distribution, ties, TEST, options) signatures with >= 1 oracle evaluation",
    require=dict(distinct=60, oracles=dict(quick={"hermite-z2y2z": 5000, "hermite-monotone": 100, "hpoly-orthonormal": 40,
                                                  "pca-z2f2z": 50, "maf-z2f2z": 30, "nscore-quantile": 1000, "rotation-roundtrip": 400,
                                                  "empirical-z2y2z": 800},
                                           thorough={"hermite-z2y2z": 100000, "hermite-monotone": 2000, "hpoly-orthonormal": 800,
                                                     "pca-z2f2z": 1000, "maf-z2f2z": 600, "nscore-quantile": 20000,
                                                     "rotation-roundtrip": 8000, "empirical-z2y2z": 16000})),
    assumptions=["the validity interval of a bounded Hermite anamorphosis is the intersection of its practical and absolute intervals",
                 "the plotting position of VH::normalScore is the one of the code itself (k/(n+1)); no document states it"])
