reg("C10", "results depend only on the arguments (history, incremental objects, copies)",
    parts=[
        dict(harness="c10_copies", cases=dict(quick=2400, thorough=18000), timeout_case=20),
        dict(harness="c10_incremental", cases=dict(quick=1600, thorough=15000), timeout_case=30),
        dict(harness="c10_history", cases=dict(quick=640, thorough=4500), timeout_case=120),
    ],
    rule="three monitors over recorded histories. c10_copies: (a) a pool of copy-on-write vector handles "
         "(VectorInt, VectorDouble, VectorString, VectorVectorDouble, VectorT<int>) mirrored by std::vector models under "
         "20-200 random steps of copy-construction, assignment, move and every non-const accessor of VectorT/VectorNumT "
         "(getVector()/getVectorPtr() excluded: const methods handing out the shared storage, a deliberate escape hatch), "
         "every handle compared with its model after every step, hazardous uses (const_iterator positions on shared "
         "storage, assignment to a moved-from handle) in forked children; (b) object copies (Db, DbGrid, Model, Vario, "
         "dense/sparse matrices, Polygons, NeighMoving, VarioParam, CovAniso, AnamHermite) by copy-ctor / clone / assignment after 0-2 prior modifications: "
         "modify one side, digest the other, compare the modified side with an uncopied twin; (c) Model / ACovAnisoList / "
         "CovAniso copied (copy-ctor, clone, assignment) while the source is between optimizationPreProcess and "
         "optimizationPostProcess (and outside, as control): the copy must answer plain and optimised covariance-matrix "
         "requests like an object built from scratch, also after the source is post-processed or destroyed. c10_incremental: "
         "same-object histories against a twin built from scratch with the same final content: KrigingCalcul (setters in "
         "random order with replacement, 13 getters, mismatches delta-debugged), Model (edits interleaved with "
         "covariance-matrix requests, some failing), NeighMoving and KrigingSystem (targets in random order with repeats, "
         "updKrigOptEstim in between), Vario (recompute), MatrixSquareSymmetric (modify after computeEigen), Db (edited "
         "vs rebuilt). c10_history: an observed call (25 kinds: kriging, xvalid, krigtest, covariance matrices, "
         "variograms, fit, simtub, simfft, gibbs, migrate, statistics, anamorphosis, PCA, seeded Db fillers, polygons, grid "
         "conversions, neutral-file round trip, law with seed, neighbourhood) digested first in a pristine forked process "
         "and again after a random prefix of 1-25 calls drawn from the catalogue and from 13 failing calls; documented "
         "global options read through their getters around every prefix call; 35 % of the cases run entirely (reference and "
         "history child alike) with law_set_old_style(false), and in those and 20 % of the others several calls of the "
         "history are given the same seed argument as the observed call; differences delta-debugged to a minimal "
         "prefix. All inputs 2-D in the default space. distinct = (monitor, class / observed call, mode flags) with at "
         "least one evaluation",
    level="exploration",
    require=dict(distinct=60,
                 oracles=dict(quick={"vec-model": 18000, "copy-indep": 2000, "copy-twin": 1500, "copy-window": 120, "kcalc-twin": 1400,
                                     "model-twin": 800, "neigh-twin": 1800, "ksys-twin": 1700, "vario-twin": 220,
                                     "matrix-twin": 320, "db-twin": 500, "hist-digest": 300, "hist-options": 2000},
                              thorough={"vec-model": 180000, "copy-indep": 16000, "copy-twin": 12000, "copy-window": 900, "kcalc-twin": 13500,
                                        "model-twin": 7000, "neigh-twin": 18000, "ksys-twin": 16000, "vario-twin": 2100,
                                        "matrix-twin": 3300, "db-twin": 4800, "hist-digest": 2000, "hist-options": 15000})),
    assumptions=["fork() gives a faithful pristine process: the worker never calls the library outside forked children in c10_history",
                 "twins are built through the public API from the recorded final content; where the construction path differs "
                 "(edits vs creation) answers are compared with a 1e-10 relative tolerance, bit-for-bit otherwise",
                 "every catalogue call builds its own objects: c10_history sees process-wide state only; same-object histories are "
                 "the business of c10_incremental"])
