reg("C11", "matrix/vector classes vs linear algebra",
    parts=[dict(harness="c11_matrix", cases=dict(quick=3000, thorough=120000), timeout_case=5)],
    rule="case = (operation group, storage in {rect,sqgen,sym,sparse-cs,sparse-eigen}, shape from {1,2,3,5,8,17}^2, "
         "content in {generic, exact zeros, small integers, wide dynamic range}) drawn from the case PRNG; every result "
         "is compared with a long-double reference; distinct = distinct (operation, storage, shape, content) signatures "
         "with at least one non-skipped oracle evaluation",
    require=dict(distinct=50))
