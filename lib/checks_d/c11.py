reg("C11", "matrix/vector classes vs linear algebra",
    parts=[dict(harness="c11_matrix", cases=dict(quick=20000, thorough=400000), timeout_case=5),
           # TSan flavour (clang + libomp + Archer): same products under setMultiThread(1..16); few workers so that
           # every process really gets its OpenMP team
           dict(harness="c11_threads", flavour="tsan", cases=dict(quick=24, thorough=160), workers=2, chunk=4,
                timeout_case=120)],
    rule="part 1: case = (operation group, storage in {rect,sqgen,sym,sparse-cs,sparse-eigen}, shape from {1,2,3,5,8,17}^2, "
         "content in {generic, exact zeros, small integers, wide dynamic range}) drawn from the case PRNG; every result "
         "is compared with a long-double reference (harness/common/ref_linalg.hpp). part 2 (ThreadSanitizer build): "
         "dense/sparse products, congruence, inversion, Cholesky solve of sizes 70-260 recomputed under "
         "setMultiThread(t), t in {1,2,3,4,8,16} (thorough: 1..16), compared with t=1 and with the reference, with "
         "TSan+Archer watching. distinct = distinct (operation, storage, shape, content) signatures with at least one "
         "non-skipped oracle evaluation",
    require=dict(distinct=50, oracles=dict(quick={"thread-independence": 400, "prodMatMatInPlace": 500, "invert": 100,
                                                  "chol-solve": 100, "eigenvalues": 100, "VectorNumT::sum": 500}),
                 probes=["h.team=16", "h.team=2"]),
    assumptions=["TSan only sees synchronisation it intercepts: libomp is made visible through Archer (OMP_TOOL_LIBRARIES)",
                 "the schedule space is what Eigen/libomp produce for thread counts 1..16; TSan observes, it does not permute"])
