reg("C07", "Db stays a consistent table under edit histories",
    parts=[dict(harness="c07_dbedit", cases=dict(quick=1500, thorough=30000), timeout_case=20)],
    rule="case = initial construction (Db::createFromSamples | Db::create() + first addColumns | empty Db::create() | "
         "DbGrid::create, with duplicate names and repeated locator names) followed by a random edit history (5-60 steps, "
         "thorough up to 400) drawn step by step for the state reached, over the public editing alphabet of Db/DbGrid "
         "(every operation name used is listed as reach probe h.op.<name>); after EVERY step (a) the consistency rules of "
         "harness/common/c07_db_invariants.hpp are read through public getters (oracles inv.<rule>) and (b) the whole table "
         "(live UIDs, column order, every cell, names, roles, counts, return values) is compared with a shadow table keyed "
         "by UID (oracles t.<what>); key = C07:<operation>:<rule>, one fixed key per known-defect input class; the first "
         "witness of a key is delta-debugged to a short history; the cases with index % 50 in 0..7 start from a small scripted "
         "probe (one per open known-defect class) before going on at random, so every open key is reached in every run; distinct = distinct (construction kind and options, "
         "length bucket, set of operation families) signatures",
    level="exploration",
    require=dict(distinct=40,
                 oracles=dict(quick={"inv.uid-col": 12000, "inv.names-unique": 12000, "inv.locator-two-roles": 12000,
                                     "t.cells": 12000, "t.roles": 12000, "t.columns": 12000, "t.return": 3000},
                              thorough={"inv.uid-col": 500000, "inv.names-unique": 500000, "inv.locator-two-roles": 500000,
                                        "t.cells": 500000, "t.roles": 500000, "t.columns": 500000, "t.return": 120000})),
    assumptions=["a column carrying the SEL role only receives 0/1 values from the harness, and SEL is only given to 0/1 columns "
                 "(Db::addSelection documents a selection as 0/1; the meaning of other values differs between getters)",
                 "a requested locator rank is 'next' (-1 or the current count) or an existing rank; 'unique' role types "
                 "(W, C, SEL) are only requested for one column at rank 0",
                 "names come from a pool of plain words; suffixes '.N' / '-N' are only produced by the library itself",
                 "sample count stays >= 1 once the table has a sample (deleteSample is not used on the last sample)",
                 "masked samples after setColumnByColIdx/setColumnsByColIdx/setCoordinates(useSel=true) and cell values after "
                 "resetDims are undocumented and left undetermined (re-read from the Db)"])
