reg("C07", "Db stays a consistent table under edit histories",
    parts=[dict(harness="c07_dbedit", cases=dict(quick=1500, thorough=40000), timeout_case=20)],
    rule="case = initial construction (Db::createFromSamples | empty Db + first addColumns | DbGrid::create, with duplicate "
         "names / locator names) followed by a random edit history (5-60 steps, thorough up to 400) over the public editing "
         "alphabet (operation names are listed as reach probes h.op.<name>); after every step the structural invariants "
         "are read through public getters and the whole table is compared with a shadow table keyed by UID; "
         "distinct = distinct (construction kind, options, length bucket, set of operation families) signatures",
    level="exploration",
    require=dict(distinct=20),
    assumptions=["a selection column only ever holds 0/1 values written by the harness",
                 "locator ranks requested are 'next' or an existing rank; unique role types (W, C, SEL) only at rank 0",
                 "names are taken from a pool without regular-expression metacharacters (library-made suffixes .N / -N excepted)"])
