reg("C12", "experimental variograms vs their pairwise definition",
    parts=[dict(harness="c12_vario", cases=dict(quick=4000, thorough=40000), timeout_case=20)],
    rule="case = (data set, VarioParam, calculation mode) drawn from the case PRNG. general (54%): scattered Db, 1-3 D, "
         "1-3 variables, n <= 60 (thorough 200), layouts lattice / uniform / few-distinct-abscissae / clustered / transect, "
         "sample order random or sorted by decreasing / increasing x, integer offsets up to 1e6, undefined values "
         "(cells, whole samples, one variable half missing), weights (some zero), selections (70%, 3 samples, empty), "
         "codes; 1-3 directions with npas 1-30, random or lattice-unit dpas, toldis 0.05-0.5, angular tolerance 1-90 deg, "
         "2-D angles / 3-D direction vectors (not normalised), bench, cylinder radius, irregular breaks, code criterion. "
         "grid (25%): DbGrid 1-3 D (rotated, offset), DirParam::createFromGrid, grid algorithm vs reference and vs the "
         "general algorithm on the same data. genvar (7%): GENERAL1-3 on grids, one or two grid directions (equal lag counts). vmap (8%): db_vmap on scattered 2-3 D data "
         "and on grids (direct and FFT algorithms): every cell except the centre = the pairs whose separation vector "
         "(or its opposite) is nearest to the cell, sum of weights and mean term; FFT vs direct. vcloud (6%): db_vcloud "
         "cell counts = pairs kept by the direction whose (distance, half or full squared difference) is nearest to the "
         "cell. Small strata: date criterion (symmetric interval), mixed per-direction code options. Reference = O(n^2) pair enumeration in "
         "long double (harness/common/ref_vario.hpp): per lag sum of pair weights w_i*w_j, mean distance, mean of the "
         "two-point term; lag = round(d/dpas) kept iff |d - k dpas| <= toldis*dpas; direction kept iff |cos| >= "
         "cos(tolang); a pair within 1e-9 (relative) of a class / cone / bench / cylinder boundary taints its lag(s), "
         "which are skipped (skipped:boundary). Getters read with compress=false; an empty lag must report TEST. "
         "Definitions asserted: VARIOGRAM (simple+cross), MADOGRAM / RODOGRAM / ORDER4 (simple terms; cross terms sw, hh "
         "only), COVARIANCE_NC, COVARIANCE (centred on sample means; unit weights only; cross terms on isotopic "
         "variables only), C(0) row (unit weights), BINORMAL = G12/sqrt(G1 G2), TRANS1/TRANS2 simple terms, GENERAL1-3 "
         "(Chiles-Delfiner). No definition found for POISSON, COVARIOGRAM (by-sample regression on scattered data) and "
         "the TRANS1/2 cross terms: these are checked for invariances only. Metamorphic oracles on every general case: "
         "sample permutation, exact coordinate translation, reversal of the variable order (C_ab(h) = C_ba(-h)), "
         "each direction alone = that direction of the joint run. distinct = distinct (kind, mode, ndim, nvar, layout, "
         "order, weights, selection, heterotopy, codes, direction features) signatures with >= 1 evaluated oracle",
    require=dict(distinct=1000,
                 oracles=dict(quick={"sw": 40000, "hh": 15000, "gg": 12000, "empty": 40000, "perm": 80000,
                                     "translate": 80000, "var-swap": 60000, "dir-split": 60000,
                                     "grid-vs-general": 20000, "vmap-nb": 8000, "vmap-var": 5000,
                                     "vmap-fft": 3000, "vcloud-count": 5000},
                              thorough={"sw": 500000, "hh": 150000, "gg": 120000, "perm": 1000000,
                                        "grid-vs-general": 200000})),
    assumptions=["the weight of a pair is the product of the two sample weights (AVario.cpp); the lag, cone, bench, "
                 "cylinder and code rules are the ones written in the DirParam class comment",
                 "an empty lag reports TEST for distance and statistic (calibrated reading of the design round)"])
