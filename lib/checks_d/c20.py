reg("C20", "point-in-polygon decisions and polygon selections vs exact geometry",
    parts=[dict(harness="c20_polygon", cases=dict(quick=6000, thorough=80000), timeout_case=30)],
    rule="case = polygon(s) + queries from the case PRNG. Polygon vertices on an even integer lattice, query points on the "
         "integer lattice (half-lattice); integer k is given to the library as h*(k+offset), h = 2^-4..2^2, offsets up to "
         "2^20, so both the exact integer oracle (harness/common/ref_poly.hpp: winding number + on-segment test in int64) "
         "and the library's double arithmetic are exact. Polygons: convex hulls, star-shaped, polyomino boundaries "
         "(random blobs, combs, square spirals, one/two-sided histograms: rectilinear, many axis-parallel edges), "
         "optionally every lattice point of an edge kept as a vertex (consecutive collinear vertices), then an integer "
         "scale / shear (horizontal edges stay horizontal, vertical ones tilt) / transpose / reflection; both "
         "orientations, random start vertex, closed or open ring; up to 250 (thorough 400) vertices; every polygon is "
         "verified simple (exact O(n^2) test). Queries (300 per polygon, thorough 1000): 30% random, 32% level with a "
         "vertex, 15% around a vertex, 13% around an edge midpoint, 10% above/below a vertex; points ON the boundary are "
         "detected exactly and skipped. single (45%): PolyElem::inside (closed ring; ring left open under its own key), "
         "Polygons::inside with both flag_nested values. set (20%): 2-5 concentric or overlapping polygons, union rule "
         "vs odd-count rule, vertical limits zmin/zmax (even) against query z (odd, absent or TEST). db (20%): "
         "db_polygon on 2-D/3-D DbGrids (nodes on the lattice or half-lattice), previous selection with flag_sel, "
         "flag_period (+-360), selection compared with the library's own point test and with the exact truth; "
         "dbPolygonDistance(polin=+-1). hull (15%): Polygons::createFromDb = exact convex hull of the active samples "
         "(lattice boxes, discs, crosses, triangles, bands, duplicates), contains all its samples; "
         "Db::addSelectionFromDbByConvexHull on a grid, dilation checked by a two-sided bound. Small-scale strata (6% of "
         "single and hull cases): half-unit 2^-20..2^-12, i.e. polygons / data sets of extent 1e-5..1e-2 (the hull "
         "construction is first tried in a forked child with a 5 s limit there). distinct = distinct "
         "(kind, generator, transform, closed/open, orientation, size class, h, offset, options) signatures",
    require=dict(distinct=1200,
                 oracles=dict(quick={"polygons-inside": 400000, "polyelem-inside": 200000, "set-union": 100000,
                                     "set-nested": 100000, "db-exact": 600000, "db-vs-test": 600000, "hull-select": 250000,
                                     "hull-exact": 200},
                              thorough={"polygons-inside": 8000000, "polyelem-inside": 4000000, "set-union": 1500000,
                                        "db-exact": 5000000, "hull-exact": 1500})),
    assumptions=["the union / odd-count rules and the vertical test are the ones written above Polygons::inside",
                 "a point is in a polygon of a set iff it is inside its 2-D ring and within its own [zmin, zmax]"])
