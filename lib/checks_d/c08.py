reg("C08", "save / reload gives back an equivalent object",
    parts=[dict(harness="c08_roundtrip", cases=dict(quick=2400, thorough=40000), timeout_case=10)],
    rule="case i = (class number i mod N of the registry harness/common/c08_registry.hpp, one generated instance, file "
         "addressing mode in {relative name, container+prefix, absolute path}); oracles: dumpToNF ok, createFromNF non-null, "
         "defining getters equal to the 15 digits of the format (TEST stays TEST), behavioural queries equal, "
         "save(load(save(o))) == save(o) byte for byte, serialize(ostream)/deserialize(istream) same object and text; "
         "distinct = distinct (class, discrete generator choices) signatures with at least one oracle evaluated",
    require=dict(distinct=100))
