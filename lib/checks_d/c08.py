reg("C08", "save / reload gives back an equivalent object",
    parts=[dict(harness="c08_roundtrip", cases=dict(quick=2640, thorough=39600), timeout_case=30)],
    rule="case i = (class number i mod 33 of harness/common/c08_registry.hpp: Db, DbGrid, Model, NeighUnique, NeighMoving, "
         "NeighBench, NeighCell, NeighImage, Vario, Polygons, PolyLine2D, Faults, Table, AnamHermite, AnamEmpirical, "
         "AnamDiscreteDD, AnamDiscreteIR, DbLine, DbGraphO, MeshETurbo, MeshEStandard, DbMeshTurbo, DbMeshStandard, Rule, "
         "RuleShift, RuleShadow, FracEnviron, FracFamily, FracFault, PolyElem + the exchange formats GridZycor, GridIfpEn, "
         "GridBmp; one generated instance; file addressing mode in {relative name, container + prefix, absolute path}). "
         "Oracles: dumpToNF ok, createFromNF non-null, defining getters equal to the 15 digits of the format (TEST stays TEST), "
         "behavioural queries equal, save(load(save(o))) == save(o) byte for byte, serialize(ostream) == file body, "
         "deserialize(istream) == createFromNF and re-serialises to the same text; exchange formats: geometry and values back "
         "within the precision the format writes (6 significant digits; Bmp: image size and order of grey levels). Each case "
         "runs in a forked child: a crash is a keyed failure C08:<class>:crash:<kind>:<first /repo function>. "
         "NOT instantiated: AnamUser (its _serialize refuses by design), MeshSpherical, DbMeshTurbo with a mask, Model with "
         "Markov / tapering / anamorphosis attachments, Vario with dates or faults, fitted AnamDiscreteDD (needs a MAF decomposition on a Db; its stored fields are set "
         "through reset()), RuleShift / RuleShadow / FracFamily / FracFault have no createFromNF (loaded by tag check + public "
         "deserialize). distinct = distinct (class, discrete generator choices) signatures with at least one oracle evaluated",
    require=dict(distinct=300, oracles=dict(quick={"getters": 8000, "behaviour": 2500, "load": 900, "idempotent": 700, "stream": 3000,
                                                   "exchange": 400},
                                            thorough={"getters": 120000, "behaviour": 37000, "load": 13000, "idempotent": 10000,
                                                      "stream": 45000, "exchange": 6000})),
    assumptions=["equivalence is judged through public getters, the queries listed in the registry and the text of a second "
                 "save: a private field that is neither written, nor visible in a query, nor affects a second save is outside the claim",
                 "numerical agreement = 1e-14 relative (15 significant digits); behavioural queries get a documented amplification "
                 "factor (see the comparators)"])
