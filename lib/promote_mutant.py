#!/usr/bin/env python3
"""promote_mutant.py <staging-id> : copy seeded/staging/<id> to seeded/<id> with meta.json, using seeded/descriptions.json,
the confirm.json written by bin/vconfirm and the detection block of /tmp/mutant_results.log (or a given log)."""
import json, os, re, shutil, sys
V = os.path.dirname(os.path.dirname(os.path.abspath(__file__)))
mid = sys.argv[1]
logs = sys.argv[2:] or ["/tmp/mutant_results.log"]
src = os.path.join(V, "seeded", "staging", mid)
desc = json.load(open(os.path.join(V, "seeded", "descriptions.json")))[mid]
conf = json.load(open(os.path.join(src, "confirm.json")))
text = "\n".join(open(l, errors="replace").read() for l in logs if os.path.exists(l))
# last block about this mutant
blocks = re.split(r"^=== ", text, flags=re.M)
mine = [b for b in blocks if b.startswith(os.path.join(V, "seeded", "staging", mid) + " ") or ("/" + mid + "/patch.diff") in b]
if not mine and len(logs) == 1 and os.path.basename(logs[0]).startswith(mid + "_"):
    mine = [text]  # a per-mutant log written by the detection queue
det = {"result": "not run", "keys": []}
if mine:
    b = mine[-1]
    keys = re.findall(r"^VIOLATION property=(\S+) .*? key=(\S+)", b, flags=re.M)
    summ = re.findall(r"^(C\d\d .* -> \w.*)$", b, flags=re.M)
    det = {"result": ("DETECTED by bin/vcheck %s (quick, seed 1)" % desc["property"]) if "MUTANT DETECTED" in b
           else ("SURVIVED bin/vcheck %s quick" % desc["property"] if "MUTANT SURVIVED" in b else "inconclusive"),
           "keys": sorted(set(k for _, k in keys))[:8], "n_new_keys": len(set(k for _, k in keys)),
           "summary_line": summ[-1][:300] if summ else ""}
dst = os.path.join(V, "seeded", mid)
os.makedirs(dst, exist_ok=True)
for f in ("patch.diff", "demo.cpp", "README.md"):
    shutil.copy(os.path.join(src, f), os.path.join(dst, f))
if os.path.exists(os.path.join(src, "demo.author.cpp")):  # demo whose hard-coded scratch directory was replaced by "./"
    shutil.copy(os.path.join(src, "demo.author.cpp"), os.path.join(dst, "demo.author.cpp"))
# the author's patch was written against an older HEAD: keep it, and store the same change expressed against the HEAD it
# was confirmed on as patch.diff, so that `git -C /repo apply seeded/<id>/patch.diff` works
reb = os.path.join(src, "patch.rebased.diff")
if os.path.exists(reb) and os.path.getsize(reb) > 0 and open(reb).read() != open(os.path.join(src, "patch.diff")).read():
    shutil.copy(os.path.join(src, "patch.diff"), os.path.join(dst, "patch.author.diff"))
    shutil.copy(reb, os.path.join(dst, "patch.diff"))
meta = {"id": mid, "property": desc["property"], "change": desc["change"], "needs": desc["needs"],
        "author": "independent sub-agent given only the property record and a scratch worktree",
        "confirmation": dict(conf, how="bin/vconfirm: scratch tree /tmp/vconf/repo built with the reference flags; demo on unmodified tree, "
                                   "patch applied, incremental build, ctest on the 113 pinned tests, demo with patch"),
        "detection": dict(det, how="bin/vmutant: patch applied to a scratch worktree, sanitizer flavours rebuilt from it, quick tier"),
        "replay_on_real_tree": "git -C /repo apply seeded/%s/patch.diff && bin/vcheck %s; git -C /repo checkout -- ." % (mid, desc["property"])}
json.dump(meta, open(os.path.join(dst, "meta.json"), "w"), indent=1)
print(mid, conf.get("confirmed"), det["result"], det["keys"][:2])
